use cwe_checker_lib::intermediate_representation::*;
use cwe_checker_lib::utils::binary::MemorySegment;
use std::collections::BTreeSet;

fn bv8(v: u8) -> Bitvector { Bitvector::from_u8(v) }

fn main() {
    // F1: INT_SBORROW
    let mut bad = 0;
    let mut first = None;
    for a in 0..=255u8 { for b in 0..=255u8 {
        let got = bv8(a).bin_op(BinOpType::IntSBorrow, &bv8(b)).unwrap().try_to_u8().unwrap();
        let (sa, sb) = (a as i8 as i32, b as i8 as i32);
        let exp = ((sa - sb) < -128 || (sa - sb) > 127) as u8;
        if got != exp { bad += 1; if first.is_none() { first = Some((a,b,got,exp)); } }
    }}
    println!("F1 sborrow mismatches: {} first={:?}", bad, first);

    // F3: adjacent segments string read
    let seg_a = MemorySegment { bytes: b"abc\0".to_vec(), base_address: 0x1000, read_flag: true, write_flag: false, execute_flag: false };
    let seg_b = MemorySegment { bytes: b"hello\0".to_vec(), base_address: 0x1004, read_flag: true, write_flag: false, execute_flag: false };
    let img = RuntimeMemoryImage { memory_segments: vec![seg_a, seg_b], is_little_endian: true, is_lkm: false };
    println!("F3 read_string at 0x1004: {:?}", img.read_string_until_null_terminator(&Bitvector::from_u64(0x1004)));

    // F5: %%d
    let props = DatatypeProperties { char_size: ByteSize::new(1), double_size: ByteSize::new(8), float_size: ByteSize::new(4), integer_size: ByteSize::new(4), long_double_size: ByteSize::new(8), long_long_size: ByteSize::new(8), long_size: ByteSize::new(4), pointer_size: ByteSize::new(8), short_size: ByteSize::new(2) };
    println!("F5 parse '100%%d done %s': {:?}", cwe_checker_lib::utils::arguments::parse_format_string_parameters("100%%d done %s", &props));

    // O1
    {
        let x = Variable { name: "RAX".into(), size: ByteSize::new(8), is_temp: false };
        let y = Variable { name: "RBX".into(), size: ByteSize::new(8), is_temp: false };
        let mut e = Expression::BinOp { op: BinOpType::IntEqual, lhs: Box::new(Expression::Const(Bitvector::from_u64(1))), rhs: Box::new(Expression::BinOp { op: BinOpType::IntSub, lhs: Box::new(Expression::Var(x)), rhs: Box::new(Expression::Var(y)) }) };
        e.substitute_trivial_operations();
        println!("O1 (1 == RAX - RBX) rewritten to: {}", e);
    }
    // F4: chroot without return target
    {
        let rsp = Variable { name: "RSP".into(), size: ByteSize::new(8), is_temp: false };
        let mk_sym = |name: &str| ExternSymbol { tid: Tid::new(name), addresses: vec![], name: name.into(), calling_convention: None, parameters: vec![], return_values: vec![], no_return: false, has_var_args: false };
        let blk = Term { tid: Tid::new("blk"), term: Blk { defs: vec![], jmps: vec![Term { tid: Tid::new("call"), term: Jmp::Call { target: Tid::new("chroot"), return_: None } }], indirect_jmp_targets: vec![] } };
        let sub = Term { tid: Tid::new("sub"), term: Sub { name: "sub".into(), blocks: vec![blk], calling_convention: None } };
        let program = Program { subs: [(sub.tid.clone(), sub)].into_iter().collect(), extern_symbols: [(Tid::new("chroot"), mk_sym("chroot")), (Tid::new("chdir"), mk_sym("chdir"))].into_iter().collect(), entry_points: BTreeSet::new(), address_base_offset: 0 };
        let mut project = Project { program: Term { tid: Tid::new("prog"), term: program }, cpu_architecture: "x86_64".into(), stack_pointer_register: rsp.clone(), calling_conventions: Default::default(), register_set: [rsp.clone()].into_iter().collect(), datatype_properties: props.clone(), runtime_memory_image: RuntimeMemoryImage::empty(true) };
        let _ = project.normalize_basic();
        let cfg = cwe_checker_lib::analysis::graph::get_program_cfg(&project.program);
        let bin: Vec<u8> = vec![];
        let results = cwe_checker_lib::pipeline::AnalysisResults::new(&bin, &cfg, &project);
        let cfgjson: serde_json::Value = serde_json::json!({"priviledge_dropping_functions": ["setuid"]});
        let r = std::panic::catch_unwind(std::panic::AssertUnwindSafe(|| (cwe_checker_lib::checkers::cwe_243::CWE_MODULE.run)(&results, &cfgjson)));
        println!("F4 cwe_243 on chroot call without return: {}", match r { Ok((_, w)) => format!("ok, {} warnings", w.len()), Err(_) => "PANIC".to_string() });
    }
    // F2: expression propagation across blocks after a load
    let rax = Variable { name: "RAX".into(), size: ByteSize::new(8), is_temp: false };
    let rbx = Variable { name: "RBX".into(), size: ByteSize::new(8), is_temp: false };
    let rcx = Variable { name: "RCX".into(), size: ByteSize::new(8), is_temp: false };
    let rsp = Variable { name: "RSP".into(), size: ByteSize::new(8), is_temp: false };
    let blk_a = Term { tid: Tid::new("blk_a"), term: Blk {
        defs: vec![
            Term { tid: Tid::new("d1"), term: Def::Assign { var: rax.clone(), value: Expression::Var(rbx.clone()).plus_const(1) } },
            Term { tid: Tid::new("d2"), term: Def::Load { var: rax.clone(), address: Expression::Var(rsp.clone()) } },
        ],
        jmps: vec![Term { tid: Tid::new("j1"), term: Jmp::Branch(Tid::new("blk_b")) }],
        indirect_jmp_targets: vec![] } };
    let blk_b = Term { tid: Tid::new("blk_b"), term: Blk {
        defs: vec![Term { tid: Tid::new("d3"), term: Def::Assign { var: rcx.clone(), value: Expression::Var(rax.clone()) } }],
        jmps: vec![Term { tid: Tid::new("j2"), term: Jmp::Return(Expression::Var(rsp.clone())) }],
        indirect_jmp_targets: vec![] } };
    let sub = Term { tid: Tid::new("sub"), term: Sub { name: "sub".into(), blocks: vec![blk_a, blk_b], calling_convention: None } };
    let program = Program { subs: [(sub.tid.clone(), sub)].into_iter().collect(), extern_symbols: Default::default(), entry_points: BTreeSet::new(), address_base_offset: 0 };
    let mut project = Project { program: Term { tid: Tid::new("prog"), term: program }, cpu_architecture: "x86_64".into(), stack_pointer_register: rsp.clone(), calling_conventions: Default::default(), register_set: [rax.clone(), rbx.clone(), rcx.clone(), rsp.clone()].into_iter().collect(), datatype_properties: props.clone(), runtime_memory_image: RuntimeMemoryImage::empty(true) };
    cwe_checker_lib::analysis::expression_propagation::propagate_input_expression(&mut project);
    for blk in project.program.term.subs.values().next().unwrap().term.blocks.iter() {
        println!("F2 {}:", blk.tid);
        for d in blk.term.defs.iter() { println!("   {}", d.term); }
    }
}
