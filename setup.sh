#!/bin/sh
# Builds the framework from files on disk only (offline) and pre-generates the facts.
set -e
cd "$(dirname "$0")"
export CARGO_NET_OFFLINE=true
(cd tools/factgen && cargo +nightly build --release --offline)
if [ -d tools/regexlang ]; then
  (cd tools/regexlang && cp -f /repo/Cargo.lock Cargo.lock 2>/dev/null || true; cargo build --release --offline)
fi
python3 - <<'PY'
import sys
sys.path.insert(0, '.')
from rules.lib import factsrc
print(factsrc.generate('/repo', 'repo'))
PY
