#!/bin/bash
# refactor_eval.sh <R-id> [patch]: a behaviour-preserving refactoring must keep EVERY check silent.
# Applies the patch to a scratch copy of /repo and runs all checks on it; prints violations / anchor failures / undecided.
id=$1; patch=${2:-/verif/refactorings/$id/patch.diff}
[ -f "$patch" ] || patch=/tmp/seeds/$id/patch.diff
d=$(mktemp -d /tmp/refeval_XXXX)
rsync -a --exclude target --exclude .git --exclude doc --exclude test/artificial_samples /repo/ $d/
(cd $d && git init -q . 2>/dev/null; git -C $d apply --whitespace=nowarn $patch) || { echo "patch does not apply"; rm -rf $d; exit 2; }
cd /verif
bad=0
for c in $(python3 -c "import json;print(' '.join(x['property_id'] for x in json.load(open('/verif/MANIFEST.json'))['checks']))"); do
  out=$(./check $c --repo $d --slot shared-refeval-$$ 2>&1); ec=$?
  v=$(echo "$out" | grep -cE "^VIOLATION|ANCHOR-MISSING|FACT-ERROR|Traceback")
  u=$(echo "$out" | grep -c "UNDECIDED")
  if [ $ec -ne 0 ] || [ $v -gt 0 ]; then bad=1; echo "ALARM $c exit=$ec"; echo "$out" | grep -E "violated:|ANCHOR-MISSING|FACT-ERROR|Traceback|Error" | cut -c1-400 | head -6; fi
  if [ $u -gt 0 ]; then echo "undecided $c: $u"; echo "$out" | grep "UNDECIDED" | cut -c1-300 | head -4; fi
done
rm -rf $d /verif/.work/facts-shared-refeval-$$
[ $bad -eq 0 ] && echo "SILENT: all checks pass on refactoring $id"
exit $bad
