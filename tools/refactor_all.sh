#!/bin/bash
# runs every stored behaviour-preserving refactoring through ALL checks; writes refactorings/RESULTS.json
cd /verif
python3 - <<'PY'
import json,subprocess,glob,os,re
res={}
for d in sorted([d for d in glob.glob('/verif/refactorings/R*') if os.path.isdir(d)]):
    rid=os.path.basename(d)
    r=subprocess.run(['/verif/tools/refactor_eval.sh',rid],stdout=subprocess.PIPE,stderr=subprocess.STDOUT,text=True)
    out=r.stdout
    res[rid]={"exit":r.returncode,"silent":r.returncode==0 and "SILENT" in out,"alarms":re.findall(r"^ALARM (\S+)",out,re.M),"undecided":dict((m[0],int(m[1])) for m in re.findall(r"^undecided (\S+): (\d+)",out,re.M))}
    print(rid,res[rid])
json.dump(res,open('/verif/refactorings/RESULTS.json','w'),indent=1,sort_keys=True)
PY
