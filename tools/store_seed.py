#!/usr/bin/env python3
"""store_seed.py <id> <status> <text...>: copy /tmp/seeds/<id>/{patch,demo}.diff into /verif/seeded/<id>/ with a meta.json
that records what the change breaks, what it needs to manifest, what was run to confirm it and which check reports it."""
import json, os, shutil, sys
sid, status = sys.argv[1], sys.argv[2]
detail = " ".join(sys.argv[3:])
name = sid  # e.g. C07 or C07b
prop = sid[:3]
src = "/tmp/seeds/%s" % sid
dst = "/verif/seeded/%s" % sid
os.makedirs(dst, exist_ok=True)
for f in ("patch.diff", "demo.diff"):
    shutil.copy(os.path.join(src, f), os.path.join(dst, f))
m = json.load(open(os.path.join(src, "meta.json")))
c = json.load(open(os.path.join(src, "confirm.json")))
meta = {
    "property": prop,
    "summary": m.get("summary"),
    "needs_to_manifest": m.get("needs"),
    "files": m.get("files"),
    "demonstration": {"add_with": "git apply demo.diff", "cmd": m.get("demo_cmd")},
    "origin": "written by an independent sub-agent that saw only the property text and a scratch worktree of /repo (nothing from /verif)",
    "confirmed_by_me": {
        "how": "tools/confirm_seed.sh %s in a scratch worktree at /repo's HEAD: (1) patch only -> cargo test --workspace --no-fail-fast --offline; (2) patch + demo -> demo cmd; (3) demo only -> demo cmd" % sid,
        "existing_tests_with_patch": c["tests_with_patch"],
        "demo_with_patch_exit": c["demo_with_patch_exit"],
        "demo_without_patch_exit": c["demo_without_patch_exit"],
        "ok": c["ok"],
    },
    "static_check": {"status": status, "detail": detail,
                     "how": "git -C /repo apply /verif/seeded/%s/patch.diff && ./check %s ; git -C /repo checkout -- ." % (sid, prop)},
}
json.dump(meta, open(os.path.join(dst, "meta.json"), "w"), indent=1)
print("stored", dst, "confirmed ok" if c["ok"] else "NOT CONFIRMED")
