#!/bin/bash
# refscratch.sh <R-id>: scratch copy of /repo with the refactoring applied, kept at /tmp/rs_<id> (remove it when done)
id=$1; patch=/verif/refactorings/$id/patch.diff
[ -f "$patch" ] || patch=/tmp/seeds/$id/patch.diff
d=/tmp/rs_$id; rm -rf $d; mkdir -p $d
rsync -a --exclude target --exclude .git --exclude doc --exclude test/artificial_samples /repo/ $d/
(cd $d && git init -q . 2>/dev/null; git -C $d apply --whitespace=nowarn $patch) || { echo "patch does not apply"; exit 2; }
echo $d
