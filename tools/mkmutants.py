#!/usr/bin/env python3
"""Writes /verif/mutants/<prop>/<name>.json from the table below. Each mutant is one textual
edit of the repository that compiles and breaks exactly one rule instance."""
import json, os, sys
V = os.path.dirname(os.path.dirname(os.path.abspath(__file__)))
L = "src/cwe_checker_lib/src/"
M = []
def mut(prop, name, file, find, replace, expect, desc):
    M.append((prop, name, {"file": file, "find": find, "replace": replace, "expect": expect, "desc": desc}))

# ---------------- C01
BV = L + "intermediate_representation/bitvector.rs"
mut("C01", "slessult", BV, "IntSLess => Ok(Bitvector::from(self.checked_slt(rhs).unwrap() as u8)),", "IntSLess => Ok(Bitvector::from(self.checked_ult(rhs).unwrap() as u8)),", ["R5|IntSLess|primitive"], "signed less computed with the unsigned primitive")
mut("C01", "sub_swapped", BV, "IntSub => Ok(self - rhs),", "IntSub => Ok(rhs - self),", ["R5|IntSub|primitive"], "operands of INT_SUB swapped")
mut("C01", "rem_unwrap", BV, "Ok(self.clone().into_checked_urem(rhs)?)", "Ok(self.clone().into_checked_urem(rhs).unwrap())", ["R2|div-error-propagated|IntRem"], "division by zero panics instead of Err")
mut("C01", "mult_guard_dropped", BV, """                if self.width().to_usize() > 64 {
                    Err(anyhow!("Multiplication and division of integers larger than 8 bytes not yet implemented."))
                } else {
                    Ok(self * rhs)
                }""", "                Ok(self * rhs)", ["R2|wide-guard|IntMult"], "64-bit guard of INT_MULT removed")
mut("C01", "scarry_sign", BV, "if (result.is_negative() && signed_self.is_positive() && signed_rhs.is_positive())\n                    || (!result.is_negative()", "if (result.is_negative() && signed_self.is_positive() && signed_rhs.is_negative())\n                    || (!result.is_negative()", ["R4|IntSCarry"], "signed carry condition tests the wrong sign")
mut("C01", "sborrow_regress", BV, "if (result.is_negative() && signed_self.is_positive() && signed_rhs.is_negative())\n                    || (result.is_positive()", "if (result.is_negative() && !signed_self.is_positive() && signed_rhs.is_negative())\n                    || (result.is_positive()", ["R4|IntSBorrow"], "the repaired defect F1 comes back")
M.append(("C01", "bytesize_cmp_lhs", {"edits": [
    {"file": L + "intermediate_representation/expression.rs", "find": "IntEqual | IntNotEqual | IntLess | IntSLess | IntLessEqual | IntSLessEqual\n                | IntCarry", "replace": "IntEqual | IntNotEqual | IntSLess | IntLessEqual | IntSLessEqual\n                | IntCarry"},
    {"file": L + "intermediate_representation/expression.rs", "find": "IntAdd | IntSub | IntAnd | IntOr | IntXOr | IntLeft | IntRight | IntSRight\n                | IntMult", "replace": "IntAdd | IntSub | IntAnd | IntOr | IntXOr | IntLeft | IntRight | IntSRight | IntLess\n                | IntMult"}],
    "expect": ["R1|Expression::bytesize|IntLess"], "desc": "Expression::bytesize classes INT_LESS as lhs-sized"}))
mut("C01", "domain_top_width", L + "abstract_domain/bitvector.rs", "            _ => BitvectorDomain::new_top(self.bin_op_bytesize(op, rhs)),\n        }\n    }", "            _ => BitvectorDomain::new_top(self.bytesize()),\n        }\n    }", ["R3|bin_op|top-width"], "Top result of a comparison gets the operand width")
mut("C01", "sright_fill", BV, """                    if signed_bitvec.is_negative() {
                        let minus_one""", """                    if signed_bitvec.is_positive() {
                        let minus_one""", ["R5|IntSRight|saturation-fill"], "arithmetic shift saturates with the wrong sign fill")
mut("C01", "piece_order", BV, """                let upper_bits = self
                    .clone()
                    .into_zero_extend(new_bitwidth)
                    .unwrap()
                    .into_checked_shl(rhs.width().to_usize())
                    .unwrap();
                let lower_bits = rhs.clone().into_zero_extend(new_bitwidth).unwrap();""", """                let upper_bits = rhs
                    .clone()
                    .into_zero_extend(new_bitwidth)
                    .unwrap()
                    .into_checked_shl(self.width().to_usize())
                    .unwrap();
                let lower_bits = self.clone().into_zero_extend(new_bitwidth).unwrap();""", ["R5|Piece"], "PIECE puts rhs in the most significant part")
mut("C01", "neg_delegates_negate", L + "abstract_domain/bitvector.rs", "self.un_op(UnOpType::Int2Comp)", "self.un_op(UnOpType::IntNegate)", ["R6|BitvectorDomain|neg"], "Neg delegates to bitwise not")
mut("C01", "zext_sext", BV, "CastOpType::IntZExt => Ok(self.clone().into_zero_extend(width).unwrap()),", "CastOpType::IntZExt => Ok(self.clone().into_sign_extend(width).unwrap()),", ["R5|Cast|IntZExt"], "zero extension sign-extends")
mut("C01", "float_value", BV, """            FloatAdd | FloatSub | FloatMult | FloatDiv => {
                // TODO: Implement floating point arithmetic operators!
                Err(anyhow!("Float operations not yet implemented"))""", """            FloatAdd | FloatSub | FloatMult | FloatDiv => {
                // TODO: Implement floating point arithmetic operators!
                Ok(self + rhs)""", ["R2|unsupported-is-Err|BinOp|FloatAdd"], "float add folded as integer add")

# ---------------- C19
RMI = L + "intermediate_representation/runtime_memory_image.rs"
mut("C19", "writeable_le", RMI, """    pub fn is_address_writeable(&self, address: &Bitvector) -> Result<bool, Error> {
        let address = address.try_to_u64().unwrap();
        for segment in self.memory_segments.iter() {
            if address >= segment.base_address
                && address < segment.base_address""", """    pub fn is_address_writeable(&self, address: &Bitvector) -> Result<bool, Error> {
        let address = address.try_to_u64().unwrap();
        for segment in self.memory_segments.iter() {
            if address >= segment.base_address
                && address <= segment.base_address""", ["R1|", "is_address_writeable"], "inclusive end in is_address_writeable")
mut("C19", "writeable_readflag", RMI, """                && address < segment.base_address + segment.bytes.len() as u64
            {
                return Ok(segment.write_flag);""", """                && address < segment.base_address + segment.bytes.len() as u64
            {
                return Ok(segment.read_flag);""", ["R2|is_address_writeable"], "writeable query returns the read flag")
mut("C19", "endian_negated", RMI, "if self.is_little_endian {\n                    bytes = bytes.into_iter().rev().collect();", "if !self.is_little_endian {\n                    bytes = bytes.into_iter().rev().collect();", ["R3|read|reverse"], "byte order test negated")
mut("C19", "piece_swapped", RMI, "bitvector = bitvector.bin_op(BinOpType::Piece, &new_byte)?;", "bitvector = new_byte.bin_op(BinOpType::Piece, &bitvector)?;", ["R3|read|piece"], "bytes accumulated least significant first")
mut("C19", "read_flag_negated", RMI, "                if segment.write_flag {\n                    // The segment is writeable, thus we do not know the content at runtime.\n                    return Ok(None);", "                if !segment.write_flag {\n                    // The segment is writeable, thus we do not know the content at runtime.\n                    return Ok(None);", ["R2|read|writable"], "read returns unknown for read-only segments")
mut("C19", "string_regress", RMI, "            if address >= segment.base_address\n                && address < segment.base_address + segment.bytes.len() as u64\n            {\n                let start_index", "            if address >= segment.base_address\n                && address <= segment.base_address + segment.bytes.len() as u64\n            {\n                let start_index", ["R1|", "read_string_until_null_terminator"], "the repaired defect F3 comes back")
mut("C19", "ctor_flags_swapped", L + "utils/binary.rs", "            read_flag: program_header.is_read(),\n            write_flag: program_header.is_write(),", "            read_flag: program_header.is_write(),\n            write_flag: program_header.is_read(),", ["R4|from_elf_segment"], "ELF segment flags swapped")
mut("C19", "pe_mask_polarity", L + "utils/binary.rs", "write_flag: (section_header.characteristics & 0x80000000) != 0,", "write_flag: (section_header.characteristics & 0x80000000) == 0,", ["R4|from_pe_section|write_flag"], "PE write flag polarity inverted")
mut("C19", "ro_ptr_one_sided", RMI, """        let address = address.try_to_u64().unwrap();
        for segment in self.memory_segments.iter() {
            if address >= segment.base_address
                && address < segment.base_address + segment.bytes.len() as u64
            {
                if segment.write_flag {
                    return Err(anyhow!("Target segment is writeable"));""", """        let address = address.try_to_u64().unwrap();
        for segment in self.memory_segments.iter() {
            if address >= segment.base_address
            {
                if segment.write_flag {
                    return Err(anyhow!("Target segment is writeable"));""", ["R1|", "get_ro_data_pointer_at_address"], "upper bound dropped")

# ---------------- C20
ARG = L + "utils/arguments.rs"
IRM = L + "intermediate_representation/mod.rs"
mut("C20", "regex_extra_spec", ARG, "([cCdiouxXeEfFgGaAnpsS]|hi", "([cCdiouxXeEfFgGaAnpsSZ]|hi", ["R1|group1->from|Z"], "specifier added to the regex only")
mut("C20", "regex_l_before_ld", ARG, "|hi|hd|hu|li|ld|lu|lli", "|hi|hd|hu|l|li|ld|lu|lli", ["R2|alternation"], "short form listed before its extensions")
mut("C20", "longlong_accepted", ARG, "Datatype::Long | Datatype::LongLong | Datatype::LongDouble", "Datatype::Long | Datatype::LongDouble", ["R2|rejected|LongLong"], "long long no longer rejected")
mut("C20", "escape_regress", ARG, 'Regex::new(r"%%|%[+', 'Regex::new(r"%[+', ["R3|escape"], "the repaired defect F5 comes back")
mut("C20", "from_table_drops_hu", IRM, '| "hi" | "hd" | "hu" => Datatype::Integer,', '| "hi" | "hd" => Datatype::Integer,', ["R1|group1->from|hu"], "reader table loses an entry that the regex still captures")
mut("C20", "char_not_promoted", ARG, "datatype_properties.get_size_from_data_type(Datatype::Integer)", "datatype_properties.get_size_from_data_type(Datatype::Char)", ["R4|char"], "char no longer promoted")
mut("C20", "regex_drops_lf", ARG, '|llu|lf|lg|le|la|lF|lG|lE|lA|Lf|Lg|Le|La|LF|LG|LE|LA)")', '|llu|lg|le|la|lF|lG|lE|lA|Lf|Lg|Le|La|LF|LG|LE|LA)")', ["from->group1|lf"], "regex loses a length form the table knows")
mut("C20", "flag_class_eats_digit_conv", ARG, r"%%|%[+\-#0]{0,1}\d*[\.]?\d*(", r"%%|%[+\-#0]{0,1}\d*[\.]?(", ["R5|token"], "precision digits no longer accepted")

# ---------------- C10
EP = L + "analysis/expression_propagation/mod.rs"
DV = L + "analysis/dead_variable_elimination/mod.rs"
AV = L + "analysis/dead_variable_elimination/alive_vars_computation.rs"
PCF = L + "intermediate_representation/project/propagate_control_flow.rs"
mut("C10", "dead_load_removed", DV, "Def::Assign { var, .. } if !alive_vars.contains(var) => (), // Dead Assignment", "Def::Assign { var, .. } | Def::Load { var, .. } if !alive_vars.contains(var) => (), // Dead Assignment", ["R2|keep|Load|dead"], "dead loads are removed")
mut("C10", "store_value_not_alive", AV, """            for input_var in value.input_vars() {
                alive_variables.insert(input_var.clone());
            }
        }
    }
}""", """        }
    }
}""", ["R1|update_alive_vars_by_def|Def::Store.value"], "stored value not made alive")
mut("C10", "load_key_regress", EP, "insertable_expressions.retain(|input_var, input_expr| {\n                    input_var != var && !input_expr.input_vars().into_iter().any(|x| x == var)\n                });\n                Some(insertable_expressions)", "insertable_expressions.retain(|_input_var, input_expr| {\n                    !input_expr.input_vars().into_iter().any(|x| x == var)\n                });\n                Some(insertable_expressions)", ["R3|Context::update_def|Load|key-kill"], "the repaired defect F2 comes back")
mut("C10", "callind_target_not_alive", AV, """        let mut alive_variables = self.all_physical_registers.clone();
        if let Jmp::CallInd { target, .. } = &call.term {
            for input_var in target.input_vars() {
                alive_variables.insert(input_var.clone());
            }
        }
        Some(alive_variables)
    }

    /// Interprocedural edge that is ignored by the fixpoint computation.""", """        let alive_variables = self.all_physical_registers.clone();
        let _ = call;
        Some(alive_variables)
    }

    /// Interprocedural edge that is ignored by the fixpoint computation.""", ["R1|update_callsite|Jmp::CallInd.target"], "indirect call target not alive at call sites")
mut("C10", "untaken_cond_not_alive", AV, """        if let Some(Term {
            tid: _,
            term: Jmp::CBranch { condition, .. },
        }) = untaken_conditional
        {
            for input_var in condition.input_vars() {
                alive_variables.insert(input_var.clone());
            }
        }""", """        let _ = untaken_conditional;""", ["R1|update_jumpsite|Jmp::CBranch.condition|via untaken_conditional"], "condition of the untaken conditional not alive")
mut("C10", "local_value_kill_dropped", EP, """                // expressions dependent on the assigned variable are no longer insertable
                insertable_expressions.retain(|input_var, input_expr| {
                    input_var != var && !input_expr.input_vars().into_iter().any(|x| x == var)
                });
                // If the value""", """                // expressions dependent on the assigned variable are no longer insertable
                insertable_expressions.retain(|input_var, _input_expr| {
                    input_var != var
                });
                // If the value""", ["R3|propagate_input_expressions|Assign|value-kill"], "entries mentioning the assigned variable survive")
mut("C10", "call_return_uses_conditions", PCF, """                    // knowledge about any condition we know to be true
                    // after execution of all DEFs in a block.
                    &Vec::with_capacity(0),""", """                    // knowledge about any condition we know to be true
                    // after execution of all DEFs in a block.
                    &true_conditions,""", ["R4|call-return-retarget"], "call returns retargeted with known conditions")
M.append(("C10", "precondition_ignores_load", {"edits": [
    {"file": PCF, "find": "Def::Assign { var, .. } | Def::Load { var, .. } => {\n                if input_vars.contains(&var) {", "replace": "Def::Assign { var, .. } => {\n                if input_vars.contains(&var) {"},
    {"file": PCF, "find": "                    return None;\n                }\n            }\n            Def::Store { .. } => (),", "replace": "                    return None;\n                }\n            }\n            Def::Store { .. } | Def::Load { .. } => (),"}],
    "expect": ["R4|precondition-invalidated-by|Load"], "desc": "a load into a condition input keeps the precondition"}))
mut("C10", "else_edge_not_negated", PCF, ") => negate_condition(condition.clone()),\n            _ => return None,", ") => condition.clone(),\n            _ => return None,", ["R4|incoming-edge-polarity|else-edge"], "else edge yields the un-negated condition")
mut("C10", "bypass_nonempty", PCF, "    if !block.term.defs.is_empty() {\n        return None;\n    }\n\n    match &block.term.jmps[..] {", "    match &block.term.jmps[..] {", ["R4|bypass-only-empty-blocks"], "blocks with defs are bypassed")
mut("C10", "call_stub_keeps_map", EP, """        _call: &Term<Jmp>,
    ) -> Option<Self::Value> {
        Some(HashMap::new())
    }""", """        _call: &Term<Jmp>,
    ) -> Option<Self::Value> {
        Some(_value_before_call.clone())
    }""", ["R3|update_call_stub|resets-map"], "expressions propagated across extern calls")
mut("C10", "kill_after_gen", AV, """            if alive_variables.contains(var) {
                alive_variables.remove(var);
                for input_var in value.input_vars() {
                    alive_variables.insert(input_var.clone());
                }""", """            if alive_variables.contains(var) {
                for input_var in value.input_vars() {
                    alive_variables.insert(input_var.clone());
                }
                alive_variables.remove(var);""", ["R1|update_alive_vars_by_def|Assign|kill-before-gen"], "x = f(x) leaves x dead")
mut("C10", "not_reversed", DV, "for def in block.term.defs.iter().rev() {", "for def in block.term.defs.iter() {", ["R2|iterates-backwards"], "liveness walked forwards")

# ---------------- C17
GU = L + "utils/graph_utils.rs"
C243 = L + "checkers/cwe_243.rs"
C367 = L + "checkers/cwe_367.rs"
mut("C17", "follow_call_edges", GU, """                | Edge::ExternCallStub(_) => {
                    if !visited_nodes.contains(&edge.target()) {
                        visited_nodes.insert(edge.target());
                        worklist.push(edge.target())
                    }
                }
                Edge::Call(_) | Edge::CrReturnStub => (),""", """                | Edge::Call(_)
                | Edge::ExternCallStub(_) => {
                    if !visited_nodes.contains(&edge.target()) {
                        visited_nodes.insert(edge.target());
                        worklist.push(edge.target())
                    }
                }
                Edge::CrReturnStub => (),""", ["R1|edge|Call"], "search follows calls into callees")
mut("C17", "source_not_stopping", GU, """                    } else if target == source_symbol {
                        // Do not search past another source call,
                        // since subsequent sink calls probably belong to the new source.
                        continue;
                    }""", """                    }""", ["R2|source-call-stops-search"], "does not stop at another source call")
M.append(("C17", "skip_jump_edges", {"edits": [
    {"file": GU, "find": "                | Edge::Jump(_, _)\n                | Edge::ExternCallStub(_) => {", "replace": "                | Edge::ExternCallStub(_) => {"},
    {"file": GU, "find": "Edge::Call(_) | Edge::CrReturnStub => (),", "replace": "Edge::Call(_) | Edge::Jump(_, _) | Edge::CrReturnStub => (),"}],
    "expect": ["R1|edge|Jump"], "desc": "jump edges not followed"}))
mut("C17", "unwrap_regress", C243, """                    let is_chdir_reachable = match graph.neighbors(node).next() {
                        Some(chroot_return_to_node) => is_sink_call_reachable_from_source_call(
                            graph,
                            chroot_return_to_node,
                            &chroot_tid,
                            &chdir_tid,
                        )
                        .is_some(),
                        // The chroot call does not return, so no chdir call can follow it.
                        None => false,
                    };""", """                    let chroot_return_to_node = graph.neighbors(node).next().unwrap();
                    let is_chdir_reachable = is_sink_call_reachable_from_source_call(
                            graph,
                            chroot_return_to_node,
                            &chroot_tid,
                            &chdir_tid,
                        )
                        .is_some();""", ["R4|cwe_243::check_cwe|unwrap|first-neighbour-of-BlkEnd"], "the repaired defect F4 comes back")
mut("C17", "cwe243_and_or", C243, """                    if !is_chdir_reachable {
                        // If chdir is not called after chroot, it has to be called before it.
                        // Additionally priviledges must be dropped to secure the chroot jail in this case.
                        if !sub_calls_chdir_and_priviledge_dropping_func(""", """                    if !is_chdir_reachable {
                        // If chdir is not called after chroot, it has to be called before it.
                        // Additionally priviledges must be dropped to secure the chroot jail in this case.
                        if sub_calls_chdir_and_priviledge_dropping_func(""", ["R3|cwe243|decision-table"], "privilege-drop test inverted")
mut("C17", "cwe367_start_at_source_node", C367, """                            if let Some(sink_callsite) = is_sink_call_reachable_from_source_call(
                                graph,
                                edge.target(),""", """                            if let Some(sink_callsite) = is_sink_call_reachable_from_source_call(
                                graph,
                                edge.source(),""", ["R3|cwe367|search-starts-after-source-call"], "search starts before the check call")
mut("C17", "cwe367_pair_swapped", C367, """            symbol_map.get(source.as_str()),
            symbol_map.get(sink.as_str()),""", """            symbol_map.get(sink.as_str()),
            symbol_map.get(source.as_str()),""", ["R3|cwe367|pair-order"], "check/use roles swapped")
mut("C17", "visited_guard_dropped", GU, """                    if !visited_nodes.contains(&edge.target()) {
                        visited_nodes.insert(edge.target());
                        worklist.push(edge.target())
                    }""", """                    visited_nodes.insert(edge.target());
                    worklist.push(edge.target())""", ["R2|push-guarded-by-visited"], "worklist push not guarded by the visited set")

# ---------------- C22
MAIN = "src/caller/src/main.rs"
LIB = L + "lib.rs"
mut("C22", "module_dropped", LIB, "        &crate::checkers::cwe_782::CWE_MODULE,\n", "", ["R1|registered-once|checkers::cwe_782::CWE_MODULE"], "a check is missing from the registry")
mut("C22", "default_filters_other", MAIN, 'modules.retain(|module| module.name != "CWE78");', 'modules.retain(|module| module.name != "CWE782");', ["R2|default-predicate"], "default run removes the wrong check")
mut("C22", "partial_starts_with", MAIN, "modules.iter().find(|module| module.name == module_name)", "modules.iter().find(|module| module.name.starts_with(module_name))", ["R3|name-equality"], "partial filter matches by prefix")
mut("C22", "lkm_before_partial", MAIN, """    if let Some(ref partial_module_list) = args.partial {
        filter_modules_for_partial_run(&mut modules, partial_module_list);
    } else if project.runtime_memory_image.is_lkm {
        modules.retain(|module| cwe_checker_lib::checkers::MODULES_LKM.contains(&module.name));
    } else {""", """    if project.runtime_memory_image.is_lkm {
        modules.retain(|module| cwe_checker_lib::checkers::MODULES_LKM.contains(&module.name));
    } else if let Some(ref partial_module_list) = args.partial {
        filter_modules_for_partial_run(&mut modules, partial_module_list);
    } else {""", ["R2|chain|partial-overrides-lkm"], "kernel-module selection overrides --partial")
mut("C22", "default_also_on_partial", MAIN, """    // Get the configuration file.
    let config: serde_json::Value""", """    modules.retain(|module| module.name != "CWE78");
    // Get the configuration file.
    let config: serde_json::Value""", ["R2|chain|partial-first"], "CWE78 removed even when requested with --partial")
mut("C22", "wrong_config_key", MAIN, "(module.run)(&analysis_results, &config[&module.name]);", "(module.run)(&analysis_results, &config[\"CWE676\"]);", ["R2|run-loop|runs-module-with-its-config"], "modules run with another module's configuration")
mut("C22", "duplicate_name", L + "checkers/cwe_782.rs", 'name: "CWE782",', 'name: "CWE78",', ["R1|name-unique"], "two checks share a name")
mut("C22", "versions_after_filter", MAIN, """    let mut modules = cwe_checker_lib::get_modules();
    if args.module_versions {""", """    let mut modules = cwe_checker_lib::get_modules();
    modules.retain(|module| module.name != "CWE78");
    if args.module_versions {""", ["module-versions|before-filter"], "module listing after a filter")

# ---------------- C21
M.append(("C21", "config_field_renamed", {"edits": [
    {"file": L + "checkers/cwe_676.rs", "find": "pub struct Config {\n    symbols: Vec<String>,", "replace": "pub struct Config {\n    symbol_list: Vec<String>,"},
    {"file": L + "checkers/cwe_676.rs", "find": "&config.symbols)", "replace": "&config.symbol_list)"}],
    "expect": ["R1|config.json|CWE676"], "desc": "configuration field renamed in the struct only"}))
mut("C21", "pi_table_drops_cwe190", MAIN, '"CWE119", "CWE134", "CWE190", "CWE252"', '"CWE119", "CWE134", "CWE252"', ["R2|CWE190|needs"], "a check needing pointer inference is not in the table")
mut("C21", "sort_removed", MAIN, "    all_cwes.sort();\n", "", ["R3|sorted-before-print"], "final sort removed")
mut("C21", "foreign_module_name", L + "checkers/cwe_782.rs", "String::from(CWE_MODULE.name),", "String::from(crate::checkers::cwe_676::CWE_MODULE.name),", ["R4|checkers::cwe_782"], "warning carries another check's name")
mut("C21", "quiet_keeps_logs", MAIN, "all_logs = Vec::new(); // Suppress all log messages since the `--quiet` flag is set.", "let _ = &all_logs;", ["R3|quiet-empties-logs"], "--quiet no longer discards logs")
mut("C21", "json_truncated", L + "utils/log.rs", "serde_json::to_string_pretty(&cwes).unwrap()", "serde_json::to_string_pretty(&cwes[..cwes.len().min(100)]).unwrap()", ["R3|json-serialises-whole-vector"], "JSON output truncated")
mut("C21", "sort_after_print_cond", MAIN, "    all_cwes.sort();\n", "    if !args.json {\n        all_cwes.sort();\n    }\n", ["R3|sorted-before-print"], "sorting only for text output")

# ---------------- C25
LOG = L + "utils/log.rs"
mut("C25", "try_recv", LOG, "while let Ok(log_thread_msg) = receiver.recv() {", "while let Ok(log_thread_msg) = receiver.try_recv() {", ["R2|blocking-recv"], "non-blocking receive loses pending messages")
mut("C25", "join_before_terminate", LOG, """        let _ = self.msg_sender.send(LogThreadMsg::Terminate);
        if let Some(handle) = self.thread_handle.take() {
            handle.join().unwrap()
        } else {
            (Vec::new(), Vec::new())
        }""", """        if let Some(handle) = self.thread_handle.take() {
            let res = handle.join().unwrap();
            let _ = self.msg_sender.send(LogThreadMsg::Terminate);
            res
        } else {
            (Vec::new(), Vec::new())
        }""", ["R1|collect|terminate-before-join"], "join before Terminate")
mut("C25", "first_wins", LOG, "collected_cwes.insert(address.clone(), cwe_warning);", "collected_cwes.entry(address.clone()).or_insert(cwe_warning);", ["R3|cwe|last-wins"], "first warning per address wins")
mut("C25", "general_logs_sorted", LOG, """        let logs = logs_with_address
            .values()""", """        general_logs.sort();
        let logs = logs_with_address
            .values()""", ["R3|containers-not-reordered"], "address-less logs sorted")
mut("C25", "bounded_channel", LOG, "let (sender, receiver) = crossbeam_channel::unbounded();\n        let thread_handle", "let (sender, receiver) = crossbeam_channel::bounded(1024);\n        let thread_handle", ["R1|spawn|unbounded-channel"], "bounded log channel")
mut("C25", "general_logs_dropped", LOG, """            .values()
            .cloned()
            .chain(general_logs)
            .collect();""", """            .values()
            .cloned()
            .collect();""", ["R3|all-containers-returned"], "address-less logs never returned")
mut("C25", "log_insert_located_first_wins", LOG, "logs_with_address.insert(tid.address.clone(), log_message);", "logs_with_address.entry(tid.address.clone()).or_insert(log_message);", ["R3|log|located-last-wins"], "first located log per address wins")
mut("C25", "break_on_empty_address", LOG, '[] => panic!("Unexpected CWE warning without origin address"),', "[] => break,", ["R2|exits-only"], "collector stops at a malformed warning")
mut("C25", "cwe476_drain_early", L + "checkers/cwe_476.rs", """    for edge in general_context.get_graph().edge_references() {
        let Edge::ExternCallStub(jmp) = edge.weight() else {""", """    let early: Vec<CweWarning> = cwe_receiver.try_iter().collect();
    drop(early);
    for edge in general_context.get_graph().edge_references() {
        let Edge::ExternCallStub(jmp) = edge.weight() else {""", ["R4|cwe476|drain-after"], "private channel drained before the computations")

# ---------------- C07
FP = L + "analysis/fixpoint.rs"
mut("C07", "merge_compares_new", FP, "if merged_value != *old_value {", "if merged_value != value {", ["R3|merge_node_value|changed-value-stored"], "merge result compared with the incoming instead of the old value")
mut("C07", "non_stabilized_forgotten", FP, """            } else {
                non_stabilized_nodes.insert(priority);
            }""", """            }""", ["R3|compute_with_max_steps"], "nodes cut off by the step bound are forgotten")
mut("C07", "set_value_no_enqueue", FP, """        self.node_values.insert(node, value);
        self.worklist.insert(self.node_priority_list[node.index()]);""", """        self.node_values.insert(node, value);""", ["R2|set_node_value|insert"], "set_node_value does not enqueue")
mut("C07", "worklist_not_restored", FP, "        self.worklist = non_stabilized_nodes;\n", "        let _ = non_stabilized_nodes;\n", ["R3|compute_with_max_steps|worklist-restored"], "worklist not restored after the bounded run")
mut("C07", "step_le", FP, "if steps[node.index()] < max_steps {", "if steps[node.index()] <= max_steps {", ["R4|step-test|steps-lt-max"], "off-by-one in the step bound")
mut("C07", "values_mut_no_enqueue", FP, """        for node in self.node_values.keys() {
            let priority = self.node_priority_list[node.index()];
            self.worklist.insert(priority);
        }
        self.node_values.values_mut()""", """        self.node_values.values_mut()""", ["R2|node_values_mut"], "mutable access without enqueue")
mut("C07", "update_node_skips_first", FP, """            .edges(node)
            .map(|edge_ref| edge_ref.id())""", """            .edges(node)
            .skip(1)
            .map(|edge_ref| edge_ref.id())""", ["R3|update_node"], "one outgoing edge never updated")
mut("C07", "merge_into_start", FP, "self.merge_node_value(end_node, new_end_val);", "self.merge_node_value(start_node, new_end_val);", ["R3|update_edge"], "transfer result merged into the wrong node")
mut("C07", "stabilized_always", FP, """    pub fn has_stabilized(&self) -> bool {
        self.worklist.is_empty()""", """    pub fn has_stabilized(&self) -> bool {
        self.worklist.len() <= 1""", ["R4|has_stabilized"], "stabilized reported with a pending node")
mut("C07", "enqueue_wrong_node", FP, "self.worklist.insert(self.node_priority_list[node.index()]);", "self.worklist.insert(node.index());", ["R2|set_node_value|insert"], "node index used instead of its priority")
mut("C07", "bottom_up_drops_nodes", L + "analysis/forward_interprocedural_fixpoint.rs", """    graph.retain_edges(|frozen, edge| !matches!(frozen[edge], Edge::Call(..)));
    petgraph::algo::kosaraju_scc(&graph)
        .into_iter()
        .flatten()""", """    graph.retain_edges(|frozen, edge| !matches!(frozen[edge], Edge::Call(..)));
    petgraph::algo::kosaraju_scc(&graph)
        .into_iter()
        .filter(|scc| scc.len() < 100)
        .flatten()""", ["R5|create_bottom_up_worklist"], "priority list misses nodes")
# order-only edits must stay silent: next() instead of next_back()
mut("C07", "SILENT_take_smallest_first", FP, "if let Some(priority) = self.worklist.iter().next_back().cloned() {", "if let Some(priority) = self.worklist.iter().next().cloned() {", [], "processing order changed (must NOT be reported)")

# ---------------- C05
MR = L + "abstract_domain/mem_region.rs"
mut("C05", "insert_without_top_guard", MR, """        self.clear_interval(position, size_in_bytes);
        if !value.is_top() {
            // top()-values do not need to be explicitly saved, as they don't contain any information anyway.
            Arc::make_mut(&mut self.inner)
                .values
                .insert(position, value);
        }""", """        self.clear_interval(position, size_in_bytes);
        Arc::make_mut(&mut self.inner)
            .values
            .insert(position, value);""", ["R2|insert_at_byte_index"], "Top values stored")
mut("C05", "insert_without_clear", MR, """        self.clear_interval(position, size_in_bytes);
        if !value.is_top() {""", """        if !value.is_top() {""", ["R3|insert_at_byte_index"], "overlapping cells not removed before a write")
mut("C05", "clear_wrong_size", MR, "        self.clear_interval(position, size_in_bytes);\n        if !value.is_top() {", "        self.clear_interval(position, 1);\n        if !value.is_top() {", ["R3|insert_at_byte_index"], "only the first byte is cleared before a write")
mut("C05", "merge_write_top_keeps_top", MR, """                if merged_value.is_top() {
                    inner.values.remove(&position);
                } else {
                    inner.values.insert(position, merged_value);
                }
                return;""", """                inner.values.insert(position, merged_value);
                return;""", ["R2|merge_write_top"], "merge_write_top stores Top")
mut("C05", "merge_inner_no_prev_guard", MR, "            if *index >= merged_range_end {\n                // The element does not overlap a previous element", "            if *index >= merged_range_end || true {\n                // The element does not overlap a previous element", ["R3|merge_inner"], "merge keeps cells overlapping a previous cell")
mut("C05", "mark_all_no_cleanup", MR, """            *value = value.merge(&value.top());
        }
        self.clear_top_values();""", """            *value = value.merge(&value.top());
        }""", ["R2|mark_all_values_as_top"], "Top values left after marking all values")
mut("C05", "caller_no_cleanup", L + "analysis/pointer_inference/object/id_manipulation.rs", """            elem.replace_all_ids(replacement_map);
        }
        inner.memory.clear_top_values();""", """            elem.replace_all_ids(replacement_map);
        }""", ["R4|", "replace_ids"], "values_mut caller without cleanup")
mut("C05", "helper_returns_top", MR, """            let merged = elem.merge(&T::new_top(elem.bytesize()));
            if !merged.is_top() {
                Some(merged)
            } else {
                None
            }""", """            let merged = elem.merge(&T::new_top(elem.bytesize()));
            Some(merged)""", ["R2|merge_or_merge_with_top"], "merge helper returns Top cells")
mut("C05", "inner_public", MR, "    inner: Arc<Inner<T>>,\n}", "    pub inner: Arc<Inner<T>>,\n}", ["R1|private|MemRegion.inner"], "cell store made public")
mut("C05", "range_end_only_when_kept", MR, """            merged_range_end = std::cmp::max(merged_range_end, elem_range_end);
        }

        Inner {""", """        }

        Inner {""", ["R3|merge_inner|range-end"], "range end not advanced")

# ---------------- C09
PRJ = L + "intermediate_representation/project.rs"
BDN = L + "intermediate_representation/project/block_duplication_normalization.rs"
M.append(("C09", "callother_not_suffixed", {"edits": [
    {"file": BDN, "find": """                        Jmp::BranchInd(_) | Jmp::Return(_) => (),
                        Jmp::Branch(target) | Jmp::CBranch { target, .. } => {
                            if tid_to_original_sub_map""", "replace": """                        Jmp::BranchInd(_) | Jmp::Return(_) | Jmp::CallOther { .. } => (),
                        Jmp::Branch(target) | Jmp::CBranch { target, .. } => {
                            if tid_to_original_sub_map"""},
    {"file": BDN, "find": """                        Jmp::Call { return_, .. }
                        | Jmp::CallInd { return_, .. }
                        | Jmp::CallOther { return_, .. } => {
                            if let Some(target) = return_ {""", "replace": """                        Jmp::Call { return_, .. }
                        | Jmp::CallInd { return_, .. } => {
                            if let Some(target) = return_ {"""}],
    "expect": ["R1|append_jump_targets", "CallOther.return_"], "desc": "CallOther return target not renamed after duplication"}))
mut("C09", "dup_before_repair", PRJ, """        logs.append(self.remove_references_to_nonexisting_tids().as_mut());
        make_block_to_sub_mapping_unique(self);""", """        make_block_to_sub_mapping_unique(self);
        logs.append(self.remove_references_to_nonexisting_tids().as_mut());""", ["R3|order|remove_references"], "block duplication before dangling references are repaired")
mut("C09", "clone_keeps_def_tids", BDN, """        for def in cloned_block.term.defs.iter_mut() {
            def.tid = def.tid.clone().with_id_suffix(suffix);
        }
""", "", ["R2|clone_with_tid_suffix|Def"], "cloned blocks keep def tids")
M.append(("C09", "callind_return_not_checked", {"edits": [
    {"file": PRJ, "find": """            | CallInd {
                return_: Some(return_tid),
                ..
            }
            | CallOther {""", "replace": """            | CallOther {"""}],
    "expect": ["R1|retarget_nonexisting", "CallInd.return_"], "desc": "dangling return target of indirect calls not repaired"}))
mut("C09", "jmp_tids_not_deduped", PRJ, """                for jmp in &block.term.jmps {
                    if known_tids.insert(jmp.tid.clone()) {
                        filtered_jmps.push(jmp.clone());
                    } else {
                        errors.push(LogMessage::new_error(&format!(
                            "Removed duplicate of TID {}. This is a Bug in the cwe_checker!",
                            jmp.tid
                        )));
                    }
                }""", """                for jmp in &block.term.jmps {
                    filtered_jmps.push(jmp.clone());
                }""", ["R2|remove_duplicate_tids|level|Jmp"], "duplicate jump ids not detected")
mut("C09", "wrong_sink_suffix", PRJ, """                        if extern_symbol.no_return {
                            // Reroute returns from calls to non-returning
                            // library functions.
                            *return_tid = Tid::artificial_sink_block(&sub_id_suffix);""", """                        if extern_symbol.no_return {
                            // Reroute returns from calls to non-returning
                            // library functions.
                            *return_tid = Tid::artificial_sink_block("");""", ["R4|retarget|to-own-sink"], "non-returning call returns to the global sink block")
mut("C09", "sink_block_not_added", PRJ, """            if one_or_more_call_retargeted {
                sub.add_artifical_sink();
            }""", """            let _ = one_or_more_call_retargeted;""", ["R4|sink-added-when-retargeted"], "sink block never added")
mut("C09", "externs_not_targets", PRJ, """        for symbol_tid in self.program.term.extern_symbols.keys() {
            jump_target_tids.insert(symbol_tid.clone());
        }
""", "", ["R1|find_all_jump_targets"], "calls to extern symbols are treated as dangling")
mut("C09", "indirect_targets_not_followed", BDN, """                        for target_tid in block.term.indirect_jmp_targets.iter() {
                            if !block_set.contains(target_tid) {
                                worklist.push(target_tid.clone())
                            }
                        }
""", "", ["R1|generate_sub_tid_to_contained_block_tids_map|Blk.indirect_jmp_targets"], "indirect jump target hints not followed when collecting a function's blocks")
mut("C09", "dedup_after_dup", PRJ, """        let mut logs = self.remove_duplicate_tids();
        self.add_artifical_sink();
        logs.append(self.remove_references_to_nonexisting_tids().as_mut());
        make_block_to_sub_mapping_unique(self);""", """        self.add_artifical_sink();
        let mut logs = self.remove_references_to_nonexisting_tids();
        make_block_to_sub_mapping_unique(self);
        logs.append(self.remove_duplicate_tids().as_mut());""", ["R3|order|remove_duplicate_tids"], "duplicate removal after block duplication")
mut("C09", "SILENT_nonreturning_before_dup", PRJ, """        make_block_to_sub_mapping_unique(self);
        logs.append(
            self.retarget_non_returning_calls_to_artificial_sink()
                .as_mut(),
        );
""", """        make_block_to_sub_mapping_unique(self);
        let mut more = self.retarget_non_returning_calls_to_artificial_sink();
        logs.append(&mut more);
""", [], "pure refactoring of normalize_basic (must NOT be reported)")

# ---------------- C08
GR = L + "analysis/graph.rs"
mut("C08", "callind_no_stub", GR, """                    self.graph
                        .add_edge(source, return_to_node, Edge::ExternCallStub(jump));
                }
            }
            Jmp::CallOther {""", """                    let _ = return_to_node;
                }
            }
            Jmp::CallOther {""", ["R1|jmp|CallInd"], "indirect calls get no stub edge")
mut("C08", "else_edge_unmarked", GR, "self.add_jump_edge(node, else_jump, Some(if_jump));", "self.add_jump_edge(node, else_jump, None);", ["R3|two-jump-arm"], "else edge not marked with the untaken conditional")
mut("C08", "callother_stub", GR, """            Jmp::CallOther {
                description: _,
                return_: _,
            } => {""", """            Jmp::CallOther {
                description: _,
                return_: Some(tid),
            } => {
                self.add_intraprocedural_edge(source, tid, jump, untaken_conditional);
            }
            Jmp::CallOther {
                description: _,
                return_: None,
            } => {""", ["R1|jmp|CallOther"], "CallOther gets an edge")
mut("C08", "extern_stub_without_return_check", GR, """                if self.extern_subs.contains(target) {
                    if let Some(return_to_node) = return_to_node_option {
                        self.graph
                            .add_edge(source, return_to_node, Edge::ExternCallStub(jump));
                    }
                } else {""", """                if self.extern_subs.contains(target) || self.call_targets.get(target).is_none() {
                    if let Some(return_to_node) = return_to_node_option {
                        self.graph
                            .add_edge(source, return_to_node, Edge::ExternCallStub(jump));
                    }
                } else {""", ["R1|call|extern-stub"], "stub edges also for calls to unknown internal targets")
mut("C08", "jump_ignores_marking", GR, """            self.graph
                .add_edge(source, *target_node, Edge::Jump(jump, untaken_conditional));
        } else {""", """            self.graph
                .add_edge(source, *target_node, Edge::Jump(jump, None));
        } else {""", ["R3|add_intraprocedural_edge"], "marking dropped when the target node already exists")
mut("C08", "cr_edges_swapped", GR, """            self.graph
                .add_edge(*call_node, return_combine_node, Edge::CrCallStub);
            self.graph
                .add_edge(return_source, return_combine_node, Edge::CrReturnStub);""", """            self.graph
                .add_edge(*call_node, return_combine_node, Edge::CrReturnStub);
            self.graph
                .add_edge(return_source, return_combine_node, Edge::CrCallStub);""", ["R1|call-return|endpoints"], "call/return stub edge kinds swapped")
mut("C08", "return_edges_before_calls", GR, """        self.add_jump_and_call_edges();
        self.add_return_edges();""", """        self.add_return_edges();
        self.add_jump_and_call_edges();""", ["R4|build|order"], "return linkage built before call edges exist")
mut("C08", "block_always_added", GR, """        if let Some((target_node, _)) = self
            .jump_targets
            .get(&(target_tid.clone(), sub_term.tid.clone()))
        {
            self.graph
                .add_edge(source, *target_node, Edge::Jump(jump, untaken_conditional));
        } else {
            let target_block = self.program.term.find_block(target_tid).unwrap();
            let (target_node, _) = self.add_block(target_block, sub_term);
            self.graph
                .add_edge(source, target_node, Edge::Jump(jump, untaken_conditional));
        }""", """        {
            let target_block = self.program.term.find_block(target_tid).unwrap();
            let (target_node, _) = self.add_block(target_block, sub_term);
            self.graph
                .add_edge(source, target_node, Edge::Jump(jump, untaken_conditional));
        }""", ["R4|add_intraprocedural_edge|add_block-only-on-miss"], "duplicate node pairs per (block, sub)")
mut("C08", "first_sub_skipped", GR, """        let subs = self.program.term.subs.values();
        for sub in subs {""", """        let subs = self.program.term.subs.values().skip(1);
        for sub in subs {""", ["R4|add_program_blocks"], "blocks of one function get no nodes")
mut("C08", "edge_added_by_client", L + "analysis/dead_variable_elimination/mod.rs", """    let mut graph = crate::analysis::graph::get_program_cfg(&project.program);
    graph.reverse();""", """    let mut graph = crate::analysis::graph::get_program_cfg(&project.program);
    if let (Some(a), Some(b)) = (graph.node_indices().next(), graph.node_indices().last()) {
        graph.add_edge(a, b, crate::analysis::graph::Edge::Block);
    }
    graph.reverse();""", ["R2|only-GraphBuilder-builds"], "a client adds an edge to the CFG")

# ---------------- C15
CX = L + "checkers/cwe_476/context.rs"
TM = L + "analysis/taint/mod.rs"
TS = L + "analysis/taint/state.rs"
mut("C15", "store_arm_removed", CX, """            Def::Store { address, .. } if old_state.eval(address).is_tainted() => {
                self.generate_cwe_warning(&def.tid);
                None
            }
""", "", ["R1|update_def_post|Store"], "stores through the unchecked pointer are not reported")
mut("C15", "new_state_eval", CX, "Def::Load { var: _, address } if old_state.eval(address).is_tainted() => {", "Def::Load { var: _, address } if new_state.eval(address).is_tainted() => {", ["R1|update_def_post|Load|state-before-def"], "address evaluated after the definition")
mut("C15", "untaken_arm_removed", CX, """            (
                _,
                Some(Term {
                    tid: _,
                    term: Jmp::CBranch { condition, .. },
                }),
            ) if state.eval(condition).is_tainted() => None,
""", "", ["R2|update_jump|untaken-conditional"], "fall-through edge of a check keeps the taint")
mut("C15", "jump_warns", CX, "(Jmp::CBranch { condition, .. }, _) if state.eval(condition).is_tainted() => None,", "(Jmp::CBranch { condition, .. }, _) if state.eval(condition).is_tainted() => {\n                self.generate_cwe_warning(&jump.tid);\n                None\n            }", ["R2|update_jump|no-warning"], "a NULL check is reported as a dereference")
mut("C15", "extern_no_clobber", CX, """                    new_state.remove_non_callee_saved_taint(
                        self.project.get_calling_convention(extern_symbol),
                    );

                    Some(new_state)""", """                    let _ = &mut new_state;

                    Some(new_state)""", ["R3|update_call_stub|clobber"], "taint survives in caller-saved registers across library calls")
mut("C15", "store_value_instead_of_address", CX, "Def::Store { address, .. } if old_state.eval(address).is_tainted() => {", "Def::Store { value: address, .. } if old_state.eval(address).is_tainted() => {", ["R1|update_def_post|Store|address-slot"], "the stored VALUE is tested instead of the address")
mut("C15", "assign_merges_old_taint", TM, "new_state.set_register_taint(var, state.eval(value));", "new_state.set_register_taint(var, state.eval(value).merge(&state.get_register_taint(var)));", ["R6|update_def_assign"], "overwriting a register keeps its old taint")
mut("C15", "float_params_unchecked", TS, """            let mut all_parameters = calling_conv.integer_parameter_register.clone();
            for float_param in calling_conv.float_parameter_register.iter() {
                for var in float_param.input_vars() {
                    all_parameters.push(var.clone());
                }
            }
            self.check_register_list_for_taint::<POINTER_TAINT>(
                vsa_result,
                call_tid,""", """            let all_parameters = calling_conv.integer_parameter_register.clone();
            self.check_register_list_for_taint::<POINTER_TAINT>(
                vsa_result,
                call_tid,""", ["R4|generic-params|float-registers"], "float parameter registers not checked at calls")
mut("C15", "return_keeps_state", CX, "        Some(TaState::new_empty())\n    }", "        Some(state.clone())\n    }", ["R5|update_return_callee|empty-state"], "callee taint flows into the caller")
mut("C15", "stop_without_warning", CX, """            call_tid,
            self.project,
            calling_convention_hint,
        ) {
            self.generate_cwe_warning(call_tid);
""", """            call_tid,
            self.project,
            calling_convention_hint,
        ) {
""", ["update_call_generic"], "tainted parameter of an indirect call silently dropped")
mut("C15", "first_wins_hashmap", L + "checkers/cwe_476.rs", "    let mut cwe_warnings = BTreeMap::new();\n    for cwe in cwe_receiver.try_iter() {", "    let mut cwe_warnings = std::collections::HashMap::new();\n    for cwe in cwe_receiver.try_iter() {", ["R8|check_cwe|dedup"], "warnings deduplicated in a hash map")

# ---------------- C14
FC = L + "analysis/function_signature/context/mod.rs"
FS = L + "analysis/function_signature/state/mod.rs"
AP = L + "analysis/function_signature/access_pattern.rs"
mut("C14", "load_address_not_flagged", FC, """                new_state.set_deref_flag_for_pointer_inputs_of_expression(address);
                new_state.set_read_flag_for_input_ids_of_expression(address);""", """                new_state.set_deref_flag_for_pointer_inputs_of_expression(address);""", ["R2|update_def|Def::Load.address"], "registers used only in a load address are not read-flagged")
mut("C14", "merge_and", AP, "read: self.read || other.read,", "read: self.read && other.read,", ["R3|AccessPattern::merge|read"], "a read on only one path is forgotten at joins")
mut("C14", "cbranch_not_flagged", FC, """            Jmp::CBranch { condition, .. } => {
                new_state.set_read_flag_for_input_ids_of_expression(condition);
            }
            _ => (),""", """            _ => (),""", ["R2|update_jump|Jmp::CBranch.condition"], "registers used only in a branch condition are not read-flagged")
mut("C14", "float_params_untracked", L + "intermediate_representation/sub.rs", """        let mut register_list: Vec<&Variable> = self.integer_parameter_register.iter().collect();
        for float_param_expr in self.float_parameter_register.iter() {
            register_list.append(&mut float_param_expr.input_vars());
        }
        register_list
    }

    /// Return a list of all return registers""", """        let register_list: Vec<&Variable> = self.integer_parameter_register.iter().collect();
        register_list
    }

    /// Return a list of all return registers""", ["R1|get_all_parameter_register"], "float parameter registers are not parameters")
mut("C14", "flag_after_overwrite", FC, """            Def::Assign { var, value } => {
                new_state.set_read_flag_for_input_ids_of_expression(value);
                let value = new_state.substitute_global_mem_address(
                    state.eval(value),
                    &self.project.runtime_memory_image,
                );
                new_state.set_register(var, value);""", """            Def::Assign { var, value: value_expr } => {
                let value = new_state.substitute_global_mem_address(
                    state.eval(value_expr),
                    &self.project.runtime_memory_image,
                );
                new_state.set_register(var, value);
                new_state.set_read_flag_for_input_ids_of_expression(value_expr);""", ["R2|update_def|Assign|flag-before-overwrite"], "read flags computed after the register was overwritten")
mut("C14", "flag_on_old_state_clone", FC, """            Jmp::CallInd { target, .. } => {
                new_state.set_read_flag_for_input_ids_of_expression(target);""", """            Jmp::CallInd { target, .. } => {
                state.clone().set_read_flag_for_input_ids_of_expression(target);""", ["R2|update_call_stub|Jmp::CallInd.target"], "flag set on a temporary instead of the returned state")
mut("C14", "tracked_skip_first", FS, "        for var in calling_convention.get_all_parameter_register() {", "        for var in calling_convention.get_all_parameter_register().into_iter().skip(1) {", ["R1|State::new"], "first parameter register never tracked")
mut("C14", "store_value_always_nontrivial", FC, """                } else {
                    new_state.set_read_flag_for_input_ids_of_expression(value);
                }""", """                } else {
                    new_state.set_read_flag_for_input_ids_of_nontrivial_expression(value);
                }""", ["R2|update_def|Def::Store.value"], "plain register stores to non-stack memory are not reads")
mut("C14", "extraction_requires_deref", L + "analysis/function_signature/state/call_handling/mod.rs", "|| (id.get_location().recursion_depth() == 0 && access_pattern.is_accessed())", "|| (id.get_location().recursion_depth() == 0 && access_pattern.is_dereferenced())", ["R4|register-params"], "register parameters reported only when dereferenced")
mut("C14", "intersect_strategy", FS, "tracked_ids: DomainMap<AbstractIdentifier, AccessPattern, UnionMergeStrategy>,", "tracked_ids: DomainMap<AbstractIdentifier, AccessPattern, IntersectMergeStrategy>,", ["R3|tracked_ids|union-strategy"], "ids tracked on one path only are dropped at joins")

# ---------------- C11
PE = L + "pcode/expressions.rs"
PT = L + "pcode/term.rs"
mut("C11", "less_is_sless", PE, "INT_LESS => IrBinOpType::IntLess,", "INT_LESS => IrBinOpType::IntSLess,", ["R1|bin|INT_LESS"], "unsigned less lifted as signed less")
mut("C11", "store_value_from_input1", PT, """                    address: self.rhs.input1.unwrap().into(),
                    value: self.rhs.input2.unwrap().into(),""", """                    address: self.rhs.input2.unwrap().into(),
                    value: self.rhs.input1.unwrap().into(),""", ["R2|def|STORE"], "STORE address and value swapped")
mut("C11", "input2_not_lifted", PT, """            if let Some(input) = &def.term.rhs.input2 {
                if input.address.is_some() {
                    let load_def = input.to_load_def("$load_temp2", generic_pointer_size);
                    cleaned_def.term.rhs.input2.clone_from(&load_def.lhs);
                    refactored_defs.push(Term {
                        tid: def.tid.clone().with_id_suffix("_load2"),
                        term: load_def,
                    });
                }
            }
""", "", ["R3|implicit-load|input2"], "RAM operands in input2 are not loaded")
mut("C11", "binop_operands_swapped", PE, """                lhs: Box::new(expr.input0.unwrap().into()),
                rhs: Box::new(expr.input1.unwrap().into()),""", """                lhs: Box::new(expr.input1.unwrap().into()),
                rhs: Box::new(expr.input0.unwrap().into()),""", ["R2|expr|BinOp|operands"], "binary operands swapped")
mut("C11", "subpiece_size_of_input", PT, """                low_byte: self.rhs.input1.unwrap().parse_to_bytesize(),
                size: target_var.size,""", """                low_byte: self.rhs.input1.unwrap().parse_to_bytesize(),
                size: self.rhs.input0.as_ref().unwrap().size,""", ["R2|def|SUBPIECE"], "SUBPIECE sized by its input")
mut("C11", "same_temp_for_two_slots", PT, 'input.to_load_def("$load_temp1", generic_pointer_size);', 'input.to_load_def("$load_temp0", generic_pointer_size);', ["R3|implicit-load|distinct-temporaries"], "two operand slots share one temporary")
mut("C11", "zext_as_sext", PE, "INT_ZEXT => IrCastOpType::IntZExt,", "INT_ZEXT => IrCastOpType::IntSExt,", ["R1|cast|INT_ZEXT"], "zero extension lifted as sign extension")
mut("C11", "negate_as_2comp", PE, "INT_NEGATE => IrUnOpType::IntNegate,", "INT_NEGATE => IrUnOpType::Int2Comp,", ["R1|un|INT_NEGATE"], "bitwise not lifted as two's complement")
mut("C11", "load_from_input0", PT, """                    var: self.lhs.unwrap().into(),
                    address: self.rhs.input1.unwrap().into(),""", """                    var: self.lhs.unwrap().into(),
                    address: self.rhs.input0.unwrap().into(),""", ["R2|def|LOAD"], "LOAD address taken from the space-id operand")
mut("C11", "callind_target_not_loaded", PT, "JmpType::BRANCHIND | JmpType::CALLIND => {\n                    let input = match", "JmpType::BRANCHIND => {\n                    let input = match", ["R3|implicit-load|indirect-jump-targets"], "RAM-resident indirect call targets not loaded")
mut("C11", "callind_lifted_as_call_other", PT, "            BRANCH => IrJmp::Branch(unwrap_label_direct(jmp.goto.unwrap())),", "            BRANCH => IrJmp::Return(IrExpression::Const(Bitvector::zero(apint::BitWidth::w64()))).clone(),", ["R1|jmp|BRANCH"], "branch lifted as another jump kind")

# ---------------- C16
SU = L + "utils/symbol_utils.rs"
mut("C16", "break_after_first", SU, """                if symbols.contains_key(dst) {
                    calls.push((sub.term.name.as_str(), &jmp.tid, symbols.get(dst).unwrap()));
                }""", """                if symbols.contains_key(dst) {
                    calls.push((sub.term.name.as_str(), &jmp.tid, symbols.get(dst).unwrap()));
                    break;
                }""", ["R1|get_calls_to_symbols|complete-iteration"], "only the first dangerous call per block is reported")
mut("C16", "cwe332_both_present", L + "checkers/cwe_332.rs", "&& find_symbol(&project.program, secure_initializer_func).is_none()", "&& find_symbol(&project.program, secure_initializer_func).is_some()", ["R2|cwe332|decision"], "PRNG warning when the initializer IS imported")
mut("C16", "cwe332_components_swapped", L + "checkers/cwe_332.rs", "for (secure_initializer_func, rand_func) in config.pairs.iter() {", "for (rand_func, secure_initializer_func) in config.pairs.iter() {", ["R2|cwe332|decision"], "pair components swapped")
mut("C16", "cwe426_any_function", L + "checkers/cwe_426.rs", """            if !get_calls_to_symbols(sub, &system_symbol).is_empty()
                && !get_calls_to_symbols(sub, &privilege_changing_symbols).is_empty()""", """            if !get_calls_to_symbols(sub, &system_symbol).is_empty()
                || !get_calls_to_symbols(sub, &privilege_changing_symbols).is_empty()""", ["R2|cwe426|decision"], "function reported when it calls only one of the two")
mut("C16", "cwe782_first_call_only", L + "checkers/cwe_782.rs", "        return generate_cwe_warning(&calls);", "        return generate_cwe_warning(&calls[..1]);", ["R1|cwe782|all-calls-of-a-function"], "only the first ioctl call of a function reported")
mut("C16", "cwe676_skips_first_sub", L + "checkers/cwe_676.rs", "    for sub in subfunctions.values() {", "    for sub in subfunctions.values().skip(1) {", ["R1|cwe676|all-functions"], "one function is never scanned")
mut("C16", "callind_counted", SU, """            if let Jmp::Call { target: dst, .. } = &jmp.term {
                if symbols.contains_key(dst) {
                    calls.push""", """            if let Jmp::Call { target: dst, .. } | Jmp::Branch(dst) = &jmp.term {
                if symbols.contains_key(dst) {
                    calls.push""", ["R1|get_calls_to_symbols|matches-direct-calls"], "branches to a symbol tid counted as calls")
mut("C16", "cwe426_wrong_literal", L + "checkers/cwe_426.rs", 'find_symbol(&project.program, "system")', 'find_symbol(&project.program, "popen")', ["R2|cwe_426|fixed-symbol"], "another command-execution function instead of system")
mut("C16", "find_symbol_prefix", SU, "        if name == sym.name {", "        if sym.name.starts_with(name) {", ["R2|find_symbol|name-equality"], "symbols found by prefix")
mut("C16", "cwe676_dedup_warnings", L + "checkers/cwe_676.rs", "    for (sub_name, jmp_tid, target_name) in dangerous_calls.iter() {", "    for (sub_name, jmp_tid, target_name) in dangerous_calls.iter().take(100) {", ["R1|cwe_676|one-warning-per-call"], "warnings capped")
mut("C16", "cwe426_two_subs", L + "checkers/cwe_426.rs", """            if !get_calls_to_symbols(sub, &system_symbol).is_empty()
                && !get_calls_to_symbols(sub, &privilege_changing_symbols).is_empty()""", """            if !get_calls_to_symbols(sub, &system_symbol).is_empty()
                && project.program.term.subs.values().any(|s| !get_calls_to_symbols(s, &privilege_changing_symbols).is_empty())""", ["R2|cwe426|decision"], "privilege change looked for in any function")

# ---------------- C18
C560 = L + "checkers/cwe_560.rs"
C467 = L + "checkers/cwe_467.rs"
mut("C18", "ge_instead_of_gt", C560, "arg > UPPER_BOUND_CORRECT_UMASK_ARG_VALUE && arg != UPPER_BOUND_CORRECT_CHMOD_ARG_VALUE", "arg >= UPPER_BOUND_CORRECT_UMASK_ARG_VALUE && arg != UPPER_BOUND_CORRECT_CHMOD_ARG_VALUE", ["R1|umask|accepted-set"], "0o177 itself is reported")
mut("C18", "bound_0o77", C560, "pub static UPPER_BOUND_CORRECT_UMASK_ARG_VALUE: u64 = 0o177;", "pub static UPPER_BOUND_CORRECT_UMASK_ARG_VALUE: u64 = 0o77;", ["R1|umask|accepted-set"], "wrong upper bound constant")
mut("C18", "no_777_exception", C560, "arg > UPPER_BOUND_CORRECT_UMASK_ARG_VALUE && arg != UPPER_BOUND_CORRECT_CHMOD_ARG_VALUE", "arg > UPPER_BOUND_CORRECT_UMASK_ARG_VALUE", ["R1|umask|accepted-set"], "0o777 is reported")
mut("C18", "SILENT_equivalent_spelling", C560, "arg > UPPER_BOUND_CORRECT_UMASK_ARG_VALUE && arg != UPPER_BOUND_CORRECT_CHMOD_ARG_VALUE", "!(arg <= 127) && !(arg == UPPER_BOUND_CORRECT_CHMOD_ARG_VALUE)", [], "equivalent spelling of the predicate (must NOT be reported)")
mut("C18", "sizeof_fixed_8", C467, "if Ok(u64::from(pointer_size)) == param_value.try_to_u64() {", "if Ok(8u64) == param_value.try_to_u64() {", ["R1|sizeof|equals-pointer-size"], "pointer size hard-coded")
mut("C18", "sizeof_first_param_only", C467, "    for parameter in symbol.parameters.iter() {", "    for parameter in symbol.parameters.iter().take(1) {", ["R1|sizeof|any-parameter"], "only the first parameter examined")
mut("C18", "store_operands_swapped", C560, "let _ = state.handle_store(address, value, &project.runtime_memory_image);", "let _ = state.handle_store(value, address, &project.runtime_memory_image);", ["R2|umask|def-table|Store"], "store replayed with swapped operands")
mut("C18", "defs_reversed", C467, "    for def in block.term.defs.iter() {", "    for def in block.term.defs.iter().rev() {", ["R2|sizeof|replays-all-defs-in-order"], "block replayed backwards")
mut("C18", "warn_on_error", C560, """                    Err(err) => {
                        let log = LogMessage::new_info(format!(""", """                    Err(err) => {
                        cwes.push(generate_cwe_warning(sub, jmp, 0));
                        let log = LogMessage::new_info(format!(""", ["R1|umask|warn-iff"], "warning for undeterminable arguments")
mut("C18", "sizeof_less_equal", C467, "if Ok(u64::from(pointer_size)) == param_value.try_to_u64() {", "if param_value.try_to_u64().map(|v| v <= u64::from(pointer_size)).unwrap_or(false) {", ["R1|sizeof|equals-pointer-size"], "any value up to the pointer size reported")

# ---------------- C24
CG = L + "analysis/callgraph.rs"
mut("C24", "second_traversal_outgoing", CG, "for neighbor in callgraph.neighbors_directed(node, petgraph::Direction::Incoming) {", "for neighbor in callgraph.neighbors_directed(node, petgraph::Direction::Outgoing) {", ["R2|traversal1|one-direction"], "backward traversal follows forward neighbours")
mut("C24", "union_instead_of_intersection", CG, """            if edges_on_paths_to_target.contains(edge) {
                Some(callgraph[*edge].tid.clone())
            } else {
                None
            }""", """            if edges_on_paths_to_target.contains(edge) || true {
                Some(callgraph[*edge].tid.clone())
            } else {
                None
            }""", ["R3|result|edges-on-source-to-target-paths"], "every edge reachable from the source is reported")
mut("C24", "edges_merged", CG, "callgraph.add_edge(*source_index, *target_index, jump);", "callgraph.update_edge(*source_index, *target_index, jump);", ["R1|edges|parallel-calls-kept"], "two calls to the same callee collapse")
mut("C24", "backward_from_source", CG, "let mut stack = vec![target_node];", "let mut stack = vec![source_node];", ["R2|traversal1|start-and-direction"], "backward traversal starts at the source")
M.append(("C24", "visited_shared", {"edits": [
    {"file": CG, "find": "        if nodes_on_paths_to_target.insert(node) {", "replace": "        if nodes_reachable_from_source.insert(node) {"},
    {"file": CG, "find": "    let mut nodes_on_paths_to_target = BTreeSet::new();", "replace": "    let mut nodes_on_paths_to_target: BTreeSet<NodeIndex> = BTreeSet::new();\n    let _ = &mut nodes_on_paths_to_target;"}],
    "expect": ["R2|separate-visited-sets"], "desc": "second traversal reuses the first visited set"}))
mut("C24", "contains_self", CG, "if edges_on_paths_to_target.contains(edge) {", "if edges_reachable_from_source.contains(edge) {", ["R3|result|edges-on-source-to-target-paths"], "membership tested in the iterated set")
mut("C24", "skip_self_calls", CG, "                    if let Some(target_index) = tid_to_node_index_map.get(target) {\n                        callgraph.add_edge", "                    if let Some(target_index) = tid_to_node_index_map.get(target).filter(|_| *target != sub.tid) {\n                        callgraph.add_edge", ["R1|edges|iff-direct-call"], "self calls dropped from the call graph")
mut("C24", "source_target_swapped", CG, "find_call_sequences_from_node_to_target(callgraph, source_node, target_node)\n}", "find_call_sequences_from_node_to_target(callgraph, target_node, source_node)\n}", ["R3|entry|source-and-target"], "query arguments swapped")
mut("C24", "no_visited_guard", CG, """        if nodes_reachable_from_source.insert(node) {
            for neighbor in callgraph.neighbors_directed(node, Direction::Outgoing) {
                stack.push(neighbor);
            }""", """        nodes_reachable_from_source.insert(node);
        if stack.len() < 10_000 {
            for neighbor in callgraph.neighbors_directed(node, Direction::Outgoing) {
                stack.push(neighbor);
            }""", ["R2|traversal0|expand-on-first-visit"], "expansion bounded by stack size instead of the visited set")
mut("C24", "first_block_only", CG, "        for block in &sub.term.blocks {\n            for jump in &block.term.jmps {", "        for block in sub.term.blocks.iter().take(1) {\n            for jump in &block.term.jmps {", ["R1|edges|all-subs-blocks-jumps"], "only calls in entry blocks become edges")

# ---------------- C23
mut("C23", "sort_removed", MAIN, "    all_cwes.sort();\n", "", ["R2|final-sort"], "final sort removed")
mut("C23", "first_isolated_return_only", L + "checkers/cwe_252/isolated_returns.rs", """                            .map(|state| (state.unwrap_value(), calling_convention, ret_insn_tid))
                    },
                )
        {""", """                            .map(|state| (state.unwrap_value(), calling_convention, ret_insn_tid))
                    },
                )
                .take(1)
        {""", ["R1|", "analyze"], "only the first isolated return (in hash order) is examined")
mut("C23", "warnings_in_hashmap_first", L + "checkers/cwe_476.rs", """    let cwe_warnings = cwe_warnings.into_values().collect();

    (Vec::new(), cwe_warnings)""", """    let by_symbol: std::collections::HashMap<String, CweWarning> = cwe_warnings.into_values().map(|w| (w.symbols.first().cloned().unwrap_or_default(), w)).collect();
    let cwe_warnings: Vec<CweWarning> = by_symbol.into_values().take(1000).collect();

    (Vec::new(), cwe_warnings)""", ["R1|", "check_cwe"], "warnings truncated after a pass through a hash map")
mut("C23", "sort_only_text_mode", MAIN, "    all_cwes.sort();\n", "    if !args.json {\n        all_cwes.sort();\n    }\n", ["R2|final-sort"], "JSON output unsorted")
mut("C23", "SILENT_helper_variable", MAIN, """    let mut all_cwes = Vec::new();
    for module in modules {""", """    let mut all_cwes = Vec::new();
    let mut unsorted: Vec<u8> = Vec::new();
    unsorted.push(0);
    for module in modules {""", [], "helper variable only (must NOT be reported)")

# ---------------- C03
DT = L + "abstract_domain/data/trait_impl.rs"
DM = L + "abstract_domain/domain_map.rs"
TM2 = L + "analysis/taint/mod.rs"
mut("C03", "top_flag_and", DT, "contains_top_values: self.contains_top_values || other.contains_top_values,", "contains_top_values: self.contains_top_values && other.contains_top_values,", ["R2|DataDomain|contains_top_values"], "Top flag joined with &&")
mut("C03", "taint_merge_with_reversed", TM2, "if let (Top(_), Tainted(_)) = (&self, other) {", "if let (Tainted(_), Top(_)) = (&self, other) {", ["R3|Taint::merge_with"], "in-place taint merge loses the taint")
mut("C03", "mergetop_forgets_other_keys", DM, """        for (k, value_other) in other.iter() {
            if map.get(k).is_none() {
                let mut merged_value = value_other.top();

                merged_value.merge_with(value_other);

                if !merged_value.is_top() {
                    map.insert(k.clone(), merged_value);
                }
            }
        }
""", "        let _ = other;\n", ["R5|MergeTop|keys-only-in-other"], "keys only in other are dropped")
mut("C03", "absolute_value_dropped", DT, "(Some(val), None) | (None, Some(val)) => Some(val.clone()),", "(Some(val), None) => Some(val.clone()),\n            (None, Some(_)) => None,", ["R2|DataDomain|absolute_value"], "absolute value of other lost when self has none")
mut("C03", "relative_values_self_only", DT, """        for (id, offset_other) in other.relative_values.iter() {
            relative_values
                .entry(id.clone())
                .and_modify(|offset| *offset = offset.merge(offset_other))
                .or_insert_with(|| offset_other.clone());
        }
""", "", ["R1|DataDomain|relative_values"], "pointer targets of other lost")
mut("C03", "bitvector_merge_keeps_self", L + "abstract_domain/bitvector.rs", """        if self == other {
            self.clone()
        } else {
            self.top()
        }""", """        if self == other || other.is_top() {
            self.clone()
        } else {
            self.top()
        }""", ["R3|BitvectorDomain::merge"], "merge with Top keeps the concrete value")
mut("C03", "intersect_keeps_missing", DM, """            let Some(value_other) = other.get(k) else {
                return false;
            };""", """            let Some(value_other) = other.get(k) else {
                return true;
            };""", ["R5|Intersect"], "intersect keeps keys missing in other")
mut("C03", "mergetop_keeps_unmerged", DM, """            } else {
                let top = value.top();

                value.merge_with(&top);
            };""", """            } else {
                let _top = value.top();
            };""", ["R5|MergeTop|keys-of-self"], "values missing in other kept unmerged")
mut("C03", "taint_state_memory_not_merged", L + "analysis/taint/state.rs", "        self.memory_taint.merge_with(&other.memory_taint);\n", "", ["R4|taint::State::merge_with|memory_taint"], "memory taint of other lost")
mut("C03", "union_skips_existing", DM, """            map.entry(key.clone())
                .and_modify(|value| {
                    value.merge_with(value_other);
                })
                .or_insert_with(|| value_other.clone());""", """            map.entry(key.clone())
                .or_insert_with(|| value_other.clone());""", ["R5|Union"], "existing keys not merged in union strategy")
mut("C03", "interval_hints_self_raw", L + "abstract_domain/interval.rs", "        merged_domain.update_widening_lower_bound(&self.widening_lower_bound);\n", "        merged_domain.widening_lower_bound = self.widening_lower_bound.clone();\n", ["R3|IntervalDomain::signed_merge|hint|lower|self"], "self's hint copied without validation")
mut("C03", "taint_merge_top_wins", TM2, """            (Tainted(size), _) | (_, Tainted(size)) => Tainted(*size),
            _ => Top(self.bytesize()),""", """            (Tainted(size), Tainted(_)) => Tainted(*size),
            _ => Top(self.bytesize()),""", ["R3|Taint::merge|join-table"], "taint merge is a meet")

# ---------------- C04
CS = L + "abstract_domain/data/conditional_specialization.rs"
mut("C04", "signed_le_uses_unsigned", CS, ".and_then(|value| value.add_signed_less_equal_bound(bound).ok());", ".and_then(|value| value.add_unsigned_less_equal_bound(bound).ok());", ["R1|add_signed_less_equal_bound|same-name"], "signed <= refined as unsigned <=")
mut("C04", "unsigned_ge_uses_le", CS, ".and_then(|value| value.add_unsigned_greater_equal_bound(bound).ok());", ".and_then(|value| value.add_unsigned_less_equal_bound(bound).ok());", ["R1|add_unsigned_greater_equal_bound|same-name"], ">= refined as <=")
mut("C04", "not_equal_uses_signed_le", CS, ".and_then(|value| value.add_not_equal_bound(bound).ok());", ".and_then(|value| value.add_signed_less_equal_bound(bound).ok());", ["R1|add_not_equal_bound|same-name"], "!= refined as <=")
mut("C04", "signed_ge_clears_relative", CS, """            .and_then(|value| value.add_signed_greater_equal_bound(bound).ok());
        if self.is_empty() {""", """            .and_then(|value| value.add_signed_greater_equal_bound(bound).ok());
        self.relative_values.clear();
        if self.is_empty() {""", ["R2|add_signed_greater_equal_bound"], "pointer targets dropped by a bound on the absolute part")
mut("C04", "unsigned_le_clears_top", CS, """            .and_then(|value| value.add_unsigned_less_equal_bound(bound).ok());
        if self.is_empty() {""", """            .and_then(|value| value.add_unsigned_less_equal_bound(bound).ok());
        self.contains_top_values = false;
        if self.is_empty() {""", ["R2|add_unsigned_less_equal_bound"], "Top flag dropped by a bound")
mut("C04", "signed_le_abs_failure_fatal", CS, """        self.absolute_value = self
            .absolute_value
            .and_then(|value| value.add_signed_less_equal_bound(bound).ok());
        if self.is_empty() {""", """        self.absolute_value = match self.absolute_value {
            Some(value) => Some(value.add_signed_less_equal_bound(bound)?),
            None => None,
        };
        if self.is_empty() {""", ["R3|add_signed_less_equal_bound"], "unsatisfiable absolute part makes the whole value unsatisfiable")
mut("C04", "not_equal_err_when_abs_none", CS, """            .and_then(|value| value.add_not_equal_bound(bound).ok());
        if self.is_empty() {""", """            .and_then(|value| value.add_not_equal_bound(bound).ok());
        if self.absolute_value.is_none() {""", ["R3|add_not_equal_bound"], "Err when only the absolute part is unsatisfiable")
mut("C04", "SILENT_precise_pretest", CS, """        self.absolute_value = self
            .absolute_value
            .and_then(|value| value.add_signed_greater_equal_bound(bound).ok());
        if self.is_empty() {
            Err(anyhow!("Empty value"))
        } else {
            Ok(self)
        }""", """        if self.absolute_value.is_some() && self.relative_values.is_empty() && !self.contains_top_values {
            let value = self.absolute_value.clone().unwrap();
            if value.add_signed_greater_equal_bound(bound).is_err() {
                return Err(anyhow!("Empty value"));
            }
        }
        self.absolute_value = self
            .absolute_value
            .and_then(|value| value.add_signed_greater_equal_bound(bound).ok());
        Ok(self)""", [], "equivalent: precise emptiness pre-test")
mut("C04", "SILENT_match_form", CS, """        self.absolute_value = self
            .absolute_value
            .and_then(|value| value.add_not_equal_bound(bound).ok());
        if self.is_empty() {
            Err(anyhow!("Empty value"))
        } else {
            Ok(self)
        }""", """        self.absolute_value = match self.absolute_value.take() {
            Some(value) => value.add_not_equal_bound(bound).ok(),
            None => None,
        };
        if !self.is_empty() {
            Ok(self)
        } else {
            Err(anyhow!("Empty value"))
        }""", [], "behaviour-preserving rewrite")
mut("C04", "is_empty_ignores_top_flag", L + "abstract_domain/data.rs", """            && self.absolute_value.is_none()
            && !self.contains_top_values
    }""", """            && self.absolute_value.is_none()
    }""", ["R3|is_empty|tests-every-value-field"], "a value consisting only of Top is reported unsatisfiable")
SI = L + "abstract_domain/interval/simple_interval.rs"
IV = L + "abstract_domain/interval.rs"
mut("C04", "residue_compare_raw_regress", SI, "    if (base_left - base_right) % gcd != 0 {", "    if base_left % gcd != base_right % gcd {", ["R4|compute_intersection_residue_class|compared-raw"], "reverts fix e935863")
mut("C04", "residue_class_negative_regress", SI, "        let residue_class = (residue_class % lcm + lcm) % lcm;", "        let residue_class = (residue_class + lcm) % lcm;", ["R4|compute_intersection_residue_class|cast-to-unsigned"], "reverts fix ca8d683")
mut("C04", "round_up_signed_addend_regress", IV, """        let rounded = self.try_to_i128().unwrap() + diff;
        let result = Bitvector::from_i64(i64::try_from(rounded).ok()?)
            .into_resize_signed(interval.bytesize());
        (result.try_to_i128().unwrap() == rounded).then_some(result)""", """        let diff = Bitvector::from_u64(diff as u64).into_resize_unsigned(interval.bytesize());
        self.signed_add_overflow_checked(&diff)""", ["R5|round_up_to_stride_of"], "reverts fix 2e18873 (round up)")
mut("C04", "single_value_remainder_raw", SI, """                let stride = interval_right.stride as i128;
                let remainder = interval_right.start.try_to_i128()? % stride;
                let remainder = (remainder + stride) % stride;""", """                let stride = interval_right.stride as i128;
                let remainder = interval_right.start.try_to_i128()? % stride;""", ["R4|compute_intersection_residue_class|cast-to-unsigned"], "normalisation of the residue dropped in the (0,_) case")
mut("C04", "zero_extend_remainder_raw", SI, "                let remainder = (start % stride + stride) % stride;", "                let remainder = start % stride;", ["R4|zero_extend|cast-to-unsigned"], "normalisation dropped in zero_extend")
mut("C04", "SILENT_rem_euclid", SI, """                let stride = interval_left.stride as i128;
                let remainder = interval_left.start.try_to_i128()? % stride;
                let remainder = (remainder + stride) % stride;""", """                let stride = interval_left.stride as i128;
                let remainder = interval_left.start.try_to_i128()?.rem_euclid(stride);""", [], "same residue through rem_euclid")
mut("C04", "SILENT_difference_divisible", SI, "    if (base_left - base_right) % gcd != 0 {", "    let difference = base_right - base_left;\n    if !(difference % gcd == 0) {", [], "equivalent congruence test")

# ---------------- C02
BO = L + "abstract_domain/interval/bin_ops.rs"
mut("C02", "dispatch_sub_to_add", IV, "            IntSub => self.sub(rhs),", "            IntSub => self.add(rhs),", ["R1|IntSub|primitives"], "IntSub handled by add")
mut("C02", "dispatch_mult_to_add", IV, "            IntMult => self.signed_mul(rhs),", "            IntMult => self.add(rhs),", ["R1|IntMult|primitives"], "IntMult handled by add")
mut("C02", "operator_sub_is_add", IV, "        self.bin_op(BinOpType::IntSub, &rhs)", "        self.bin_op(BinOpType::IntAdd, &rhs)", ["R1|operator|Sub"], "impl Sub evaluates IntAdd")
mut("C02", "generic_fold_or", IV, """                let new_interval = if self.interval.start == self.interval.end
                    && rhs.interval.start == rhs.interval.end""", """                let new_interval = if self.interval.start == self.interval.end
                    || rhs.interval.start == rhs.interval.end""", ["R2|fold|both-single-values"], "fold if one operand is a single value")
mut("C02", "generic_fold_lhs_only", IV, """                let new_interval = if self.interval.start == self.interval.end
                    && rhs.interval.start == rhs.interval.end
                {""", """                let new_interval = if self.interval.start == self.interval.end {""", ["R2|fold|both-single-values"], "fold without testing rhs")
mut("C02", "generic_fold_swapped", IV, "                    if let Ok(bitvec) = self.interval.start.bin_op(op, &rhs.interval.start) {", "                    if let Ok(bitvec) = rhs.interval.start.bin_op(op, &self.interval.start) {", ["R2|fold|operand-order"], "operands swapped in the fold")
mut("C02", "generic_top_operand_width", IV, """                } else {
                    Interval::new_top(self.bin_op_bytesize(op, rhs))
                };""", """                } else {
                    Interval::new_top(self.bytesize())
                };""", ["R2|top-width"], "Top of operand width for comparison ops")
mut("C02", "sub_start_pairs_start", SI, """            self.start.signed_sub_overflow_checked(&rhs.end),
            self.end.signed_sub_overflow_checked(&rhs.start),""", """            self.start.signed_sub_overflow_checked(&rhs.start),
            self.end.signed_sub_overflow_checked(&rhs.end),""", ["R3|sub|start", "R3|sub|end"], "subtraction bounds not crossed")
mut("C02", "add_end_pairs_start", SI, "            self.end.signed_add_overflow_checked(&rhs.end),", "            self.end.signed_add_overflow_checked(&rhs.start),", ["R3|add|end"], "upper bound of a sum uses rhs.start")
mut("C02", "mul_three_corners", SI, "        let min = signed_min(&val1.0, &signed_min(&val2.0, &signed_min(&val3.0, &val4.0)));", "        let min = signed_min(&val1.0, &signed_min(&val2.0, &val3.0));", ["R3|signed_mul|start|corners"], "minimum over three corner products")
mut("C02", "mul_flag_untested", SI, "        if val1.1 || val2.1 || val3.1 || val4.1 {", "        if val1.1 || val2.1 || val4.1 {", ["R3|signed_mul|overflow-flags"], "overflow of one corner product ignored")
mut("C02", "mul_min_is_max", SI, "        let min = signed_min(&val1.0, &signed_min(&val2.0, &signed_min(&val3.0, &val4.0)));", "        let min = signed_max(&val1.0, &signed_max(&val2.0, &signed_max(&val3.0, &val4.0)));", ["R3|signed_mul|start|fold"], "start is the maximum of the products")
mut("C02", "signed_min_returns_max", SI, """fn signed_min(v1: &Bitvector, v2: &Bitvector) -> Bitvector {
    if v1.checked_sle(v2).unwrap() {""", """fn signed_min(v1: &Bitvector, v2: &Bitvector) -> Bitvector {
    if v1.checked_sge(v2).unwrap() {""", ["R3|signed_mul|start|fold"], "signed_min helper computes the maximum")
mut("C02", "neg_not_crossed", SI, """                start: -self.end,
                end: -self.start,""", """                start: -self.start,
                end: -self.end,""", ["R4|int_2_comp|crossed"], "negation keeps bound order")
mut("C02", "neg_no_min_guard", SI, """        if self
            .start
            .checked_sgt(&Bitvector::signed_min_value(self.bytesize().into()))
            .unwrap()
        {
            Interval {
                start: -self.end,
                end: -self.start,
                stride: self.stride,
            }
        } else {
            Interval::new_top(self.bytesize())
        }""", """        Interval {
            start: -self.end,
            end: -self.start,
            stride: self.stride,
        }""", ["R4|int_2_comp|min-guard"], "negation without MIN guard")
mut("C02", "neg_hints_not_crossed", IV, "                let new_lower_bound = self.widening_upper_bound.clone().map(|bound| -bound);", "                let new_lower_bound = self.widening_lower_bound.clone().map(|bound| -bound);", ["R4|un_op|Int2Comp|widening_lower_bound"], "lower hint of -x from lower hint of x")
mut("C02", "floatnan_operand_width", IV, "            FloatNaN => IntervalDomain::new_top(ByteSize::new(1)),", "            FloatNaN => IntervalDomain::new_top(self.bytesize()),", ["R5|un_op|FloatNaN|top-width"], "FloatNaN result as wide as operand")
mut("C02", "boolnegate_polarity", IV, """                    if self.interval.start == Bitvector::zero(ByteSize::new(1).into()) {
                        Bitvector::one(ByteSize::new(1).into()).into()
                    } else {
                        Bitvector::zero(ByteSize::new(1).into()).into()
                    }""", """                    if self.interval.start == Bitvector::zero(ByteSize::new(1).into()) {
                        Bitvector::zero(ByteSize::new(1).into()).into()
                    } else {
                        Bitvector::one(ByteSize::new(1).into()).into()
                    }""", ["R5|un_op|BoolNegate|polarity"], "BoolNegate is the identity")
mut("C02", "bitnot_always", SI, """        if self.start == self.end {
            self.start.into_bitnot().into()
        } else {
            Interval::new_top(self.bytesize())
        }""", """        self.start.into_bitnot().into()""", ["R5|bitwise_not|single-values-only"], "bitwise not of start for any interval")
mut("C02", "zext_is_sext", IV, "                self.clone().zero_extend(width)", "                self.clone().sign_extend(width)", ["R6|cast|IntZExt|extension"], "IntZExt sign-extends")
mut("C02", "trunc_top_operand_width", IV, "            Float2Float | Int2Float | Trunc => IntervalDomain::new_top(width),", "            Float2Float | Int2Float | Trunc => IntervalDomain::new_top(self.bytesize()),", ["R6|cast|float-and-trunc"], "Top of operand width for width-changing casts")
mut("C02", "popcount_operand_width", IV, """                    IntervalDomain::new(
                        Bitvector::zero(width.into()),
                        Bitvector::from_u64(self.bytesize().as_bit_length() as u64)
                            .into_zero_resize(width),
                    )
                }
            }
            LzCount => {""", """                    IntervalDomain::new(
                        Bitvector::zero(self.bytesize().into()),
                        Bitvector::from_u64(self.bytesize().as_bit_length() as u64)
                            .into_zero_resize(self.bytesize()),
                    )
                }
            }
            LzCount => {""", ["R6|cast|PopCount|result-width"], "PopCount result at operand width")
mut("C02", "subpiece_args_swapped", IV, "            interval_domain = interval_domain.subpiece_higher(low_byte);", "            interval_domain = interval_domain.subpiece_higher(size);", ["R7|IntervalDomain::subpiece|subpiece_higher|argument"], "subpiece_higher(size)")
mut("C02", "subpiece_lower_no_order_guard", SI, """            if start.checked_sle(&end).unwrap() {
                return Interval {
                    start,
                    end,
                    stride: self.stride,
                };
            }""", """            return Interval {
                start,
                end,
                stride: self.stride,
            };""", ["R7|subpiece_lower|order-guard"], "truncated interval may wrap")
mut("C02", "mul_stride_regress", SI, """        let stride = if min == max {
            0
        } else {
            self.stride.gcd(rhs.stride)
        };
        Interval {
            start: min,
            end: max,
            stride,
        }""", """        Interval {
            start: min,
            end: max,
            stride: self.stride.gcd(rhs.stride),
        }""", ["R8|signed_mul"], "reverts fix 3782478")
mut("C02", "SILENT_sub_via_tuple", SI, """        if let (Some(start), Some(end)) = (
            self.start.signed_sub_overflow_checked(&rhs.end),
            self.end.signed_sub_overflow_checked(&rhs.start),
        ) {
            Interval {
                start,
                end,
                stride: self.stride.gcd(rhs.stride),
            }
        } else {
            Interval::new_top(self.bytesize())
        }""", """        let lower = self.start.signed_sub_overflow_checked(&rhs.end);
        let upper = self.end.signed_sub_overflow_checked(&rhs.start);
        match (lower, upper) {
            (Some(start), Some(end)) => Interval {
                start,
                end,
                stride: self.stride.gcd(rhs.stride),
            },
            _ => Interval::new_top(self.bytesize()),
        }""", [], "same subtraction in match form")
mut("C02", "SILENT_generic_fold_try_to_bitvec", IV, """                let new_interval = if self.interval.start == self.interval.end
                    && rhs.interval.start == rhs.interval.end
                {
                    if let Ok(bitvec) = self.interval.start.bin_op(op, &rhs.interval.start) {""", """                let new_interval = if rhs.interval.start == rhs.interval.end
                    && self.interval.end == self.interval.start
                {
                    if let Ok(bitvec) = self.interval.end.bin_op(op, &rhs.interval.end) {""", [], "equivalent fold on the end bounds")

# ---------------- round-2 additions
OBJ = L + "analysis/pointer_inference/object/mod.rs"
mut("C03", "object_is_unique_from_self", OBJ, "                is_unique: self.inner.is_unique && other.inner.is_unique,", "                is_unique: self.inner.is_unique,", ["R1|AbstractObject|is_unique"], "uniqueness flag of the merged object ignores other")
mut("C03", "object_clone_and_patch_forgets_memory", OBJ, """            Inner {
                pointer_targets: self
                    .inner
                    .pointer_targets
                    .union(&other.inner.pointer_targets)
                    .cloned()
                    .collect(),
                is_unique: self.inner.is_unique && other.inner.is_unique,
                type_: same_or_none(&self.inner.type_, &other.inner.type_),
                memory: self.inner.memory.merge(&other.inner.memory),
            }
            .into()""", """            let mut merged = self.clone();
            let inner = Arc::make_mut(&mut merged.inner);
            inner
                .pointer_targets
                .extend(other.inner.pointer_targets.iter().cloned());
            inner.is_unique = self.inner.is_unique && other.inner.is_unique;
            inner.type_ = same_or_none(&self.inner.type_, &other.inner.type_);
            merged""", ["R1|AbstractObject|memory"], "clone-and-patch merge forgets the memory region")
mut("C03", "SILENT_object_clone_and_patch", OBJ, """            Inner {
                pointer_targets: self
                    .inner
                    .pointer_targets
                    .union(&other.inner.pointer_targets)
                    .cloned()
                    .collect(),
                is_unique: self.inner.is_unique && other.inner.is_unique,
                type_: same_or_none(&self.inner.type_, &other.inner.type_),
                memory: self.inner.memory.merge(&other.inner.memory),
            }
            .into()""", """            let mut merged = self.clone();
            let inner = Arc::make_mut(&mut merged.inner);
            inner
                .pointer_targets
                .extend(other.inner.pointer_targets.iter().cloned());
            inner.is_unique = self.inner.is_unique && other.inner.is_unique;
            inner.type_ = same_or_none(&self.inner.type_, &other.inner.type_);
            inner.memory = self.inner.memory.merge(&other.inner.memory);
            merged""", [], "correct clone-and-patch merge")
mut("C04", "unsigned_ge_crossing_zero_cut", IV, """        } else if self.interval.start.sign_bit().to_bool() {
            Ok(self)
        } else {
            self.add_signed_greater_equal_bound(bound)
        }
    }

    fn add_not_equal_bound""", """        } else {
            self.add_signed_greater_equal_bound(bound)
        }
    }

    fn add_not_equal_bound""", ["R6|add_unsigned_greater_equal_bound|sign-cases"], "x >=u non-negative bound: negative members (large unsigned) removed")
mut("C04", "unsigned_le_negative_bound_as_signed", IV, """            if self.interval.end.sign_bit().to_bool() {
                self.add_signed_less_equal_bound(bound)
            } else if self.interval.start.sign_bit().to_bool() {
                Ok(self)
            } else {""", """            if self.interval.start.sign_bit().to_bool() {
                self.add_signed_less_equal_bound(bound)
            } else {""", ["R6|add_unsigned_less_equal_bound|sign-cases"], "zero-crossing interval with negative bound refined with signed <=: non-negative members lost")
mut("C04", "SILENT_unsigned_le_reordered", IV, """            if self.interval.end.sign_bit().to_bool() {
                self.add_signed_less_equal_bound(bound)
            } else if self.interval.start.sign_bit().to_bool() {
                Ok(self)
            } else {
                self.add_signed_greater_equal_bound(&Bitvector::zero(bound.width()))
            }""", """            if !self.interval.start.sign_bit().to_bool() {
                self.add_signed_greater_equal_bound(&Bitvector::zero(bound.width()))
            } else if !self.interval.end.sign_bit().to_bool() {
                Ok(self)
            } else {
                self.add_signed_less_equal_bound(bound)
            }""", [], "same case analysis in a different order")
BVX = L + "intermediate_representation/bitvector.rs"
mut("C01", "SILENT_sright_clamped", BVX, """            IntSRight => {
                let shift_amount = rhs.try_to_u64().unwrap() as usize;
                if shift_amount < self.width().to_usize() {
                    Ok(self.clone().into_checked_ashr(shift_amount).unwrap())
                } else {
                    let signed_bitvec = apint::Int::from(self.clone());
                    if signed_bitvec.is_negative() {
                        let minus_one =
                            Bitvector::zero(self.width()) - &Bitvector::one(self.width());
                        Ok(minus_one)
                    } else {
                        Ok(Bitvector::zero(self.width()))
                    }
                }
            }""", """            IntSRight => {
                let shift_amount = std::cmp::min(
                    rhs.try_to_u64().unwrap() as usize,
                    self.width().to_usize() - 1,
                );
                Ok(self.clone().into_checked_ashr(shift_amount).unwrap())
            }""", [], "arithmetic right shift with the amount clamped to width-1 is equivalent")
mut("C01", "left_shift_clamped", BVX, """            IntLeft => {
                let shift_amount = rhs.try_to_u64().unwrap() as usize;
                if shift_amount < self.width().to_usize() {
                    Ok(self.clone().into_checked_shl(shift_amount).unwrap())
                } else {
                    Ok(Bitvector::zero(self.width()))
                }
            }""", """            IntLeft => {
                let shift_amount = std::cmp::min(
                    rhs.try_to_u64().unwrap() as usize,
                    self.width().to_usize() - 1,
                );
                Ok(self.clone().into_checked_shl(shift_amount).unwrap())
            }""", ["R5|IntLeft|saturation-fill"], "left shift clamped to width-1 keeps the lowest bit")
PRJ = L + "intermediate_representation/project.rs"
mut("C09", "retarget_before_duplication", PRJ, """        make_block_to_sub_mapping_unique(self);
        logs.append(
            self.retarget_non_returning_calls_to_artificial_sink()
                .as_mut(),
        );
""", """        logs.append(
            self.retarget_non_returning_calls_to_artificial_sink()
                .as_mut(),
        );
        make_block_to_sub_mapping_unique(self);
""", ["R3|order|make_block_to_sub_mapping_unique<retarget"], "retarget pass before block duplication")
AV = L + "analysis/dead_variable_elimination/alive_vars_computation.rs"
mut("C10", "load_gen_before_kill_extend", AV, """            alive_variables.remove(var);
            for input_var in address.input_vars() {
                alive_variables.insert(input_var.clone());
            }""", """            alive_variables.extend(address.input_vars().into_iter().cloned());
            alive_variables.remove(var);""", ["R1|update_alive_vars_by_def|Load|kill-before-gen"], "gen (extend) before kill in the Load arm")
mut("C10", "SILENT_load_extend_after_kill", AV, """            alive_variables.remove(var);
            for input_var in address.input_vars() {
                alive_variables.insert(input_var.clone());
            }""", """            alive_variables.remove(var);
            alive_variables.extend(address.input_vars().into_iter().cloned());""", [], "extend instead of insert loop, same order")
SUBR = L + "pcode/subregister_substitution/mod.rs"
mut("C11", "load_fold_drops_cast", SUBR, """                            let mut cast_to_base_def = self.input_iter.next().unwrap().clone();
                            if let Def::Assign { value, .. } = &mut cast_to_base_def.term {
                                value.substitute_input_var(var, &Expression::Var(temp_reg));
                            } else {
                                panic!()
                            }
                            self.output_defs.push(cast_to_base_def);""", """                            let cast_to_base_def = self.input_iter.next().unwrap();
                            self.output_defs.push(Term {
                                tid: cast_to_base_def.tid.clone(),
                                term: Def::Assign {
                                    var: base_register.into(),
                                    value: Expression::Var(temp_reg),
                                },
                            });""", ["R4|replace_output_subregister|consumed-def-emitted"], "consumed cast def dropped after a load")
SIM = L + "abstract_domain/interval/simple_interval.rs"
mut("C02", "mul_singleton_fast_path", SIM, """        let min = signed_min(&val1.0, &signed_min(&val2.0, &signed_min(&val3.0, &val4.0)));
        let max = signed_max(&val1.0, &signed_max(&val2.0, &signed_max(&val3.0, &val4.0)));""", """        let (min, max) = if rhs.start == rhs.end {
            (val1.0.clone(), val3.0.clone())
        } else {
            (
                signed_min(&val1.0, &signed_min(&val2.0, &signed_min(&val3.0, &val4.0))),
                signed_max(&val1.0, &signed_max(&val2.0, &signed_max(&val3.0, &val4.0))),
            )
        };""", ["R3|signed_mul|start|alt0|corners"], "constant factor fast path ignores the sign of the constant")
mut("C02", "SILENT_mul_singleton_minmax", SIM, """        let min = signed_min(&val1.0, &signed_min(&val2.0, &signed_min(&val3.0, &val4.0)));
        let max = signed_max(&val1.0, &signed_max(&val2.0, &signed_max(&val3.0, &val4.0)));""", """        let (min, max) = if rhs.start == rhs.end {
            (signed_min(&val1.0, &val3.0), signed_max(&val1.0, &val3.0))
        } else {
            (
                signed_min(&val1.0, &signed_min(&val2.0, &signed_min(&val3.0, &val4.0))),
                signed_max(&val1.0, &signed_max(&val2.0, &signed_max(&val3.0, &val4.0))),
            )
        };""", [], "correct constant-factor fast path")

# ---------------- C12
TOS = L + "intermediate_representation/expression/trivial_operation_substitution.rs"
mut("C12", "xor_self_one_byte_zero", TOS, "                        *self = Expression::Const(Bitvector::zero(lhs.bytesize().into()));", "                        *self = Expression::Const(Bitvector::zero(ByteSize::new(1).into()));", ["R1|substitute_binop_for_lhs_equal_rhs|rewrite#1"], "a xor a = 0 of one byte for any operand size")
mut("C12", "equal_self_operand_width", TOS, "                        *self = Expression::Const(Bitvector::one(ByteSize::new(1).into()));", "                        *self = Expression::Const(Bitvector::one(lhs.bytesize().into()));", ["R1|substitute_binop_for_lhs_equal_rhs|rewrite#2"], "a == a = 1 of operand width")
mut("C12", "subpiece_of_subpiece_inner_size", TOS, """                            size: _,
                            arg: inner_arg,
                        } => {
                            // Subpiece of subpiece can be simplified to a single subpiece operation.
                            *self = Expression::Subpiece {
                                low_byte: *low_byte + *inner_low_byte,
                                size: *size,""", """                            size: inner_size,
                            arg: inner_arg,
                        } => {
                            // Subpiece of subpiece can be simplified to a single subpiece operation.
                            *self = Expression::Subpiece {
                                low_byte: *low_byte + *inner_low_byte,
                                size: *inner_size,""", ["R1|substitute_trivial_operations"], "merged subpiece takes the inner size")
mut("C12", "cast_of_cast_inner_size", TOS, """                            op: inner_op,
                            size: _,
                            arg: inner_arg,
                        } if *op == *inner_op => {
                            // Merge two zero/sign-extension to one.
                            *self = Expression::Cast {
                                op: *op,
                                size: *size,""", """                            op: inner_op,
                            size: inner_size,
                            arg: inner_arg,
                        } if *op == *inner_op => {
                            // Merge two zero/sign-extension to one.
                            *self = Expression::Cast {
                                op: *op,
                                size: *inner_size,""", ["R1|substitute_trivial_operations"], "merged cast takes the inner size")
mut("C12", "piece_lhs_simplified_without_size_test", TOS, "                            if *low_byte == rhs.bytesize() && *size == lhs.bytesize() {", "                            if *low_byte == rhs.bytesize() {", ["R1|substitute_trivial_operations"], "subpiece of piece replaced by lhs without comparing sizes")
mut("C12", "zext_removed_without_size_test", TOS, "                        } if *low_byte == ByteSize::new(0) && *size == inner_arg.bytesize() => {", "                        } if *low_byte == ByteSize::new(0) => {", ["R1|substitute_trivial_operations"], "subpiece(zext(x)) -> x without size test")
mut("C12", "bool_and_zero_returns_other", TOS, """                    // `a and 0 = 0` for booleans
                    *self = Const(bitvec.clone());""", """                    // `a and 0 = 0` for booleans
                    *self = Const(bitvec.clone().into_zero_extend(ByteSize::new(8)).unwrap());""", ["R1|substitute_and_xor_or_with_constant"], "boolean constant widened to 8 bytes")
mut("C12", "piece_high_part_wrong_size", SUBR, """                low_byte: sub_size,
                size: base_size - sub_size,""", """                low_byte: sub_size,
                size: base_size - sub_lsb,""", ["R2|replace_output_subregister"], "high part of the base register has the wrong size in the lsb==0 branch")
mut("C12", "piece_middle_branch_high_size", SUBR, """                    low_byte: sub_lsb + sub_size,
                    size: base_size - (sub_lsb + sub_size),""", """                    low_byte: sub_lsb + sub_size,
                    size: base_size - sub_size,""", ["R2|replace_output_subregister"], "high part too large in the middle placement branch")
mut("C12", "piece_first_branch_guard_weakened", SUBR, "    if sub_register.lsb > ByteSize::new(0) && sub_register.lsb + sub_register.size == base_size {", "    if sub_register.lsb > ByteSize::new(0) && sub_register.lsb + sub_register.size >= base_size {", ["R2|replace_output_subregister"], "top-placement branch no longer implies lsb+size == base size")
mut("C12", "input_subpiece_base_size", SUBR, """                let target_size = var.size;
                let replacement_expr = create_subpiece_from_sub_register(""", """                let target_size = register.size;
                let replacement_expr = create_subpiece_from_sub_register(""", ["R3|replace_input_subregister"], "sub-register input replaced by a SUBPIECE of the register-table size instead of the variable's size")
mut("C12", "lift_cast_size_from_input", L + "pcode/term.rs", """                IrExpression::Cast {
                    op: self.rhs.mnemonic.into(),
                    size: target_var.size,""", """                IrExpression::Cast {
                    op: self.rhs.mnemonic.into(),
                    size: self.rhs.input0.as_ref().unwrap().size,""", ["R2|into_ir_def"], "lifted cast gets the size of its input instead of the output varnode")
mut("C12", "SILENT_xor_self_rhs_size", TOS, "                        *self = Expression::Const(Bitvector::zero(lhs.bytesize().into()));", "                        *self = Expression::Const(Bitvector::zero(rhs.bytesize().into()));", [], "rhs has the same size as lhs for xor")
mut("C12", "SILENT_piece_base_minus", SUBR, """                low_byte: sub_size,
                size: base_size - sub_size,""", """                low_byte: sub_size,
                size: base_size - sub_register.size,""", [], "same size through the field")
mut("C02", "mult_overflow_min_regress", BVX, "            if is_minus_one_times_min || result.clone().into_checked_sdiv(self).unwrap() != *rhs {", "            if result.clone().into_checked_sdiv(self).unwrap() != *rhs {", ["R9|signed_mult_with_overflow_flag"], "reverts fix 79656db")
mut("C12", "stack_alignment_const_fixed_width", L + "analysis/stack_alignment_substitution/mod.rs", "                        (ApInt::from_i64(offset)).into_resize_unsigned(bitmask.bytesize()),", "                        (ApInt::from_i64(offset)).into_resize_unsigned(ByteSize::new(8)),", ["R1|substitute|rewrite"], "offset constant always 8 bytes wide")

# ---------------- round-3 additions
C367 = L + "checkers/cwe_367.rs"
M.append(("C17", "cwe367_dedup_by_sink", {"edits": [
    {"file": C367, "find": "            for edge in graph.edge_references() {", "replace": "            let mut seen_sinks = std::collections::HashSet::new();\n            for edge in graph.edge_references() {"},
    {"file": C367, "find": """                            ) {
                                let source_callsite = graph[edge.target()].get_block().tid.clone();""", "replace": """                            ) {
                                if !seen_sinks.insert(sink_callsite.clone()) {
                                    continue;
                                }
                                let source_callsite = graph[edge.target()].get_block().tid.clone();"""}],
    "expect": ["R3|cwe367|verdict-per-check-call"], "desc": "one warning per use callsite: check calls on parallel branches lose their warning"}))
M.append(("C17", "SILENT_cwe367_dedup_by_source", {"edits": [
    {"file": C367, "find": "            for edge in graph.edge_references() {", "replace": "            let mut seen_sources = std::collections::HashSet::new();\n            for edge in graph.edge_references() {"},
    {"file": C367, "find": """                            ) {
                                let source_callsite = graph[edge.target()].get_block().tid.clone();""", "replace": """                            ) {
                                if !seen_sources.insert(jmp.tid.clone()) {
                                    continue;
                                }
                                let source_callsite = graph[edge.target()].get_block().tid.clone();"""}],
    "expect": [], "desc": "de-duplication keyed by the check call itself cannot couple different check calls"}))
C560 = L + "checkers/cwe_560.rs"
mut("C18", "umask_arg_masked", C560, "fn is_chmod_style_arg(arg: u64) -> bool {", "fn is_chmod_style_arg(arg: u64) -> bool {\n    let arg = arg & 0o777;", ["R1|umask|accepted-set"], "verdict on arg & 0o777")
mut("C18", "umask_arg_mod", C560, "fn is_chmod_style_arg(arg: u64) -> bool {", "fn is_chmod_style_arg(arg: u64) -> bool {\n    let arg = arg % 0o10000;", ["R1|umask|accepted-set"], "verdict on arg modulo 0o10000")
FS = L + "analysis/function_signature/mod.rs"
mut("C14", "entry_state_standard_cconv", FS, """                    let calling_convention = project
                        .get_specific_calling_convention(&sub.term.calling_convention)
                        .expect("No standard calling convention found.");""", """                    let calling_convention = project
                        .get_standard_calling_convention()
                        .expect("No standard calling convention found.");""", ["R1|generate_fixpoint_computation|entry-state"], "entry state from the standard calling convention")

# ---------------- C13
VSP = L + "analysis/pointer_inference/state/value_specialization.rs"
FXP = L + "analysis/forward_interprocedural_fixpoint.rs"
PICTX = L + "analysis/pointer_inference/context/trait_impls.rs"
mut("C13", "sless_lhs_const_unsigned_bound", VSP, """                    lhs_bound += &Bitvector::one(lhs_bound.width());
                    let new_result = self
                        .eval(rhs)
                        .without_widening_hints()
                        .add_signed_greater_equal_bound(&lhs_bound)?;""", """                    lhs_bound += &Bitvector::one(lhs_bound.width());
                    let new_result = self
                        .eval(rhs)
                        .without_widening_hints()
                        .add_unsigned_greater_equal_bound(&lhs_bound)?;""", ["R1|cmp|lhs const|IntSLess|bound-method"], "signed < refined with an unsigned bound")
mut("C13", "less_rhs_const_no_decrement", VSP, """                    if rhs_bound == Bitvector::zero(rhs_bound.width()) {
                        return Err(anyhow!("Unsatisfiable bound"));
                    }
                    rhs_bound -= &Bitvector::one(rhs_bound.width());""", """                    if rhs_bound == Bitvector::zero(rhs_bound.width()) {
                        return Err(anyhow!("Unsatisfiable bound"));
                    }""", ["R1|cmp|rhs const|IntLess|moved-by-one"], "x <u c refined as x <=u c")
mut("C13", "slessequal_rhs_const_decrement", VSP, """                IntSLessEqual => {
                    let new_result = self
                        .eval(lhs)
                        .without_widening_hints()
                        .add_signed_less_equal_bound(&rhs_bound)?;""", """                IntSLessEqual => {
                    rhs_bound -= &Bitvector::one(rhs_bound.width());
                    let new_result = self
                        .eval(lhs)
                        .without_widening_hints()
                        .add_signed_less_equal_bound(&rhs_bound)?;""", ["R1|cmp|rhs const|IntSLessEqual|moved-by-one"], "x <=s c refined as x <=s c-1: c itself is dropped")
mut("C13", "sless_rhs_const_guard_max", VSP, "                    if rhs_bound == Bitvector::signed_min_value(rhs_bound.width()) {", "                    if rhs_bound == Bitvector::signed_max_value(rhs_bound.width()) {", ["R1|cmp|rhs const|IntSLess|extreme-guard"], "guard tests the wrong extreme")
mut("C13", "less_lhs_const_writes_lhs", VSP, """                        .add_unsigned_greater_equal_bound(&lhs_bound)?;
                    self.specialize_by_expression_result(rhs, new_result)?;
                }
                IntLessEqual => {""", """                        .add_unsigned_greater_equal_bound(&lhs_bound)?;
                    self.specialize_by_expression_result(lhs, new_result)?;
                }
                IntLessEqual => {""", ["R1|cmp|lhs const|IntLess|written-back-to"], "refined value written to the constant side")
mut("C13", "negation_maps_less_to_less", VSP, "                            IntLess => IntLessEqual,", "                            IntLess => IntLess,", ["R2|negation|IntLess"], "!(a<b) refined as b<a")
mut("C13", "negation_on_true", VSP, """                    if result_bitvec.is_zero() {
                        std::mem::swap(&mut left_expr, &mut right_expr);""", """                    if !result_bitvec.is_zero() {
                        std::mem::swap(&mut left_expr, &mut right_expr);""", ["R2|negation|only-for-false"], "mirroring applied to true comparisons")
mut("C13", "notequal_true_as_equal", VSP, """                        (BinOpType::IntEqual, true) | (BinOpType::IntNotEqual, false) => {
                            // lhs == rhs""", """                        (BinOpType::IntEqual, true) | (BinOpType::IntNotEqual, true) => {
                            // lhs == rhs""", ["R3|equality|eq-branch|cases"], "x != c taken as x == c")
mut("C13", "add_inverse_uses_add", VSP, "                let intermediate_result = result.clone() - self.eval(lhs).without_widening_hints();", "                let intermediate_result = result.clone() + self.eval(lhs).without_widening_hints();", ["R4|IntAdd|rhs"], "rhs = result + lhs for an addition")
mut("C13", "sub_inverse_swapped", VSP, """                let intermediate_result: Data =
                    self.eval(lhs).without_widening_hints() - result.clone();""", """                let intermediate_result: Data =
                    result.clone() - self.eval(lhs).without_widening_hints();""", ["R4|IntSub|rhs"], "rhs = result - lhs for a subtraction")
mut("C13", "or_forces_on_nonzero", VSP, """                BinOpType::IntOr | BinOpType::BoolOr => {
                    if result_bitvec.is_zero() {""", """                BinOpType::IntOr | BinOpType::BoolOr => {
                    if !result_bitvec.is_zero() {""", ["R5|IntOr/BoolOr|both-forced|case"], "a|b != 0 forces both operands")
mut("C13", "and_known_operand_zero", VSP, """                    } else if self
                        .eval(lhs)
                        .try_to_bitvec()
                        .map_or(false, |bitvec| !bitvec.is_zero())
                    {
                        self.specialize_by_expression_result(rhs, result_bitvec.into())""", """                    } else if self
                        .eval(lhs)
                        .try_to_bitvec()
                        .map_or(false, |bitvec| bitvec.is_zero())
                    {
                        self.specialize_by_expression_result(rhs, result_bitvec.into())""", ["R5|BoolAnd|lhs-known|neutral-element"], "a & b = 0 with a == 0 forces b = 0")
mut("C13", "fixpoint_polarity_swapped", FXP, """                        condition,
                        block,
                        true,
                    )""", """                        condition,
                        block,
                        false,
                    )""", ["R6|fixpoint|taken-jump"], "taken branch refined with false")
mut("C13", "context_negates_is_true", PICTX, "            .specialize_by_expression_result(condition, Bitvector::from_u8(is_true as u8).into())", "            .specialize_by_expression_result(condition, Bitvector::from_u8(!is_true as u8).into())", ["R6|context|constant"], "condition refined to the negation")
mut("C13", "context_unreachable_on_ok", PICTX, """            Ok(_) => Some(specialized_state),
            // State is unsatisfiable
            Err(_) => None,""", """            Ok(_) => None,
            // State is unsatisfiable
            Err(_) => Some(specialized_state),""", ["R6|context|unreachable-only-if-unsatisfiable"], "satisfiable branches are unreachable")
mut("C13", "SILENT_lesseq_arms_merged", VSP, """                IntLessEqual => {
                    let new_result = self
                        .eval(lhs)
                        .without_widening_hints()
                        .add_unsigned_less_equal_bound(&rhs_bound)?;
                    self.specialize_by_expression_result(lhs, new_result)?;
                }
                _ => panic!(),
            }
        }
        Ok(())""", """                IntLessEqual => {
                    let bounded = self.eval(lhs).without_widening_hints();
                    let new_result = bounded.add_unsigned_less_equal_bound(&rhs_bound)?;
                    self.specialize_by_expression_result(lhs, new_result)?;
                }
                _ => panic!(),
            }
        }
        Ok(())""", [], "temporary introduced")

# ---------------- C06
CI = L + "abstract_domain/character_inclusion.rs"
BRK = L + "abstract_domain/bricks.rs"
BR1 = L + "abstract_domain/bricks/brick.rs"
WID = L + "abstract_domain/bricks/widening.rs"
mut("C06", "ci_merge_certain_union", CI, """                self_certain.intersection(other_certain),
                self_possible.union(other_possible),""", """                self_certain.union(other_certain),
                self_possible.union(other_possible),""", ["R1|ci-merge|certain"], "certain characters of a join are the union")
mut("C06", "ci_merge_possible_intersection", CI, """                self_certain.intersection(other_certain),
                self_possible.union(other_possible),""", """                self_certain.intersection(other_certain),
                self_possible.intersection(other_possible),""", ["R1|ci-merge|possible"], "possible characters of a join are the intersection")
mut("C06", "ci_merge_possible_self_twice", CI, "                self_possible.union(other_possible),\n            ))\n        }\n    }\n\n    /// Check if the value is *Top*.", "                self_possible.union(self_possible.clone()),\n            ))\n        }\n    }\n\n    /// Check if the value is *Top*.", ["R1|ci-merge|possible"], "possible set ignores other")
mut("C06", "ci_append_top_keeps_nothing", CI, """                CharacterInclusionDomain::Top => {
                    CharacterInclusionDomain::Value((self_certain.clone(), CharacterSet::Top))
                }""", """                CharacterInclusionDomain::Top => {
                    CharacterInclusionDomain::Value((self_certain.clone(), self_possible.clone()))
                }""", ["R2|ci-append|Value-Top|possible"], "appending Top keeps the possible set")
mut("C06", "charset_union_not_absorbing", CI, """        if self.is_top() || other.is_top() {
            return CharacterSet::Top;
        }

        CharacterSet::Value(""", """        if self.is_top() && other.is_top() {
            return CharacterSet::Top;
        }

        CharacterSet::Value(""", ["R3|CharacterSet::union|top-absorbing"], "union with Top is not Top")
mut("C06", "bricks_append_reversed", BRK, """                BricksDomain::Value(other_bricks) => {
                    let mut new_bricks = bricks.clone();
                    new_bricks.append(&mut other_bricks.clone());
                    BricksDomain::Value(new_bricks)""", """                BricksDomain::Value(other_bricks) => {
                    let mut new_bricks = other_bricks.clone();
                    new_bricks.append(&mut bricks.clone());
                    BricksDomain::Value(new_bricks)""", ["R4|bricks-append|Value-Value"], "appended bricks come first")
mut("C06", "bricks_append_top_dropped", BRK, """                BricksDomain::Top => {
                    let mut new_bricks = bricks.clone();
                    new_bricks.push(BrickDomain::Top);
                    BricksDomain::Value(new_bricks)""", """                BricksDomain::Top => {
                    let new_bricks = bricks.clone();
                    BricksDomain::Value(new_bricks)""", ["R4|bricks-append|Value-Top"], "an appended unknown string is dropped")
mut("C06", "brick_join_min_is_max", WID, "        let min_bound = min(self_brick.get_min(), other_brick.get_min());", "        let min_bound = max(self_brick.get_min(), other_brick.get_min());", ["R5|brick-join|min"], "min of a join is the max of the mins")
mut("C06", "brick_join_strings_intersection", WID, """            .get_sequence()
            .union(other_brick.get_sequence())""", """            .get_sequence()
            .intersection(other_brick.get_sequence())""", ["R5|brick-join|strings"], "strings of a join are the intersection")
mut("C06", "brick_join_threshold_narrow", WID, """            widened_brick.set_min(0);
            widened_brick.set_max(u32::MAX);""", """            widened_brick.set_min(0);
            widened_brick.set_max(INTERVAL_THRESHOLD as u32);""", ["R5|brick-join|max|threshold"], "widening caps max at the threshold")
mut("C06", "equal_content_max_not_added", BR1, "            max: self.max + other.max,", "            max: self.max.max(other.max),", ["R6|equal-content|max"], "max of two concatenated bricks is not the sum")
mut("C06", "break_rest_max_wrong", BR1, "            max: self.max - self.min,\n        };", "            max: self.max,\n        };", ["R6|break|rest-max"], "rest keeps max: normalisation changes (grows) the represented language")
mut("C06", "bound_one_reversed", BR1, "            .map(|&(str1, str2)| str1.clone() + str2)", "            .map(|&(str1, str2)| str2.clone() + str1)", ["R6|bound-one|concatenation-order"], "strings concatenated in reverse order")

# ---------------- round-4 additions
MAINRS = "src/caller/src/main.rs"
mut("C21", "pi_not_implied_by_string_abstraction", MAINRS, """    let pi_analysis_needed = string_abstraction_needed
        || modules
            .iter()
            .any(|module| modules_depending_on_pointer_inference.contains(&module.name));""", """    let pi_analysis_needed = modules
        .iter()
        .any(|module| modules_depending_on_pointer_inference.contains(&module.name));""", ["R2|implies|string_abstraction=>pointer_inference"], "pointer inference no longer scheduled for CWE78 alone")
mut("C21", "SILENT_pi_table_contains_cwe78", MAINRS, """        "CWE119", "CWE134", "CWE190", "CWE252", "CWE337", "CWE416", "CWE476", "CWE789", "Memory",
    ]);""", """        "CWE119", "CWE134", "CWE190", "CWE252", "CWE337", "CWE416", "CWE476", "CWE78", "CWE789", "Memory",
    ]);""", [], "CWE78 additionally listed in the pointer-inference table: harmless")
mut("C22", "lkm_list_as_string", L + "checkers.rs", """pub const MODULES_LKM: [&str; 10] = [
    "CWE134", "CWE190", "CWE215", "CWE252", "CWE416", "CWE457", "CWE467", "CWE476", "CWE676",
    "CWE789",
];""", """pub const MODULES_LKM: &str =
    "CWE134,CWE190,CWE215,CWE252,CWE416,CWE457,CWE467,CWE476,CWE676,CWE789";""", ["R2|lkm-membership-is-exact"], "kernel-module list as one string: contains becomes a substring search")
GU = L + "utils/graph_utils.rs"
M.append(("C23", "reachability_worklist_hashset", {"edits": [
    {"file": GU, "find": "    let mut worklist = vec![source_node];", "replace": "    let mut worklist = HashSet::from([source_node]);"},
    {"file": GU, "find": "    while let Some(node) = worklist.pop() {", "replace": "    while let Some(node) = worklist.iter().next().copied() {\n        worklist.remove(&node);"},
    {"file": GU, "find": "                        worklist.push(edge.target())", "replace": "                        worklist.insert(edge.target());"}],
    "expect": ["R1|checkers::cwe_367::check_cwe|result-of|is_sink_call_reachable_from_source_call"], "desc": "first sink found in hash order ends up in the TOCTOU warning"}))
CG = L + "analysis/callgraph.rs"
DTM = L + "intermediate_representation/mod.rs"
mut("C20", "from_lowercases_specifier", DTM, "        match specifier.as_str() {", "        match specifier.to_ascii_lowercase().as_str() {", ["R2|long-form|Lf"], "specifier lower-cased before the lookup: L conversions become l conversions (double)")
mut("C24", "calls_from_target_dropped", CG, """            if edges_on_paths_to_target.contains(edge) {
                Some(callgraph[*edge].tid.clone())""", """            if edges_on_paths_to_target.contains(edge)
                && callgraph.edge_endpoints(*edge).unwrap().0 != target_node
            {
                Some(callgraph[*edge].tid.clone())""", ["R3|result|no-call-on-a-path-is-dropped"], "calls made by the target function are dropped (wrong for recursive targets)")

# ---------------- C06 R7 / C13 R7
mut("C06", "normalize_equal_content_on_subset", BRK, "                        else if current_brick.get_sequence() == next_brick.get_sequence() {", "                        else if next_brick.get_sequence().is_subset(current_brick.get_sequence()) {", ["R7|normalize|merge_bricks_with_equal_content|precondition"], "rule 4 applied for a subset of the strings")
mut("C06", "SILENT_normalize_break_without_min_test", BRK, "                if current_brick.get_min() >= 1 && current_brick.get_max() > current_brick.get_min()", "                if current_brick.get_max() > current_brick.get_min()", [], "rule 5 without min >= 1 (undecided / harmless for min 0: S^0 = empty string)")
AH = L + "analysis/pointer_inference/state/access_handling.rs"
mut("C13", "null_zone_includes_minus_1024", AH, """            if (start_index > -1024 && start_index < 1024)
                || (end_index > -1024 && end_index < 1024)""", """            if (start_index >= -1024 && start_index < 1024)
                || (end_index >= -1024 && end_index < 1024)""", ["R7|null-zone|start"], "zone closed at -1024")
mut("C13", "null_zone_refinement_border", AH, "                            &Bitvector::from_i16(1024).into_resize_signed(address_val.bytesize()),", "                            &Bitvector::from_i16(1025).into_resize_signed(address_val.bytesize()),", ["R7|null-zone|refinement|above"], "address 1024 removed although outside the zone")
mut("C13", "SILENT_null_zone_as_range", AH, """                let new_absolute_val = if start_index > -1024 && start_index < 1024 {""", """                let new_absolute_val = if (-1023..=1023).contains(&start_index) {""", [], "same zone as an inclusive range")

# ---------------- mutants for the rules added after seed rounds 6 and 7 (each mirrors the stored seed)
M.append(("C07", "dequeue_after_processing", {"edits": [
    {"file": L + "analysis/fixpoint.rs", "find": "        while let Some(priority) = self.worklist.iter().next_back().cloned() {\n            let priority = self.worklist.take(&priority).unwrap();", "replace": "        while let Some(&priority) = self.worklist.last() {"},
    {"file": L + "analysis/fixpoint.rs", "find": "                non_stabilized_nodes.insert(priority);\n            }\n        }", "replace": "                non_stabilized_nodes.insert(priority);\n            }\n            self.worklist.remove(&priority);\n        }"}],
    "expect": ["R3|compute_with_max_steps|dequeue-before-processing"], "desc": "priority removed from the worklist after update_node"}))
mut("C08", "empty_sub_into_extern_subs", L + "analysis/graph.rs", "            } else {\n                self.log_messages.push(LogMessage::new_info(format!(\n                    \"{} contains no blocks\",", "            } else {\n                self.extern_subs.insert(sub.tid.clone());\n                self.log_messages.push(LogMessage::new_info(format!(\n                    \"{} contains no blocks\",", ["R2|extern_subs|filled-from-extern-symbols"], "internal function without blocks entered into extern_subs")
mut("C15", "clobber_writes_top", L + "analysis/taint/state.rs", """        self.register_taint = self
            .register_taint
            .iter()
            .filter_map(|(register, taint)| {
                if calling_conv
                    .callee_saved_register
                    .iter()
                    .any(|callee_saved_reg| register == callee_saved_reg)
                {
                    Some((register.clone(), *taint))
                } else {
                    None
                }
            })
            .collect();""", """        for (register, taint) in self.register_taint.iter_mut() {
            if !calling_conv.callee_saved_register.contains(register) {
                *taint = Taint::Top(register.size);
            }
        }""", ["R6|register_taint|no-untainted-entries"], "clobbered registers overwritten with Top instead of removed")
mut("C09", "search_from_entry_block_only", L + "intermediate_representation/project/block_duplication_normalization.rs", """            let mut worklist: Vec<Tid> =
                sub.term.blocks.iter().map(|blk| blk.tid.clone()).collect();""", """            let mut worklist: Vec<Tid> = sub
                .term
                .blocks
                .first()
                .map(|blk| vec![blk.tid.clone()])
                .unwrap_or_default();""", ["R1|generate_sub_tid_to_contained_block_tids_map|search-starts-from-all-blocks"], "block search seeded with the entry block only")
mut("C14", "may_stack_pointer_counts_as_exact", L + "analysis/function_signature/state/memory_handling.rs", """        if let Some((target, offset)) = address.get_if_unique_target() {
            if *target == self.stack_id {
                return offset.try_to_bitvec().ok();
            }
        }
        None""", """        let offset = address.get_relative_values().get(&self.stack_id)?;
        offset.try_to_bitvec().ok()""", ["R2|get_offset_if_exact_stack_pointer|unique-target"], "exact stack pointer no longer requires a unique target")

for prop, name, spec in M:
    if name.startswith("SILENT_"):
        spec["silent"] = True
    d = os.path.join(V, "mutants", prop)
    os.makedirs(d, exist_ok=True)
    with open(os.path.join(d, name + ".json"), "w") as f:
        json.dump(spec, f, indent=1)
print("wrote %d mutants" % len(M))
