#!/bin/bash
# seed_eval.sh <seed id> [patch file] : evaluate the property's check on a scratch copy of /repo with the seeded patch applied
id=$1; prop=${id:0:3}; patch=${2:-/verif/seeded/$id/patch.diff}
[ -f "$patch" ] || patch=/tmp/seeds/$id/patch.diff
d=$(mktemp -d /tmp/seedeval_XXXX)
rsync -a --exclude target --exclude .git --exclude doc --exclude test/artificial_samples /repo/ $d/
(cd $d && git init -q . 2>/dev/null; git -C $d apply --whitespace=nowarn $patch) || { echo "patch does not apply"; rm -rf $d; exit 2; }
cd /verif && ./check $prop --repo $d --slot seedeval 2>&1 | grep -E "^==|violated:|UNDECIDED|ANCHOR|Traceback|FACT-ERROR|VIOLATION" | cut -c1-${COLS:-380}
rm -rf $d /verif/.work/facts-seedeval*
