#!/bin/bash
# confirm_seed.sh <id> : in worktree /tmp/wt/<id> (clean HEAD + /tmp/seeds/<id>/{patch,demo}.diff) confirm
#  (1) with patch: workspace tests pass, (2) patch+demo: demo fails, (3) demo only: demo passes. Writes /tmp/seeds/<id>/confirm.json
id=$1; wt=/tmp/wt/$id; sd=/tmp/seeds/$id
cd $wt || exit 2
export CARGO_NET_OFFLINE=true CARGO_TARGET_DIR=$wt/target
git reset -q --hard HEAD; git clean -fdq -e target
demo_cmd=$(python3 -c "import json;print(json.load(open('$sd/meta.json'))['demo_cmd'].replace('WORKTREE','$wt'))")
git apply $sd/patch.diff || { echo "patch does not apply"; exit 2; }
cargo test --workspace --no-fail-fast --offline > $sd/confirm_tests_with_patch.log 2>&1; t_rc=$?
passed=$(grep -E "^test result" $sd/confirm_tests_with_patch.log | awk '{s+=$4} END{print s}')
failed=$(grep -E "^test result" $sd/confirm_tests_with_patch.log | awk '{s+=$6} END{print s}')
git apply $sd/demo.diff || { echo "demo does not apply"; exit 2; }
bash -c "$demo_cmd" > $sd/confirm_demo_with_patch.log 2>&1; d1=$?
git apply -R $sd/patch.diff
bash -c "$demo_cmd" > $sd/confirm_demo_without_patch.log 2>&1; d2=$?
git reset -q --hard HEAD; git clean -fdq -e target
python3 - <<PY
import json
json.dump({"tests_with_patch": {"exit": $t_rc, "passed": int("${passed:-0}"), "failed": int("${failed:-0}")}, "demo_with_patch_exit": $d1, "demo_without_patch_exit": $d2,
  "ok": ($t_rc == 0 and int("${passed:-0}") >= 311 and $d1 != 0 and $d2 == 0)}, open("$sd/confirm.json", "w"), indent=1)
print(open("$sd/confirm.json").read())
PY
