#!/usr/bin/env python3
"""Regenerates /verif/MANIFEST.json from the table below (single source of truth)."""
import json
import os

VERIF = os.path.dirname(os.path.dirname(os.path.abspath(__file__)))

TRUST = ("Trusted base: rustc's THIR of the non-test `cargo +nightly check` configuration of cwe_checker_lib and cwe_checker "
         "(tools/factgen), the rule code under /verif/rules, and the listed facts about dependencies. Decides the structural "
         "clause(s) named in level_claimed.text, not the run-time behaviour.")

# id -> (technique, level text, design ref, extra note)
CLAIMED = {
    "C01": ("THIR match-table extraction + symbolic let-inlining; sibling width-table cross-check; truth tables over sign atoms; primitive/operand-order normal forms",
            "Decides, for every BinOpType/UnOpType/CastOpType variant, the structural clauses of constant folding: result-width class agrees across Expression::bytesize, "
            "bin_op_bytesize and the constructed widths (R1); unsupported operations reach Err and division errors are propagated (R2); BitvectorDomain maps Err to Top of the "
            "table width (R3); carry/signed-carry/signed-borrow conditions equal the P-Code truth tables (R4); each arm is the apint primitive of its mnemonic with P-Code operand "
            "order (R5); operator traits delegate correctly (R6). A violated clause is a wrong folded value for some operand pair; the numeric behaviour of apint itself is trusted.",
            "3/C01", "apint::Int::is_positive == !is_negative (sign bit unset), read from apint 0.2 source"),
    "C02": ("structural analysis of the interval transfer functions on normalised THIR terms: resolved call graph from each dispatch arm to the bit-vector primitives; DNF path conditions of every constant fold / truncated-bounds result; corner provenance of each constructed bound against the monotonicity table of its primitive; overflow-flag coverage; bound/hint crossing under negation; width argument of every Top result; stride provenance of results of non-injective primitives",
            "Decides structural necessary conditions of soundness / well-formedness: dispatch to the primitives of the operation's mnemonic (R1); the generic arm folds only two single values, in operand order, else Top of the RESULT width (R2); "
            "add/sub/mul pair the interval corners according to the monotonicity of the primitive, use overflow-checked primitives and test every overflow flag (R3); negation crosses bounds and hints and is guarded against MIN (R4); the un_op and cast "
            "tables give Top of the right width / the right extension (R5, R6); subpiece passes low_byte/size to the right step and truncates only under its two guards (R7); a product that may collapse to one value gets stride 0 (R8; found one genuine defect, fixed). "
            "That the bounds so computed contain every concrete result for every member, and the stride/hint arithmetic beyond these clauses, is numeric and NOT decided.",
            "3/C02", ""),
    "C03": ("merge-implementation analysis on normalised THIR terms: per-field provenance of every merge result (both operands must reach each field through a join), join tables of the flat domains, delegation of merge_with to merge, strategy-by-strategy key/value flow of DomainMap",
            "Decides the structural half of 'merge over-approximates both operands': every value-carrying field of a merged DataDomain / State is computed from BOTH operands through that field's own join (R1, R2, R4); "
            "the flat domains' join tables send unequal operands to Top / keep the taint (R3); IntervalDomain::signed_merge re-validates both operands' widening hints (R3); each DomainMap merge strategy treats keys missing on one side as its documentation "
            "states (R5). The numeric join of two intervals (signed_merge_and_widen, stride gcd) is not decided.",
            "3/C03", ""),
    "C04": ("delegation/field-effect analysis of `impl SpecializeByConditional for DataDomain<T>` (resolved callee names, write sets, implication test between the path condition of every Err result and the literal set of DataDomain::is_empty); "
            "type-resolved def-use/sign flow over the integer arithmetic of the interval modules (signed `%` results must be normalised before comparison / unsigned cast; unsigned-tagged bitvectors must not be signed addends)",
            "Decides (a) the DataDomain wrapper: each add_*_bound refines the absolute part with the SAME-named method of the value domain and the caller's bound (R1), touches no other field (R2), and reports 'unsatisfiable' only "
            "under a condition that implies emptiness of the whole value, tested after the update; is_empty tests every value-carrying field (R3); and (b) the sign discipline of the residue-class and stride-rounding arithmetic behind "
            "intersect and add_*_bound (R4, R5) -- a necessary condition for negative interval members / large strides to stay in the right residue class; this part found three genuine defects (fixed). "
            "The remaining numeric content of the refinement (which bound is compared with which, off-by-one at the bounds, overflow near the signed extremes) quantifies over members x bounds and is NOT decided -- the seeded change for this "
            "property (rounding near the signed maximum) is such a case and is not detected.",
            "3/C04", ""),
    "C05": ("field-visibility facts + enumeration of all mutation sites of the cell map by resolved receiver; per-insert justification analysis (dominating clear_interval with matching position/size, same-key replacement, overlap guards, uniform shift; !is_top guard, non-top-returning helper summary, copy, following clear_top_values); crate-wide callers of the mutable iterator",
            "Decides the store discipline that keeps an abstract memory region a set of non-overlapping, non-Top cells: the cell map is private and only written in mem_region.rs (R1); no insert can store Top (R2); "
            "no insert can create an overlap (R3); every caller of the mutable-iterator escape hatch cleans up Top values afterwards (R4). That reads return the last write and the arithmetic of the overlap "
            "tests are not decided.",
            "3/C05", ""),
    "C06": ("operator-table extraction from the merge / append / transform operations of the character-inclusion and brick string domains on normalised THIR terms: resolved set operator (union / intersection, min / max, +) per component and operand, operand order of concatenations, Top cases",
            "Decides ONLY the operator tables: character-inclusion merge (Top-absorbing, certain = intersection, possible = union) and append (unions, Top operand), CharacterSet primitives, order of bricks in an append, the brick-wise join "
            "(strings union, min of mins, max of maxes, thresholds only widen) and the bound formulas of three normalisation transforms. Each entry is a necessary condition of 'merge represents every member of either input' / 'append represents every concatenation' / "
            "'normalisation keeps the language'. Language preservation of BricksDomain::normalize / widen as a whole (which rule fires when, list padding) is NOT decided.",
            "3/C06", ""),
    "C07": ("field-visibility facts + writer enumeration (who-may-write); change=>enqueue pairing on path conditions; lost-node analysis of the dequeue loops on normalised terms; merge-test provenance (old vs new value); deliberately no ordering rule",
            "Decides the worklist invariant of fixpoint::Computation from which least-solution-for-any-order follows for monotone clients: state fields are private and written only by known methods (R1); "
            "every write of a node value enqueues that node's priority on the same path (R2); every dequeued node is processed or remembered, every outgoing edge updated, every Some result merged into the end node, "
            "and a merged value stored exactly when it differs from the OLD value (R3); steps<max guards processing with the increment, has_stabilized <=> empty worklist (R4); priority lists contain every node (R5). "
            "Edits that only change the processing order stay silent (seeded negative control). Monotonicity/finite height of clients is not decided.",
            "3/C07", ""),
    "C08": ("per-Jmp-variant set of constructed Edge variants (callee closure over GraphBuilder methods) vs. the specification table; path conditions of stub/call edges; endpoint provenance of the call/return linkage; crate-wide who-may-call of add_node/add_edge/update_edge on CFG-typed graphs; argument pass-through of the untaken-conditional marking; loop shape and stage order",
            "Decides the edge tables of the CFG builder: edge kinds per jump kind with the conditions for stub/call/return-linkage edges, block node pairs and the Block edge (R1); only GraphBuilder adds nodes/edges and parallel edges "
            "are never merged (R2); the fall-through edge carries the untaken conditional into Edge::Jump unchanged (R3); all blocks/return sites/queued block ends are visited, stages run in dependency order and a node pair is "
            "created only on a lookup miss (R4). The exact edge multiset of a concrete program is not decided.",
            "3/C08", ""),
    "C09": ("block-target slot universe derived from the Jmp type definition; slot-coverage sibling cross-check over the four passes that repair/follow/rename block targets (bindings followed through nested destructuring); per-term-level insertion analysis of the duplicate-tid pass; statement-order analysis of normalize_basic",
            "Decides slot agreement and pass order of basic normalisation: every pass over block targets treats every Tid/Option<Tid> field of Jmp (except the callee) and Blk.indirect_jmp_targets (R1); duplicate removal "
            "covers all five term levels in one set and block cloning re-suffixes block/def/jmp ids (R2); normalize_basic runs all five passes with dedup, sink creation and reference repair before block duplication (R3); "
            "non-returning calls return to the enclosing function's sink, which is added (R4). A pure refactoring of normalize_basic stays silent (seeded negative control). The joint behaviour on arbitrary irregular "
            "inputs is not decided.",
            "3/C09", ""),
    "C11": ("match tables of the three mnemonic conversions (patterns/constructed variants resolved by the compiler) compared by normalised name, injectivity and dispatch consistency; field provenance of every lifted operand vs. the P-Code operand convention; slot coverage of the implicit-RAM-access pass and of sub-register substitution",
            "Decides the translation tables of the lifter: each P-Code mnemonic maps to the like-named IR operation, injectively and consistently with the dispatch (R1); operand positions follow the P-Code convention for "
            "binary/unary/COPY/SUBPIECE/casts/LOAD/STORE and outputs with an address become Stores (R2); every operand slot (input0/1/2, indirect jump/call targets, all Expression slots of Def/Jmp) is lifted / substituted, "
            "with distinct temporaries (R3). Block-level equivalence under register aliasing is not decided.",
            "3/C11", ""),
    "C10": ("slot coverage derived from the Def/Jmp type definitions; gen/kill analysis of retain predicates (closure parameters, upvars) with sibling cross-check of the two transfer functions; match-table and path-condition polarity checks",
            "Decides the dataflow side conditions of the optimising passes: liveness makes every Expression slot of Def/Jmp alive and kills before it gens (R1); only Assign is deleted, only when "
            "not alive, iterating backwards (R2); both expression-propagation transfer functions kill, for Assign and Load, the entry keyed by the defined variable and all entries mentioning it, "
            "and reset at calls/returns (R3); control-flow propagation retargets call returns without known conditions, invalidates the precondition for every defining variant, keeps edge-condition "
            "polarity and never bypasses blocks with defs (R4). Each clause is necessary for behaviour preservation; semantic equivalence and the algebraic rewrites are not decided.",
            "3/C10", ""),
    "C12": ("size type-checking by abstract interpretation of THIR bodies (rules/lib/sizealg.py): path enumeration through if / if-let / match arms / or-patterns / guards / small callees; size-relevant guards become linear equations; "
            "symbolic byte sizes of expression shapes; obligations decided by Gaussian elimination modulo the path equations; result-size classes extracted from Expression::bytesize",
            "Decides, for every well-sized input of each pass (assume/guarantee), that (R1) every in-place rewrite `*self = E` of an Expression in trivial_operation_substitution / expression.rs / stack-alignment substitution preserves the size and builds a well-sized E, "
            "(R2) every Def::Assign constructed by the lifting and sub-register passes stores a value of the variable's size -- including all three placement branches of the PIECE construction and the SUBPIECE/cast lifting -- and "
            "(R3) substitute_input_var is called with a replacement of the variable's size. A non-zero residual over free size symbols is reported as a violation (some well-sized input breaks it); values the interpreter cannot size are undecided. "
            "Not decided: sizes related only through data invariants of maps (expression propagation's table), pointer-size of load/store addresses, and the size-consistency of the extractor's P-Code.",
            "3/C12", ""),
    "C13": ("table extraction from the conditional-refinement code of the pointer inference: match arms per comparison operator and constant side, resolved callee names of the bound methods, +-1 adjustments with their extreme-value guards, refined operand, negation / equality / inverse-arithmetic / boolean tables, polarity at conditional jumps; each entry compared with what the operator's semantics dictates",
            "Decides ONLY the branch-refinement tables of the pointer inference (State::specialize_by_expression_result and friends, Context::specialize_conditional, the polarity handed over by the fixpoint): a wrong entry makes the analysis drop values that do occur on a branch or call a reachable block unreachable, i.e. each entry is a necessary condition of C13. "
            "The property as a whole -- every concrete register value at every reached block is represented by the fixpoint's state, for all programs and initial states -- is NOT decided: no static argument in reach bounds what the abstract states contain (widening, stack tracking, memory model, the interval arithmetic of C02/C04).",
            "3/C13", ""),
    "C14": ("Expression-slot universe derived from the Def/Jmp type definitions; slot-coverage of the read-flag setters per transfer function (receiver must be the returned state; order before the register overwrite); loop-shape analysis of the entry-state constructor; field-wise join analysis of AccessPattern::merge and the map strategy read from the field type; guard vocabulary of the parameter extraction",
            "Decides the conditions without which a register parameter cannot be recorded: every parameter register (integer and float inputs) is tracked from the entry (R1); every Expression slot of Def/Jmp is read-flagged "
            "on the returned state before the defined register is overwritten (R2); tracked ids are merged with the union strategy and flags joined with || (R3); extraction keeps every accessed register parameter (R4). "
            "The path-sensitive 'read before overwritten on some path' is not decided.",
            "3/C14", ""),
    "C15": ("match tables and guards of cwe_476::Context and the TaintAnalysis defaults compared with the rows of the property (sink variants derived from the Def type; state-before-definition provenance of the evaluated state; both positions of (jump, untaken conditional); declared vs calling-convention parameters; warning/stop pairing via path conditions; per-source computation and ordered dedup)",
            "Decides the per-edge / per-definition action table of the NULL-dereference taint analysis (R1..R8): which definitions are sinks and on which state their address is evaluated, that both outcomes of a check stop "
            "the taint without warning, extern vs generic call handling including clobbering, return handling, register overwrite, that every stop after a positive taint test is paired with a warning, and one "
            "computation per configured source call with ordered dedup. The iff over all paths of all programs is not decided.",
            "3/C15", ""),
    "C16": ("loop-shape and early-exit analysis of the shared call enumerators; pattern/variant analysis of the call match and map-membership test; one-record/one-warning counting; truth tables of CWE332/CWE426 decisions with provenance of looked-up names to configuration components and literals",
            "Decides enumeration and decision shape of the syntactic call-site checkers: the enumerators visit every jump of every block, match exactly Jmp::Call by membership of the target in the symbol map and emit one record "
            "per call; each checker emits one warning per record over all functions (R1); CWE332 warns iff generator (second pair component) present and initializer (first) absent, CWE426 iff the same function calls "
            "system and a privileged function, fixed symbols are 'system'/'ioctl', name lookups are equality (R2); configured lists drive CWE676/CWE426 (R3). The warning multiset of a program is not decided.",
            "3/C16", ""),
    "C17": ("match table over graph::Edge vs. the set of function-leaving edge kinds; path conditions of warning sites evaluated as a truth table over atoms; provenance of query arguments; panic-site audit against CFG construction facts",
            "Decides the traversal and decision tables of the reachability checkers: followed edge kinds (R1), sink/source tests and visited guard (R2), CWE367 start node and pair order, CWE243 "
            "warn-decision truth table over (chdir imported, successor exists, chdir reachable, calls chdir+privilege drop) (R3), and totality: no first-neighbour unwrap on BlkEnd nodes (R4). "
            "The set of warnings for a concrete program is not decided.",
            "3/C17", ""),
    "C18": ("exact integer satisfying-set of is_chmod_style_arg (interval arithmetic over u64, statics resolved to their literal initialisers) compared with the set in the statement; equality/any-shape analysis of the pointer-size test; replay-shape analysis (fresh state, complete in-order loop, Def match table with argument positions); concrete-value gating of warnings",
            "Decides the decision predicate and the replay shape of the constant-argument checkers: is_chmod_style_arg accepts exactly [0o200,0o776] U [0o1000,2^64-1] (equivalent spellings pass - seeded negative control), the "
            "sizeof check compares a parameter for equality with the stack pointer register's size for any parameter (R1); the argument is computed on a fresh state replaying every Def of the call block in order with "
            "the right operand positions, and a warning requires a single concrete value, otherwise a log (R2). That the replay computes the right constant is C01/C13 territory.",
            "3/C18", ""),
    "C19": ("THIR condition extraction + symbolic normalisation; one-sided/inclusive boundary comparison rule with sibling cross-check; flag/name agreement; constructor field provenance",
            "Decides boundary, flag and byte-order agreement of the global-memory queries: every containment test of a point against a segment is `base <= p < base+len` (R1), "
            "read() yields unknown content exactly under write_flag and the *_writeable/*_readable queries return the like-named flag (R2), bytes are reversed iff little endian and "
            "accumulated most-significant first (R3), MemorySegment constructors fill each flag from the same permission (R4). A violated clause mis-attributes boundary addresses "
            "or flags for some segment layout; the byte contents for a given image are not decided.",
            "3/C19", ""),
    "C20": ("regex literal read from THIR and parsed with the repo's regex-syntax crate; finite-language/table agreement; leftmost-first matcher over the HIR probing every conversion token and the %% escape",
            "Decides agreement between the format-specifier grammar (the regex literal), the Datatype::from string table, the size table and the parameter-location table (R1), "
            "longest-length-form priority and rejection of long/long long/long double (R2), the `%%` escape (R3), char promotion (R4) and that each of the 2025 conversion tokens "
            "flag x width x precision x conversion is matched whole with the right capture (R5). Register/stack placement of the parameters is not decided.",
            "3/C20", "regex crate = leftmost-first semantics over regex-syntax HIR"),
    "C21": ("serde struct definitions (compiler item table) matched against the shipped JSON configuration; resolved call-graph reachability of unwraps of optional analysis results vs. the prerequisite tables read from THIR; statement-order analysis; argument provenance of CweWarning::new",
            "Decides the contracts around the pipeline that a run needs in order to complete and print well-formed output: every check's configuration struct fits config.json/lkm_config.json (R1); every check "
            "that unwraps pointer-inference/function-signature/string-abstraction results is declared in run_with_ghidra's tables and the analyses are computed in dependency order (R2); warnings are sorted "
            "after the last append and before printing, JSON serialises the whole vector, --quiet empties logs (R3); every warning carries name and version of the emitting check (R4). General panic freedom "
            "of the analyses is not decided.",
            "3/C21", ""),
    "C22": ("item-table enumeration of CweModule statics vs. get_modules(); if/else-if chain and retain-predicate normal forms in run_with_ghidra with constants resolved to registry values; statement-order analysis on the top-level sequence",
            "Decides the selection formula: registry completeness/uniqueness and module listing before any filter (R1); partial > kernel-module > default chain with exact predicates (default removes exactly "
            "cwe_78::CWE_MODULE.name, LKM keeps exactly MODULES_LKM), no other mutation of the module list, every remaining module run once with config[module.name] (R2); partial filter by full-name equality with "
            "panic on unknown names (R3). Which warnings a selected check emits is not decided.",
            "3/C22", ""),
    "C23": ("type-resolved enumeration of every iteration over std hash containers with the default RandomState hasher (both crates); consumer classification (method-chain terminal / for-loop body effects); selection-in-hash-order rule for elements that are or flow into warnings; final-sort dominance and derived total order of CweWarning",
            "Decides hash-order flow into the warning output: all warnings are sorted by a derived total order after the last module and before printing, and exactly that vector is printed (R2), so production order cannot show; "
            "no first-match/n-th/truncating/early-exit/last-writer selection is made in hash order among warnings or elements flowing into warnings (R1). All other order-sensitive sites (IR, analysis states, unsorted logs) "
            "are listed as notes (R3) - whether they change the warnings of some input cannot be decided from the shape of the code. Thread scheduling is covered by C25.",
            "3/C23", ""),
    "C24": ("loop/condition shape of get_program_callgraph; resolved Direction constants of neighbors_directed/edges_directed per traversal (contradiction rule), start-node and visited/edge-set provenance; normal form of the result expression (iterated set, membership test, mapping)",
            "Decides construction and direction agreement of the call-sequence query: every function is a node and every direct call to an internal function its own edge (self-calls included, parallel calls kept) (R1); "
            "each traversal follows and collects in one direction, the two use opposite directions and start at source resp. target, expand on first visit, with separate visited and edge sets (R2); the result keeps an "
            "edge of one set iff the other contains it and reports the call's tid, and the public entry passes source/target in order (R3). Exactness on a given graph is not decided.",
            "3/C24", ""),
    "C25": ("statement-order analysis (Terminate before join); channel-end provenance in spawn(); classification of every exit of the receive loop by match arm / loop condition; match table over LogThreadMsg with the container operation per arm; container data flow into the result",
            "Decides the channel protocol from which delivery follows given a FIFO channel: Terminate is sent unconditionally before join on the channel handed out by get_msg_sender, the channel is unbounded "
            "and its receiver goes to the collector (R1); the collector uses blocking recv and leaves its loop only on Terminate/disconnect, skipping nothing (R2); address-less logs are pushed in order, located "
            "logs and warnings stored with last-wins insert by address, no container is reordered/pruned and all reach the result (R3); CWE476 drains its private channel after all computations (R4). "
            "Thread schedules are not explored.",
            "3/C25", "crossbeam_channel::unbounded is a linearizable FIFO channel"),
}

NOT_APPLICABLE = {
}

ALL = ["C%02d" % i for i in range(1, 26)]


def main():
    checks = []
    for pid in ALL:
        if pid not in CLAIMED:
            continue
        tech, text, ref, note = CLAIMED[pid]
        checks.append({
            "property_id": pid,
            "quick_cmd": "./check %s --tier quick" % pid,
            "thorough_cmd": "./check %s --tier thorough" % pid,
            "evidence_file": "/verif/evidence/%s.json" % pid,
            "replay_cmd_template": "./check %s --replay {path}" % pid,
            "engine": "rules",
            "level_claimed": {"category": "other", "text": text, "design_ref": "DESIGN.md section " + ref},
            "level_note": TRUST + (" " + note if note else ""),
            "technique": "static analysis: " + tech,
        })
    na = []
    for pid in ALL:
        if pid in CLAIMED:
            continue
        reason = NOT_APPLICABLE.get(pid, "static check for this property is designed (DESIGN.md section 3) but not built yet; not claimed until it is")
        na.append({"property_id": pid, "reason": reason})
    m = {
        "version": 1,
        "setup_cmd": "./setup.sh",
        "hooks": {
            "guard": "cwe_checker_verif",
            "enable": "no hooks are needed: all checks read the compiler's THIR of the unmodified sources",
            "baseline_off_cmd": "cd /repo && cargo test --workspace --no-fail-fast --offline",
            "source_commits": [],
            "add_only": True,
        },
        "engines": [
            {"name": "factgen", "path": "tools/factgen", "serves_properties": sorted(CLAIMED), "kind_free_text": "rustc_private driver (nightly) dumping THIR bodies, ADT definitions and impls of /repo's current working tree as JSON facts"},
            {"name": "rules", "path": "rules", "serves_properties": sorted(CLAIMED), "kind_free_text": "python3 rule engine: match tables, slot coverage, sibling cross-checks, guard normal forms, dominance on a CFG lowered from THIR"},
        ],
        "checks": checks,
        "not_applicable": na,
        "notes": "Static analysis only: no check executes cwe_checker code or its tests. Genuine defects found and repaired are recorded in known_findings.json (fixed:).",
    }
    with open(os.path.join(VERIF, "MANIFEST.json"), "w") as f:
        json.dump(m, f, indent=1)
        f.write("\n")


if __name__ == "__main__":
    main()
