#!/bin/bash
# seed_official.sh [ids...]: for each stored seed: git -C /repo apply patch; ./check <prop>; git -C /repo checkout -- .
# Writes /verif/seeded/RESULTS.json (which violation keys each seeded change produces).
cd /verif
ids=${@:-$(ls seeded | grep -E '^C[0-9]+')}
[ -z "$(git -C /repo status --porcelain)" ] || { echo "/repo not clean"; exit 2; }
out=/verif/seeded/RESULTS.json
python3 - "$out" <<'PY'
import json,sys,os
p=sys.argv[1]
if not os.path.exists(p): json.dump({},open(p,"w"))
PY
for id in $ids; do
  prop=${id:0:3}
  git -C /repo apply --whitespace=nowarn /verif/seeded/$id/patch.diff || { echo "$id: patch does not apply"; continue; }
  ./check $prop > /tmp/seed_official_$id.log 2>&1; ec=$?
  git -C /repo checkout -- . ; git -C /repo clean -fdq -- src 2>/dev/null
  python3 - "$out" "$id" "$ec" /tmp/seed_official_$id.log <<'PY'
import json,sys,re
p,i,ec,log=sys.argv[1:]
t=open(log).read()
keys=sorted(set(re.findall(r"violated: (\S+)",t)))
und=sorted(set(re.findall(r"UNDECIDED: (\S+)",t)))
viol=re.findall(r"^VIOLATION .*$",t,re.M)
d=json.load(open(p)); d[i]={"exit":int(ec),"violation_lines":len(viol),"violated_keys":keys[:8],"undecided_keys":und[:8],"caught":int(ec)==1 and bool(viol)}
json.dump(d,open(p,"w"),indent=1,sort_keys=True)
print(i,"exit",ec,"caught" if d[i]["caught"] else "MISSED",keys[:3],und[:2])
PY
  rm -f /tmp/seed_official_$id.log
done
[ -z "$(git -C /repo status --porcelain)" ] && echo "/repo clean again"
