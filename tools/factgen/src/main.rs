//! factgen: a rustc driver that dumps a compact JSON description of the type-checked
//! program (THIR of every body, ADT definitions, impls) for the rule engine in /verif/rules.
//!
//! Used as RUSTC_WORKSPACE_WRAPPER under `cargo +nightly check`. argv[1] is the real rustc.
//! Facts are written to $FACTGEN_OUT/<crate>.json for the crates named in $FACTGEN_CRATES
//! (comma separated); every other crate is compiled unchanged.
#![feature(rustc_private)]
#![allow(clippy::all)]

extern crate rustc_abi;
extern crate rustc_ast;
extern crate rustc_driver;
extern crate rustc_hir;
extern crate rustc_interface;
extern crate rustc_middle;
extern crate rustc_span;

use rustc_hir::def::DefKind;
use rustc_hir::def_id::{DefId, LocalDefId};
use rustc_middle::thir::{self, ExprId, ExprKind, Pat, PatKind, StmtKind, Thir};
use rustc_middle::ty::print::with_no_trimmed_paths;
use rustc_middle::ty::{self, Ty, TyCtxt};
use rustc_span::Span;
use std::collections::HashMap;
use std::fmt::Write as _;

fn esc(s: &str) -> String {
    let mut o = String::with_capacity(s.len() + 2);
    o.push('"');
    for c in s.chars() {
        match c {
            '"' => o.push_str("\\\""),
            '\\' => o.push_str("\\\\"),
            '\n' => o.push_str("\\n"),
            '\r' => o.push_str("\\r"),
            '\t' => o.push_str("\\t"),
            c if (c as u32) < 0x20 => {
                let _ = write!(o, "\\u{:04x}", c as u32);
            }
            c => o.push(c),
        }
    }
    o.push('"');
    o
}

struct Interner {
    map: HashMap<String, usize>,
    list: Vec<String>,
}
impl Interner {
    fn new() -> Self {
        Interner { map: HashMap::new(), list: Vec::new() }
    }
    fn get(&mut self, s: String) -> usize {
        if let Some(i) = self.map.get(&s) {
            return *i;
        }
        let i = self.list.len();
        self.map.insert(s.clone(), i);
        self.list.push(s);
        i
    }
}

struct Cx<'tcx> {
    tcx: TyCtxt<'tcx>,
    types: Interner,
    files: Interner,
}

impl<'tcx> Cx<'tcx> {
    fn ty(&mut self, t: Ty<'tcx>) -> usize {
        let s = with_no_trimmed_paths!(format!("{}", t));
        self.types.get(s)
    }
    fn path(&self, d: DefId) -> String {
        with_no_trimmed_paths!(self.tcx.def_path_str(d))
    }
    fn span(&mut self, sp: Span) -> String {
        // [file, lo_line, lo_col, hi_line, hi_col] of the *source callsite* (macro-expanded
        // spans are mapped to the place of the outermost macro invocation), x = from_expansion
        let sm = self.tcx.sess.source_map();
        let x = sp.from_expansion();
        let sp2 = sp.source_callsite();
        let lo = sm.lookup_char_pos(sp2.lo());
        let hi = sm.lookup_char_pos(sp2.hi());
        let fname = format!("{}", lo.file.name.prefer_local_unconditionally());
        let f = self.files.get(fname);
        format!(
            "\"sp\":[{},{},{},{},{}]{}",
            f,
            lo.line,
            lo.col.0,
            hi.line,
            hi.col.0,
            if x { ",\"x\":1" } else { "" }
        )
    }
    fn adt_of(&self, t: Ty<'tcx>) -> Option<ty::AdtDef<'tcx>> {
        match t.kind() {
            ty::Adt(d, _) => Some(*d),
            ty::Ref(_, inner, _) => self.adt_of(*inner),
            _ => None,
        }
    }
}

struct BodyCx<'a, 'tcx> {
    cx: &'a mut Cx<'tcx>,
    thir: &'a Thir<'tcx>,
    owner: LocalDefId,
    ncalls: usize,
    nexprs: usize,
}

impl<'a, 'tcx> BodyCx<'a, 'tcx> {
    fn generic_args(&mut self, args: ty::GenericArgsRef<'tcx>) -> String {
        let mut o = String::from("[");
        let mut first = true;
        for a in args.iter() {
            if let Some(_) = a.as_region() {
                continue;
            }
            if !first {
                o.push(',');
            }
            first = false;
            let s = with_no_trimmed_paths!(format!("{}", a));
            o.push_str(&esc(&s));
        }
        o.push(']');
        o
    }

    fn fn_ref(&mut self, did: DefId, args: ty::GenericArgsRef<'tcx>) -> String {
        let tcx = self.cx.tcx;
        let mut o = format!("\"f\":{},\"ga\":{}", esc(&self.cx.path(did)), self.generic_args(args));
        let name = tcx.opt_item_name(did).map(|s| s.to_string()).unwrap_or_default();
        let _ = write!(o, ",\"n\":{}", esc(&name));
        if let Some(tr) = tcx.trait_of_assoc(did) {
            let _ = write!(o, ",\"tr\":{}", esc(&self.cx.path(tr)));
            // try to resolve to the impl method
            let env = ty::TypingEnv::post_analysis(tcx, self.owner.to_def_id());
            let dk = tcx.def_kind(did);
            if matches!(dk, DefKind::AssocFn) {
                let res = std::panic::catch_unwind(std::panic::AssertUnwindSafe(|| {
                    ty::Instance::try_resolve(tcx, env, did, args)
                }));
                if let Ok(Ok(Some(inst))) = res {
                    let rd = inst.def_id();
                    if rd != did {
                        let _ = write!(o, ",\"r\":{}", esc(&self.cx.path(rd)));
                        if let Some(imp) = tcx.impl_of_assoc(rd) {
                            let st = tcx.type_of(imp).instantiate_identity().skip_norm_wip();
                            let s = with_no_trimmed_paths!(format!("{}", st));
                            let _ = write!(o, ",\"rs\":{}", esc(&s));
                        }
                    }
                }
            }
        } else if let Some(imp) = tcx.impl_of_assoc(did) {
            // inherent method: self type of the impl
            let st = tcx.type_of(imp).instantiate_identity().skip_norm_wip();
            let s = with_no_trimmed_paths!(format!("{}", st));
            let _ = write!(o, ",\"is\":{}", esc(&s));
        }
        if !did.is_local() {
            let _ = write!(o, ",\"cr\":{}", esc(tcx.crate_name(did.krate).as_str()));
        }
        o
    }

    fn lit_value(&self, lit: &rustc_hir::Lit, neg: bool) -> String {
        use rustc_ast::LitKind::*;
        match &lit.node {
            Str(s, _) => format!("\"lt\":\"str\",\"v\":{}", esc(s.as_str())),
            ByteStr(b, _) | CStr(b, _) => {
                format!("\"lt\":\"bytes\",\"v\":{}", esc(&String::from_utf8_lossy(b.as_byte_str())))
            }
            Byte(b) => format!("\"lt\":\"int\",\"v\":{}", b),
            Char(c) => format!("\"lt\":\"char\",\"v\":{}", esc(&c.to_string())),
            Int(n, _) => {
                // emit as string when beyond i64 to keep JSON parsers happy
                let n = n.get();
                if n <= i64::MAX as u128 {
                    format!("\"lt\":\"int\",\"v\":{}{}", if neg { "-" } else { "" }, n)
                } else {
                    format!("\"lt\":\"bigint\",\"v\":\"{}{}\"", if neg { "-" } else { "" }, n)
                }
            }
            Float(s, _) => format!("\"lt\":\"float\",\"v\":{}", esc(s.as_str())),
            Bool(b) => format!("\"lt\":\"bool\",\"v\":{}", b),
            Err(_) => "\"lt\":\"err\"".to_string(),
        }
    }

    fn expr(&mut self, id: ExprId) -> String {
        self.expr_sc(id, None)
    }

    fn expr_sc(&mut self, id: ExprId, scope: Option<u32>) -> String {
        let e = &self.thir[id];
        // unwrap Scope
        if let ExprKind::Scope { region_scope, value, .. } = &e.kind {
            return self.expr_sc(*value, Some(region_scope.local_id.as_u32()));
        }
        self.nexprs += 1;
        let t = self.cx.ty(e.ty);
        let mut o = String::new();
        let sp = self.cx.span(e.span);
        let _ = write!(o, "{{\"t\":{},{}", t, sp);
        if let Some(s) = scope {
            let _ = write!(o, ",\"sc\":{}", s);
        }
        if let Some(dk) = e.span.desugaring_kind() {
            let _ = write!(o, ",\"ds\":{}", esc(&format!("{:?}", dk)));
        }
        match &e.kind {
            ExprKind::Scope { .. } => unreachable!(),
            ExprKind::If { cond, then, else_opt, .. } => {
                let c = self.expr(*cond);
                let th = self.expr(*then);
                let _ = write!(o, ",\"k\":\"If\",\"c\":{},\"th\":{}", c, th);
                if let Some(el) = else_opt {
                    let el = self.expr(*el);
                    let _ = write!(o, ",\"el\":{}", el);
                }
            }
            ExprKind::Call { ty: fty, fun, args, from_hir_call, .. } => {
                self.ncalls += 1;
                let _ = write!(o, ",\"k\":\"Call\"");
                match fty.kind() {
                    ty::FnDef(did, ga) => {
                        let fr = self.fn_ref(*did, ga);
                        let _ = write!(o, ",{}", fr);
                    }
                    _ => {
                        let fe = self.expr(*fun);
                        let _ = write!(o, ",\"fe\":{}", fe);
                    }
                }
                if !*from_hir_call {
                    let _ = write!(o, ",\"op\":1");
                }
                let _ = write!(o, ",\"a\":[");
                for (i, a) in args.iter().enumerate() {
                    if i > 0 {
                        o.push(',');
                    }
                    let s = self.expr(*a);
                    o.push_str(&s);
                }
                o.push(']');
            }
            ExprKind::ByUse { expr, .. } => {
                let s = self.expr(*expr);
                let _ = write!(o, ",\"k\":\"Use\",\"e\":{}", s);
            }
            ExprKind::Deref { arg } => {
                let s = self.expr(*arg);
                let _ = write!(o, ",\"k\":\"Deref\",\"e\":{}", s);
            }
            ExprKind::Binary { op, lhs, rhs } => {
                let l = self.expr(*lhs);
                let r = self.expr(*rhs);
                let _ = write!(o, ",\"k\":\"Binary\",\"o\":\"{:?}\",\"l\":{},\"r\":{}", op, l, r);
            }
            ExprKind::LogicalOp { op, lhs, rhs } => {
                let l = self.expr(*lhs);
                let r = self.expr(*rhs);
                let _ = write!(o, ",\"k\":\"Logical\",\"o\":\"{:?}\",\"l\":{},\"r\":{}", op, l, r);
            }
            ExprKind::Unary { op, arg } => {
                let a = self.expr(*arg);
                let _ = write!(o, ",\"k\":\"Unary\",\"o\":\"{:?}\",\"e\":{}", op, a);
            }
            ExprKind::Cast { source } => {
                let a = self.expr(*source);
                let _ = write!(o, ",\"k\":\"Cast\",\"e\":{}", a);
            }
            ExprKind::Use { source } => {
                let a = self.expr(*source);
                let _ = write!(o, ",\"k\":\"Use\",\"e\":{}", a);
            }
            ExprKind::NeverToAny { source } => {
                let a = self.expr(*source);
                let _ = write!(o, ",\"k\":\"NeverToAny\",\"e\":{}", a);
            }
            ExprKind::PointerCoercion { source, cast, .. } => {
                let a = self.expr(*source);
                let _ = write!(o, ",\"k\":\"Coerce\",\"c\":{},\"e\":{}", esc(&format!("{:?}", cast)), a);
            }
            ExprKind::Loop { body } => {
                let a = self.expr(*body);
                let _ = write!(o, ",\"k\":\"Loop\",\"b\":{}", a);
            }
            ExprKind::LoopMatch { .. } => {
                let _ = write!(o, ",\"k\":\"Unsupported\",\"what\":\"LoopMatch\"");
            }
            ExprKind::Let { expr, pat } => {
                let a = self.expr(*expr);
                let p = self.pat(pat);
                let _ = write!(o, ",\"k\":\"Let\",\"e\":{},\"p\":{}", a, p);
            }
            ExprKind::Match { scrutinee, arms, match_source } => {
                let s = self.expr(*scrutinee);
                let _ = write!(o, ",\"k\":\"Match\",\"ms\":{},\"e\":{},\"arms\":[", esc(&format!("{:?}", match_source)), s);
                for (i, a) in arms.iter().enumerate() {
                    if i > 0 {
                        o.push(',');
                    }
                    let arm = &self.thir[*a];
                    let p = self.pat(&arm.pattern);
                    let b = self.expr(arm.body);
                    let asp = self.cx.span(arm.span);
                    let _ = write!(o, "{{\"p\":{},\"b\":{},{}", p, b, asp);
                    if let Some(g) = arm.guard {
                        let g = self.expr(g);
                        let _ = write!(o, ",\"g\":{}", g);
                    }
                    o.push('}');
                }
                o.push(']');
            }
            ExprKind::Block { block } => {
                let b = self.block(*block);
                let _ = write!(o, ",\"k\":\"Block\",{}", b);
            }
            ExprKind::Assign { lhs, rhs } => {
                let l = self.expr(*lhs);
                let r = self.expr(*rhs);
                let _ = write!(o, ",\"k\":\"Assign\",\"l\":{},\"r\":{}", l, r);
            }
            ExprKind::AssignOp { op, lhs, rhs } => {
                let l = self.expr(*lhs);
                let r = self.expr(*rhs);
                let _ = write!(o, ",\"k\":\"AssignOp\",\"o\":\"{:?}\",\"l\":{},\"r\":{}", op, l, r);
            }
            ExprKind::Field { lhs, variant_index, name } => {
                let lty = self.thir[*lhs].ty;
                let l = self.expr(*lhs);
                let _ = write!(o, ",\"k\":\"Field\",\"fi\":{}", name.as_u32());
                if let ty::Adt(def, _) = lty.kind() {
                    let v = def.variant(*variant_index);
                    let fname = v.fields[*name].name.to_string();
                    let _ = write!(o, ",\"adt\":{},\"fn\":{}", esc(&self.cx.path(def.did())), esc(&fname));
                    if def.is_enum() {
                        let _ = write!(o, ",\"v\":{}", esc(v.name.as_str()));
                    }
                }
                let _ = write!(o, ",\"e\":{}", l);
            }
            ExprKind::Index { lhs, index } => {
                let l = self.expr(*lhs);
                let r = self.expr(*index);
                let _ = write!(o, ",\"k\":\"Index\",\"l\":{},\"r\":{}", l, r);
            }
            ExprKind::VarRef { id } => {
                let n = self.cx.tcx.hir_name(id.0);
                let _ = write!(o, ",\"k\":\"Var\",\"id\":{},\"n\":{}", id.0.local_id.as_u32(), esc(n.as_str()));
            }
            ExprKind::UpvarRef { var_hir_id, .. } => {
                let n = self.cx.tcx.hir_name(var_hir_id.0);
                let _ = write!(o, ",\"k\":\"Upvar\",\"id\":{},\"n\":{}", var_hir_id.0.local_id.as_u32(), esc(n.as_str()));
            }
            ExprKind::Borrow { borrow_kind, arg } => {
                let a = self.expr(*arg);
                let m = matches!(borrow_kind, rustc_middle::mir::BorrowKind::Mut { .. });
                let _ = write!(o, ",\"k\":\"Borrow\",\"m\":{},\"e\":{}", if m { 1 } else { 0 }, a);
            }
            ExprKind::RawBorrow { arg, .. } => {
                let a = self.expr(*arg);
                let _ = write!(o, ",\"k\":\"RawBorrow\",\"e\":{}", a);
            }
            ExprKind::Break { label, value } => {
                let _ = write!(o, ",\"k\":\"Break\",\"lbl\":{}", label.local_id.as_u32());
                if let Some(v) = value {
                    let v = self.expr(*v);
                    let _ = write!(o, ",\"e\":{}", v);
                }
            }
            ExprKind::Continue { label } => {
                let _ = write!(o, ",\"k\":\"Continue\",\"lbl\":{}", label.local_id.as_u32());
            }
            ExprKind::ConstContinue { .. } => {
                let _ = write!(o, ",\"k\":\"Unsupported\",\"what\":\"ConstContinue\"");
            }
            ExprKind::Return { value } => {
                let _ = write!(o, ",\"k\":\"Return\"");
                if let Some(v) = value {
                    let v = self.expr(*v);
                    let _ = write!(o, ",\"e\":{}", v);
                }
            }
            ExprKind::Become { value } => {
                let v = self.expr(*value);
                let _ = write!(o, ",\"k\":\"Return\",\"e\":{}", v);
            }
            ExprKind::ConstBlock { did, .. } => {
                let _ = write!(o, ",\"k\":\"ConstBlock\",\"d\":{}", esc(&self.cx.path(*did)));
            }
            ExprKind::Repeat { value, .. } => {
                let v = self.expr(*value);
                let _ = write!(o, ",\"k\":\"Repeat\",\"e\":{}", v);
            }
            ExprKind::Array { fields } | ExprKind::Tuple { fields } => {
                let k = if matches!(e.kind, ExprKind::Array { .. }) { "Array" } else { "Tuple" };
                let _ = write!(o, ",\"k\":\"{}\",\"es\":[", k);
                for (i, a) in fields.iter().enumerate() {
                    if i > 0 {
                        o.push(',');
                    }
                    let s = self.expr(*a);
                    o.push_str(&s);
                }
                o.push(']');
            }
            ExprKind::Adt(adt) => {
                let def = adt.adt_def;
                let v = def.variant(adt.variant_index);
                let _ = write!(o, ",\"k\":\"Adt\",\"adt\":{},\"v\":{},\"fs\":{{", esc(&self.cx.path(def.did())), esc(v.name.as_str()));
                for (i, f) in adt.fields.iter().enumerate() {
                    if i > 0 {
                        o.push(',');
                    }
                    let fname = v.fields[f.name].name.to_string();
                    let s = self.expr(f.expr);
                    let _ = write!(o, "{}:{}", esc(&fname), s);
                }
                o.push('}');
                if let thir::AdtExprBase::Base(fru) = &adt.base {
                    let b = self.expr(fru.base);
                    let _ = write!(o, ",\"base\":{}", b);
                }
            }
            ExprKind::PlaceTypeAscription { source, .. }
            | ExprKind::ValueTypeAscription { source, .. }
            | ExprKind::PlaceUnwrapUnsafeBinder { source }
            | ExprKind::ValueUnwrapUnsafeBinder { source }
            | ExprKind::WrapUnsafeBinder { source } => {
                let a = self.expr(*source);
                let _ = write!(o, ",\"k\":\"Use\",\"e\":{}", a);
            }
            ExprKind::Closure(c) => {
                let _ = write!(o, ",\"k\":\"Closure\",\"d\":{},\"up\":[", esc(&self.cx.path(c.closure_id.to_def_id())));
                for (i, a) in c.upvars.iter().enumerate() {
                    if i > 0 {
                        o.push(',');
                    }
                    let s = self.expr(*a);
                    o.push_str(&s);
                }
                o.push(']');
            }
            ExprKind::Literal { lit, neg } => {
                let v = self.lit_value(lit, *neg);
                let _ = write!(o, ",\"k\":\"Lit\",{}", v);
            }
            ExprKind::NonHirLiteral { lit, .. } => {
                let _ = write!(o, ",\"k\":\"Lit\",\"lt\":\"scalar\",\"v\":{}", esc(&format!("{:?}", lit)));
            }
            ExprKind::ZstLiteral { .. } => match e.ty.kind() {
                ty::FnDef(did, ga) => {
                    let fr = self.fn_ref(*did, ga);
                    let _ = write!(o, ",\"k\":\"FnRef\",{}", fr);
                }
                _ => {
                    let _ = write!(o, ",\"k\":\"Zst\"");
                }
            },
            ExprKind::NamedConst { def_id, .. } => {
                let _ = write!(o, ",\"k\":\"Const\",\"d\":{}", esc(&self.cx.path(*def_id)));
            }
            ExprKind::ConstParam { def_id, .. } => {
                let _ = write!(o, ",\"k\":\"ConstParam\",\"d\":{}", esc(&self.cx.path(*def_id)));
            }
            ExprKind::StaticRef { def_id, .. } => {
                let _ = write!(o, ",\"k\":\"Static\",\"d\":{}", esc(&self.cx.path(*def_id)));
            }
            ExprKind::InlineAsm(_) => {
                let _ = write!(o, ",\"k\":\"Unsupported\",\"what\":\"InlineAsm\"");
            }
            ExprKind::ThreadLocalRef(d) => {
                let _ = write!(o, ",\"k\":\"Static\",\"d\":{}", esc(&self.cx.path(*d)));
            }
            ExprKind::Yield { value } => {
                let v = self.expr(*value);
                let _ = write!(o, ",\"k\":\"Yield\",\"e\":{}", v);
            }
        }
        o.push('}');
        o
    }

    fn block(&mut self, b: thir::BlockId) -> String {
        let blk = &self.thir[b];
        let mut o = String::new();
        if blk.targeted_by_break {
            let _ = write!(o, "\"bsc\":{},", blk.region_scope.local_id.as_u32());
        }
        o.push_str("\"ss\":[");
        let stmts: Vec<_> = blk.stmts.iter().copied().collect();
        for (i, s) in stmts.iter().enumerate() {
            if i > 0 {
                o.push(',');
            }
            let st = &self.thir[*s];
            match &st.kind {
                StmtKind::Expr { expr, .. } => {
                    let e = self.expr(*expr);
                    o.push_str(&e);
                }
                StmtKind::Let { pattern, initializer, else_block, span, .. } => {
                    let p = self.pat(pattern);
                    let sp = self.cx.span(*span);
                    let _ = write!(o, "{{\"k\":\"LetStmt\",{},\"p\":{}", sp, p);
                    if let Some(i) = initializer {
                        let i = self.expr(*i);
                        let _ = write!(o, ",\"i\":{}", i);
                    }
                    if let Some(eb) = else_block {
                        let b = self.block(*eb);
                        let _ = write!(o, ",\"els\":{{\"k\":\"Block\",{}}}", b);
                    }
                    o.push('}');
                }
            }
        }
        o.push(']');
        if let Some(e) = blk.expr {
            let e = self.expr(e);
            let _ = write!(o, ",\"e\":{}", e);
        }
        o
    }

    fn field_pats(&mut self, variant: Option<&ty::VariantDef>, subs: &[thir::FieldPat<'tcx>]) -> String {
        let mut o = String::from("[");
        for (i, fp) in subs.iter().enumerate() {
            if i > 0 {
                o.push(',');
            }
            let p = self.pat(&fp.pattern);
            let fname = variant
                .and_then(|v| v.fields.get(fp.field).map(|f| f.name.to_string()))
                .unwrap_or_else(|| fp.field.as_u32().to_string());
            let _ = write!(o, "{{\"f\":{},\"fi\":{},\"p\":{}}}", esc(&fname), fp.field.as_u32(), p);
        }
        o.push(']');
        o
    }

    fn pats(&mut self, ps: &[Pat<'tcx>]) -> String {
        let mut o = String::from("[");
        for (i, p) in ps.iter().enumerate() {
            if i > 0 {
                o.push(',');
            }
            let s = self.pat(p);
            o.push_str(&s);
        }
        o.push(']');
        o
    }

    fn pat(&mut self, p: &Pat<'tcx>) -> String {
        let t = self.cx.ty(p.ty);
        let mut o = format!("{{\"t\":{}", t);
        match &p.kind {
            PatKind::Missing | PatKind::Wild => {
                o.push_str(",\"k\":\"Wild\"");
            }
            PatKind::Binding { name, mode, var, subpattern, .. } => {
                let by = match mode.0 {
                    rustc_hir::ByRef::No => "val",
                    rustc_hir::ByRef::Yes(_, m) => {
                        if m.is_mut() {
                            "refmut"
                        } else {
                            "ref"
                        }
                    }
                };
                let _ = write!(o, ",\"k\":\"Bind\",\"id\":{},\"n\":{},\"by\":\"{}\"", var.0.local_id.as_u32(), esc(name.as_str()), by);
                if mode.1.is_mut() {
                    o.push_str(",\"mut\":1");
                }
                if let Some(sp) = subpattern {
                    let s = self.pat(sp);
                    let _ = write!(o, ",\"sub\":{}", s);
                }
            }
            PatKind::Variant { adt_def, variant_index, subpatterns, .. } => {
                let v = adt_def.variant(*variant_index);
                let subs = self.field_pats(Some(v), subpatterns);
                let _ = write!(
                    o,
                    ",\"k\":\"Variant\",\"adt\":{},\"v\":{},\"nf\":{},\"sub\":{}",
                    esc(&self.cx.path(adt_def.did())),
                    esc(v.name.as_str()),
                    v.fields.len(),
                    subs
                );
            }
            PatKind::Leaf { subpatterns } => {
                let adt = self.cx.adt_of(p.ty);
                let (v, path) = match adt {
                    Some(d) if d.is_struct() || d.is_union() => (Some(d.non_enum_variant()), Some(self.cx.path(d.did()))),
                    _ => (None, None),
                };
                let subs = self.field_pats(v, subpatterns);
                let _ = write!(o, ",\"k\":\"Leaf\",\"sub\":{}", subs);
                if let Some(pth) = path {
                    let _ = write!(o, ",\"adt\":{}", esc(&pth));
                }
            }
            PatKind::Deref { subpattern, .. } | PatKind::DerefPattern { subpattern, .. } => {
                let s = self.pat(subpattern);
                let _ = write!(o, ",\"k\":\"Deref\",\"p\":{}", s);
            }
            PatKind::Constant { value } => {
                let tcx = self.cx.tcx;
                let mut done = false;
                if let ty::Ref(_, inner, _) = value.ty.kind() {
                    if inner.is_str() {
                        if let Some(bytes) = value.try_to_raw_bytes(tcx) {
                            let _ = write!(o, ",\"k\":\"Const\",\"lt\":\"str\",\"v\":{}", esc(&String::from_utf8_lossy(bytes)));
                            done = true;
                        }
                    }
                }
                if !done && value.ty.is_str() {
                    let bytes: Option<Vec<u8>> = value
                        .to_branch()
                        .into_iter()
                        .map(|ct| (*ct).try_to_value().and_then(|v| v.try_to_leaf().map(|l| l.to_u8())))
                        .collect();
                    if let Some(bytes) = bytes {
                        let _ = write!(o, ",\"k\":\"Const\",\"lt\":\"str\",\"v\":{}", esc(&String::from_utf8_lossy(&bytes)));
                        done = true;
                    }
                }
                if !done && (value.ty.is_integral() || value.ty.is_bool() || value.ty.is_char()) {
                    if let Some(si) = value.try_to_leaf() {
                        let bits = si.to_bits_unchecked();
                        let _ = write!(o, ",\"k\":\"Const\",\"lt\":\"int\",\"v\":\"{}\"", bits);
                        done = true;
                    }
                }
                if !done {
                    let s = with_no_trimmed_paths!(format!("{:?}", value));
                    let _ = write!(o, ",\"k\":\"Const\",\"lt\":\"other\",\"v\":{}", esc(&s));
                }
            }
            PatKind::Range(r) => {
                let s = with_no_trimmed_paths!(format!("{:?}", r));
                let _ = write!(o, ",\"k\":\"Range\",\"v\":{}", esc(&s));
            }
            PatKind::Slice { prefix, slice, suffix } | PatKind::Array { prefix, slice, suffix } => {
                let pre = self.pats(prefix);
                let suf = self.pats(suffix);
                let _ = write!(o, ",\"k\":\"Slice\",\"pre\":{},\"suf\":{}", pre, suf);
                if let Some(s) = slice {
                    let s = self.pat(s);
                    let _ = write!(o, ",\"mid\":{}", s);
                }
            }
            PatKind::Or { pats } => {
                let ps = self.pats(pats);
                let _ = write!(o, ",\"k\":\"Or\",\"ps\":{}", ps);
            }
            PatKind::Guard { subpattern, condition } => {
                let s = self.pat(subpattern);
                let c = self.expr(*condition);
                let _ = write!(o, ",\"k\":\"Guard\",\"p\":{},\"c\":{}", s, c);
            }
            PatKind::Never => {
                o.push_str(",\"k\":\"Never\"");
            }
            PatKind::Error(_) => {
                o.push_str(",\"k\":\"Error\"");
            }
        }
        o.push('}');
        o
    }
}

fn expn_name(sp: Span) -> Option<String> {
    if !sp.from_expansion() {
        return None;
    }
    let d = sp.ctxt().outer_expn_data();
    Some(format!("{:?}", d.kind))
}

fn dump<'tcx>(tcx: TyCtxt<'tcx>, out_path: &str) {
    let mut cx = Cx { tcx, types: Interner::new(), files: Interner::new() };
    let crate_name = tcx.crate_name(rustc_hir::def_id::LOCAL_CRATE).to_string();

    // ---- bodies
    let mut fns = String::from("[");
    let mut nbodies = 0usize;
    let mut ncalls = 0usize;
    let mut nexprs = 0usize;
    let owners: Vec<LocalDefId> = tcx.hir_body_owners().collect();
    for ldid in owners {
        let did = ldid.to_def_id();
        let dk = tcx.def_kind(did);
        let Ok((thir_steal, root)) = tcx.thir_body(ldid) else { continue };
        let thir = thir_steal.borrow();
        if thir.exprs.is_empty() {
            continue;
        }
        let mut o = String::new();
        let _ = write!(o, "{{\"path\":{},\"dk\":{}", esc(&cx.path(did)), esc(&format!("{:?}", dk)));
        let name = tcx.opt_item_name(did).map(|s| s.to_string()).unwrap_or_default();
        let _ = write!(o, ",\"name\":{}", esc(&name));
        let sp = cx.span(tcx.def_span(did));
        let _ = write!(o, ",{}", sp);
        if let Some(x) = expn_name(tcx.def_span(did)) {
            let _ = write!(o, ",\"expn\":{}", esc(&x));
        }
        if matches!(dk, DefKind::Fn | DefKind::AssocFn) {
            let vis = tcx.visibility(did);
            let _ = write!(o, ",\"vis\":{}", esc(&format!("{:?}", vis)));
        }
        if tcx.is_closure_like(did) {
            let parent = tcx.local_parent(ldid);
            let _ = write!(o, ",\"parent\":{}", esc(&cx.path(parent.to_def_id())));
            let root_did = tcx.typeck_root_def_id(did);
            let _ = write!(o, ",\"root\":{}", esc(&cx.path(root_did)));
        }
        if let Some(imp) = tcx.impl_of_assoc(did) {
            let st = tcx.type_of(imp).instantiate_identity().skip_norm_wip();
            let s = with_no_trimmed_paths!(format!("{}", st));
            let _ = write!(o, ",\"impl_self\":{}", esc(&s));
            if let Some(adt) = cx.adt_of(st) {
                let _ = write!(o, ",\"impl_adt\":{}", esc(&cx.path(adt.did())));
            }
            if let Some(tr) = tcx.impl_opt_trait_ref(imp) {
                let tr = tr.instantiate_identity().skip_norm_wip();
                let _ = write!(o, ",\"impl_trait\":{}", esc(&cx.path(tr.def_id)));
                let s = with_no_trimmed_paths!(format!("{}", tr));
                let _ = write!(o, ",\"impl_trait_ref\":{}", esc(&s));
            }
        } else if let Some(tr) = tcx.trait_of_assoc(did) {
            let _ = write!(o, ",\"in_trait\":{}", esc(&cx.path(tr)));
        }
        // module path
        let module = tcx.parent_module_from_def_id(ldid);
        let _ = write!(o, ",\"mod\":{}", esc(&cx.path(module.to_def_id())));

        let mut bcx = BodyCx { cx: &mut cx, thir: &thir, owner: ldid, ncalls: 0, nexprs: 0 };
        // params
        o.push_str(",\"params\":[");
        let nparams = thir.params.len();
        for i in 0..nparams {
            if i > 0 {
                o.push(',');
            }
            let prm = &thir.params[thir::ParamId::from_usize(i)];
            let t = bcx.cx.ty(prm.ty);
            let _ = write!(o, "{{\"t\":{}", t);
            if let Some(p) = &prm.pat {
                let ps = bcx.pat(p);
                let _ = write!(o, ",\"p\":{}", ps);
            }
            if prm.self_kind.is_some() {
                o.push_str(",\"self\":1");
            }
            o.push('}');
        }
        o.push(']');
        if let thir::BodyTy::Fn(sig) = &thir.body_type {
            let t = bcx.cx.ty(sig.output());
            let _ = write!(o, ",\"ret\":{}", t);
        }
        let body = bcx.expr(root);
        let _ = write!(o, ",\"body\":{}", body);
        ncalls += bcx.ncalls;
        nexprs += bcx.nexprs;
        o.push('}');
        if nbodies > 0 {
            fns.push(',');
        }
        fns.push_str(&o);
        nbodies += 1;
    }
    fns.push(']');

    // ---- items: ADTs, impls, traits
    let mut adts = String::from("[");
    let mut impls = String::from("[");
    let mut nadts = 0;
    let mut nimpls = 0;
    let items = tcx.hir_crate_items(());
    for ldid in items.definitions() {
        let did = ldid.to_def_id();
        match tcx.def_kind(did) {
            DefKind::Struct | DefKind::Enum | DefKind::Union => {
                let def = tcx.adt_def(did);
                let mut o = String::new();
                let kind = if def.is_enum() { "enum" } else if def.is_struct() { "struct" } else { "union" };
                let sp = cx.span(tcx.def_span(did));
                let _ = write!(o, "{{\"path\":{},\"kind\":\"{}\",{},\"vis\":{},\"variants\":[", esc(&cx.path(did)), kind, sp, esc(&format!("{:?}", tcx.visibility(did))));
                for (vi, v) in def.variants().iter().enumerate() {
                    if vi > 0 {
                        o.push(',');
                    }
                    let _ = write!(o, "{{\"name\":{},\"ctor\":{},\"fields\":[", esc(v.name.as_str()), esc(&format!("{:?}", v.ctor_kind())));
                    for (fi, f) in v.fields.iter().enumerate() {
                        if fi > 0 {
                            o.push(',');
                        }
                        let fty = tcx.type_of(f.did).instantiate_identity().skip_norm_wip();
                        let t = cx.ty(fty);
                        let vis = match f.vis {
                            ty::Visibility::Public => "pub".to_string(),
                            ty::Visibility::Restricted(m) => format!("in:{}", cx.path(m)),
                        };
                        let _ = write!(o, "{{\"name\":{},\"t\":{},\"vis\":{}}}", esc(f.name.as_str()), t, esc(&vis));
                    }
                    o.push_str("]}");
                }
                o.push_str("]}");
                if nadts > 0 {
                    adts.push(',');
                }
                adts.push_str(&o);
                nadts += 1;
            }
            DefKind::Impl { of_trait } => {
                let mut o = String::new();
                let st = tcx.type_of(did).instantiate_identity().skip_norm_wip();
                let s = with_no_trimmed_paths!(format!("{}", st));
                let sp = cx.span(tcx.def_span(did));
                let _ = write!(o, "{{\"self\":{},{}", esc(&s), sp);
                if let Some(x) = expn_name(tcx.def_span(did)) {
                    let _ = write!(o, ",\"expn\":{}", esc(&x));
                }
                if let Some(adt) = cx.adt_of(st) {
                    let _ = write!(o, ",\"adt\":{}", esc(&cx.path(adt.did())));
                }
                if of_trait {
                    let tr = tcx.impl_trait_ref(did).instantiate_identity().skip_norm_wip();
                    let _ = write!(o, ",\"trait\":{}", esc(&cx.path(tr.def_id)));
                    let s = with_no_trimmed_paths!(format!("{}", tr));
                    let _ = write!(o, ",\"trait_ref\":{}", esc(&s));
                }
                o.push_str(",\"items\":[");
                for (i, it) in tcx.associated_item_def_ids(did).iter().enumerate() {
                    if i > 0 {
                        o.push(',');
                    }
                    let n = tcx.opt_item_name(*it).map(|s| s.to_string()).unwrap_or_default();
                    let _ = write!(o, "{{\"name\":{},\"path\":{},\"dk\":{}}}", esc(&n), esc(&cx.path(*it)), esc(&format!("{:?}", tcx.def_kind(*it))));
                }
                o.push_str("]}");
                if nimpls > 0 {
                    impls.push(',');
                }
                impls.push_str(&o);
                nimpls += 1;
            }
            _ => {}
        }
    }
    adts.push(']');
    impls.push(']');

    let mut out = String::new();
    let _ = write!(out, "{{\"crate\":{},\"nbodies\":{},\"ncalls\":{},\"nexprs\":{}", esc(&crate_name), nbodies, ncalls, nexprs);
    out.push_str(",\"files\":[");
    for (i, f) in cx.files.list.iter().enumerate() {
        if i > 0 {
            out.push(',');
        }
        out.push_str(&esc(f));
    }
    out.push_str("],\"types\":[");
    for (i, f) in cx.types.list.iter().enumerate() {
        if i > 0 {
            out.push(',');
        }
        out.push_str(&esc(f));
    }
    out.push_str("],\"adts\":");
    out.push_str(&adts);
    out.push_str(",\"impls\":");
    out.push_str(&impls);
    out.push_str(",\"fns\":");
    out.push_str(&fns);
    out.push_str("}\n");
    let tmp = format!("{}.tmp.{}", out_path, std::process::id());
    std::fs::write(&tmp, out).expect("factgen: cannot write facts");
    std::fs::rename(&tmp, out_path).expect("factgen: cannot rename facts");
}

struct Cb {
    out_dir: String,
    crates: Vec<String>,
}

impl rustc_driver::Callbacks for Cb {
    fn after_analysis<'tcx>(&mut self, _c: &rustc_interface::interface::Compiler, tcx: TyCtxt<'tcx>) -> rustc_driver::Compilation {
        let name = tcx.crate_name(rustc_hir::def_id::LOCAL_CRATE).to_string();
        if self.crates.iter().any(|c| *c == name) {
            // only the library/binary target itself, never a build script or test harness
            let is_test = tcx.sess.opts.test;
            if !is_test {
                let path = format!("{}/{}.json", self.out_dir, name);
                dump(tcx, &path);
            }
        }
        rustc_driver::Compilation::Continue
    }
}

fn main() {
    let mut args: Vec<String> = std::env::args().collect();
    // RUSTC_WORKSPACE_WRAPPER: argv[1] is the path of the real rustc
    if args.len() > 1 && (args[1].ends_with("rustc") || args[1].contains("/rustc")) {
        args.remove(1);
    }
    let out_dir = std::env::var("FACTGEN_OUT").unwrap_or_else(|_| ".".to_string());
    let crates: Vec<String> = std::env::var("FACTGEN_CRATES").unwrap_or_default().split(',').filter(|s| !s.is_empty()).map(|s| s.to_string()).collect();
    let crate_name = args.iter().position(|a| a == "--crate-name").and_then(|i| args.get(i + 1)).cloned().unwrap_or_default();
    let wanted = crates.iter().any(|c| *c == crate_name);
    if wanted {
        args.push("-Zno-steal-thir".to_string());
    }
    let mut cb = Cb { out_dir, crates };
    rustc_driver::run_compiler(&args, &mut cb);
}
