//! Parses a regex (argv[1]) with the regex-syntax crate that the repository links and
//! prints its HIR as JSON on stdout. Used by the C20 rules.
use regex_syntax::hir::{Class, Hir, HirKind};

fn esc(s: &str) -> String {
    let mut o = String::from("\"");
    for c in s.chars() {
        match c {
            '"' => o.push_str("\\\""),
            '\\' => o.push_str("\\\\"),
            c if (c as u32) < 0x20 => o.push_str(&format!("\\u{:04x}", c as u32)),
            c => o.push(c),
        }
    }
    o.push('"');
    o
}

fn dump(h: &Hir) -> String {
    match h.kind() {
        HirKind::Empty => "{\"k\":\"empty\"}".to_string(),
        HirKind::Literal(l) => format!("{{\"k\":\"lit\",\"s\":{}}}", esc(&String::from_utf8_lossy(&l.0))),
        HirKind::Class(Class::Unicode(c)) => {
            let rs: Vec<String> = c.ranges().iter().map(|r| format!("[{},{}]", r.start() as u32, r.end() as u32)).collect();
            format!("{{\"k\":\"class\",\"r\":[{}]}}", rs.join(","))
        }
        HirKind::Class(Class::Bytes(c)) => {
            let rs: Vec<String> = c.ranges().iter().map(|r| format!("[{},{}]", r.start() as u32, r.end() as u32)).collect();
            format!("{{\"k\":\"class\",\"r\":[{}]}}", rs.join(","))
        }
        HirKind::Look(l) => format!("{{\"k\":\"look\",\"l\":{}}}", esc(&format!("{:?}", l))),
        HirKind::Repetition(r) => format!(
            "{{\"k\":\"rep\",\"min\":{},\"max\":{},\"greedy\":{},\"sub\":{}}}",
            r.min,
            r.max.map(|m| m.to_string()).unwrap_or("null".to_string()),
            r.greedy,
            dump(&r.sub)
        ),
        HirKind::Capture(c) => format!("{{\"k\":\"cap\",\"i\":{},\"sub\":{}}}", c.index, dump(&c.sub)),
        HirKind::Concat(v) => format!("{{\"k\":\"cat\",\"subs\":[{}]}}", v.iter().map(dump).collect::<Vec<_>>().join(",")),
        HirKind::Alternation(v) => format!("{{\"k\":\"alt\",\"subs\":[{}]}}", v.iter().map(dump).collect::<Vec<_>>().join(",")),
    }
}

fn main() {
    let pat = std::env::args().nth(1).expect("usage: regexlang <pattern>");
    match regex_syntax::Parser::new().parse(&pat) {
        Ok(h) => println!("{{\"ok\":true,\"hir\":{}}}", dump(&h)),
        Err(e) => println!("{{\"ok\":false,\"err\":{}}}", esc(&e.to_string())),
    }
}
