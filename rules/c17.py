"""C17 Reachability-based checkers follow their path specification -- traversal tables.

 R1 intraprocedural edge set of is_sink_call_reachable_from_source_call (exhaustive match,
    follows every edge kind except those leaving the function)
 R2 stop at another source call, return the sink call; visited set guards the worklist
 R3 CWE367 starts after the source call with (source, sink) in configuration order; the verdict for one
    check call does not depend on a collection filled while iterating over the other check calls;
    CWE243 warning decision as a truth table over its three atoms
 R4 totality: unwrap/expect/panic sites whose operand depends on the analysed program
How: the CWE243 table is computed by specialisation over the 16 assignments of its four atoms (is a warning reachable?).
 R3+ (added after seed C17c) the two existence tests of sub_calls_chdir_and_priviledge_dropping_func do not depend on each other
    (no per-block test of one kind under a flag set by, or in the else-branch of, the other kind's test)
"""
import itertools

from .lib import slots as SL
from .lib import sym as S
from .lib import thir as T
from .lib.sym import fmt

LEAVING = {"Call", "CrReturnStub"}


def is_call(t, name=None):
    return isinstance(t, tuple) and t and t[0] == "call" and (name is None or t[1] == name or (isinstance(name, (set, tuple, frozenset)) and t[1] in name))


def run(run):
    F = run.facts()
    run.explanation = (
        "Static analysis of the reachability search and its two clients: the match over graph::Edge is turned into the table "
        "variant -> followed / not followed and compared with the set of edge kinds that leave a function; the sink/source tests "
        "and the visited-set guard are checked on the normalised conditions; the warning decisions of CWE243 are evaluated as a truth "
        "table over their atoms from the path conditions of each warning site; panicking sites whose operand depends on the analysed "
        "program are enumerated and matched against construction facts of the CFG. Decides the traversal/decision tables, not the "
        "set of warnings for a given program.")
    run.assumptions = ["graph.rs: Edge::Call leads from a call site to the callee entry and Edge::CrReturnStub from a callee exit to the caller's return node; all other edge kinds connect nodes of one function (module documentation, confirmed against the construction sites)",
                       "C08: a BlkEnd node whose block ends in a call to an extern symbol has an ExternCallStub successor iff the call has a return target"]
    run.rule("R1", "followed edge kinds == all Edge variants minus {Call, CrReturnStub}; match without wildcard")
    run.rule("R2", "sink test returns the call tid, source test skips the edge without enqueuing, pushes guarded by the visited set")
    run.rule("R3", "CWE367 argument provenance; CWE243 decision truth table")
    run.rule("R4", "no unwrap/expect/panic on program-shape-dependent values without a construction fact")

    f_reach = F.fn("is_sink_call_reachable_from_source_call", mod="graph_utils")
    edge = F.adt("analysis::graph::Edge")
    EV = F.variants(edge)
    run.floor("Edge variants", len(EV), 8)

    def r1_filter_form():
        """the successors are put on the worklist by an iterator chain: worklist.extend(graph.edges(n).filter(keep)...). An edge
        kind is followed unless one of the filter predicates is false for it (predicates and the helpers they call are
        evaluated with every Edge-typed value specialised to that kind)"""
        from .lib import peval as PE
        from .lib import bindsrc as B
        roots = B.bodies(F, f_reach)
        grows = [x for x in T.walk_fn(F, f_reach) if T.is_call(x, ("extend", "push", "append", "extend_from_slice")) and x.get("a") and "worklist" in T.show(x["a"][0])]
        site = F.loc(f_reach["body"])
        filters = []
        for g in grows:
            if len(g["a"]) < 2:
                continue
            for src, how in B.sources(F, roots, g["a"][1]):
                for x in T.walk(src):
                    if T.is_call(x, ("filter", "take_while", "skip_while")) and len(x["a"]) == 2 and T.peel(x["a"][1]).get("k") == "Closure" and any(T.is_call(y, ("edges", "edges_directed")) for s2, h2 in B.sources(F, roots, x["a"][0]) for y in T.walk(s2)):
                        c = F.by_path.get(T.peel(x["a"][1])["d"])
                        if c is not None and not any(c is f_ for f_ in filters):
                            filters.append(c)
        if not grows or not filters:
            run.undecided("R1", "edge-kinds", "neither a loop with a match over Edge nor a filter chain that feeds the worklist was found in is_sink_call_reachable_from_source_call", site)
            return
        for v in EV:
            def assume(n, v=v):
                ty = (F.ty(n) or "").replace("&", "").strip()
                if "graph::Edge" in ty and ty.split("<")[0].endswith("graph::Edge") and n.get("k") in ("Var", "Upvar", "Deref", "Call", "Field"):
                    return ("enum", v)
                return None
            vals = [PE.Spec(F, assume=assume, scope=roots).cev(c["body"], {}) for c in filters]
            dropped = any(x == ("bool", False) for x in vals)
            surely = all(x == ("bool", True) for x in vals)
            want = v not in LEAVING
            if want and dropped:
                run.violated("R1", "edge|%s" % v, "Edge::%s stays inside the function; a filter on the way to the worklist drops this edge kind" % v, site)
            elif not want and surely:
                run.violated("R1", "edge|%s" % v, "Edge::%s leaves the function; the search follows it (every filter keeps this edge kind)" % v, site)
            elif not want and not dropped:
                run.undecided("R1", "edge|%s" % v, "whether Edge::%s is filtered out is not decided (%s)" % (v, vals), site)
            else:
                run.holds("R1", "edge|%s" % v, "", site)

    def r1():
        from .lib import peval as PE
        ms = T.find_matches(f_reach["body"], adt_suffix="graph::Edge")
        loops = [(n, p_, it, b) for (n, p_, it, b) in T.for_loops(f_reach["body"]) if any(T.is_call(x, ("edges", "edges_directed")) for x in T.walk(it))]
        if not ms or not loops:
            return r1_filter_form()
        body = loops[0][3]
        scrutinees = {id(T.peel(m["e"])) for m in ms} | {id(m["e"]) for m in ms}
        wild = any(T.WILD in T.pat_variant_names(a["p"]) for m in ms for a in m["arms"]) and not any(not (T.pat_variant_names(a["p"]) - {T.WILD}) and False for m in ms for a in m["arms"])
        # a wildcard in the classification of edge KINDS (not in an inner match over the jump term) hides new edge kinds
        kind_wild = any(T.WILD in T.pat_variant_names(a["p"]) for m in ms for a in m["arms"] if len(m["arms"]) >= 3)
        (run.holds if not kind_wild else run.undecided)("R1", "exhaustive-without-wildcard", "the classification of edge kinds uses a wildcard arm: a new edge kind would silently fall into it", F.loc(ms[0]))
        for v in EV:
            spec = PE.Spec(F, assume=lambda n, v=v: ("enum", v) if id(n) in scrutinees else None)
            nodes = spec.reach(body, {})
            follows = any(T.is_call(x, ("push", "push_back", "push_front")) or (T.is_call(x, ("insert", "extend")) and "worklist" in T.show(x["a"][0])) for x in nodes)
            want = v not in LEAVING
            site = F.loc(body)
            if follows == want:
                run.holds("R1", "edge|%s" % v, "", site)
            elif follows and not want:
                run.violated("R1", "edge|%s" % v, "Edge::%s leaves the function; the search follows it (the target of the edge can be put on the worklist)" % v, site)
            else:
                # not following an intraprocedural edge: evidence is that NO push is reachable for this edge kind
                run.violated("R1", "edge|%s" % v, "Edge::%s stays inside the function; for this edge kind no path through the loop body reaches the worklist push" % v, site)

    run.guarded("R1", r1)

    def r2():
        sy = S.Sym(F)
        env = {}
        sy.term(f_reach["body"], env)
        site = F.loc(f_reach["body"])
        sink_ok = src_ok = None
        for n in T.walk(f_reach["body"]):
            if n.get("k") != "If":
                continue
            c = sy.ev(n["c"], env)
            if is_call(c, "eq") and len(c[2]) == 2:
                a, b = c[2]
                tgt = a if (a[0] == "field" and a[2].endswith("Call.target")) else b if (b[0] == "field" and b[2].endswith("Call.target")) else None
                other = b if tgt is a else a
                if tgt is None or other[0] != "var":
                    continue
                if other[1] == "sink_symbol":
                    rets = [x for x in T.walk(n["th"]) if x.get("k") == "Return"]
                    good = False
                    for r in rets:
                        rt = sy.ev(r["e"], env) if "e" in r else None
                        if rt and rt[0] == "adt" and rt[2] == "Some":
                            p = dict(rt[3])["0"]
                            good = p[0] == "field" and p[2] == "tid" and p[1][0] == "field" and p[1][2].endswith("ExternCallStub.0")
                    sink_ok = good
                    # the source test must be in the else branch (sink first)
                    if "el" in n:
                        for n2 in T.walk(n["el"]):
                            if n2.get("k") == "If":
                                c2 = sy.ev(n2["c"], env)
                                if is_call(c2, "eq") and any(x[0] == "var" and x[1] == "source_symbol" for x in c2[2]):
                                    conts = [x for x in T.walk(n2["th"]) if x.get("k") == "Continue"]
                                    pushes = [x for x in T.walk(n2["th"]) if T.is_call(x, "push")]
                                    src_ok = bool(conts) and not pushes
                elif other[1] == "source_symbol" and src_ok is None:
                    conts = [x for x in T.walk(n["th"]) if x.get("k") == "Continue"]
                    pushes = [x for x in T.walk(n["th"]) if T.is_call(x, "push")]
                    src_ok = bool(conts) and not pushes
        # scenario evaluation by specialisation: the edge is an ExternCallStub of a direct call whose target is (a) another
        # call to the source symbol, (b) a call to the sink symbol
        from .lib import peval as PE
        loops = [(n_, p_, it, b) for (n_, p_, it, b) in T.for_loops(f_reach["body"]) if any(T.is_call(x, ("edges", "edges_directed")) for x in T.walk(it))]
        ms_e = T.find_matches(f_reach["body"], adt_suffix="graph::Edge")
        scr = {id(T.peel(m["e"])) for m in ms_e} | {id(m["e"]) for m in ms_e}

        def scenario(src_val, sink_val):
            hits = {"src": 0, "sink": 0}

            def assume(n):
                if id(n) in scr:
                    return ("enum", "ExternCallStub")
                if n.get("k") in ("Deref", "Borrow", "Field", "Var") and F.ty(n).replace("&", "").strip().endswith("jmp::Jmp") and n.get("k") != "Var":
                    return ("enum", "Call")
                is_cmp = (n.get("k") == "Call" and n.get("n") in ("eq", "ne") and len(n.get("a", [])) == 2) or (n.get("k") == "Binary" and n.get("o") in ("Eq", "Ne"))
                if is_cmp:
                    txt = T.show(n)
                    neg = (n.get("n") == "ne") or (n.get("o") == "Ne")
                    if "source_symbol" in txt and "sink_symbol" not in txt:
                        hits["src"] += 1
                        return ("bool", src_val != neg)
                    if "sink_symbol" in txt and "source_symbol" not in txt:
                        hits["sink"] += 1
                        return ("bool", sink_val != neg)
                return None
            spec = PE.Spec(F, assume=assume)
            nodes = spec.reach(loops[0][3], {}) if loops else []
            push = any(T.is_call(x, ("push", "push_back")) or (T.is_call(x, ("insert", "extend")) and "worklist" in T.show(x["a"][0])) for x in nodes)
            rets = [x for x in nodes if x.get("k") == "Return" and x.get("e") is not None]
            return push, rets, hits
        if sink_ok is None and loops:
            push, rets, hits = scenario(False, True)
            if not hits["sink"]:
                run.undecided("R2", "sink-call-returns-its-tid", "no comparison with sink_symbol found", site)
            else:
                good = any(any(y.get("k") == "Field" and y.get("fn") == "tid" for y in T.walk(r["e"])) and any(y.get("k") == "Adt" and y.get("v") == "Some" for y in T.walk(r["e"])) for r in rets)
                if good and not push:
                    run.holds("R2", "sink-call-returns-its-tid", "", site)
                elif not rets:
                    run.violated("R2", "sink-call-returns-its-tid", "for an edge that is a call to the sink symbol no `return Some(tid)` is reachable", site)
                else:
                    run.undecided("R2", "sink-call-returns-its-tid", "returned value not recognised", site)
        elif sink_ok is None:
            run.undecided("R2", "sink-call-returns-its-tid", "no `target == sink_symbol` test found", site)
        else:
            run.check("R2", "sink-call-returns-its-tid", sink_ok, "reaching a call to the sink must return the tid of that call", site)
        if src_ok is None and loops:
            push, rets, hits = scenario(True, False)
            if not hits["src"]:
                run.violated("R2", "source-call-stops-search", "nothing in the search compares a call target with the source symbol: the search no longer stops at another call to the source", site)
            elif push:
                run.violated("R2", "source-call-stops-search", "for an edge that is another call to the source symbol the worklist push is still reachable: the search continues past it", site)
            else:
                run.holds("R2", "source-call-stops-search", "", site)
        elif src_ok is None:
            run.undecided("R2", "source-call-stops-search", "loop over the edges not found", site)
        else:
            run.check("R2", "source-call-stops-search", src_ok, "a further call to the source must skip the edge without enqueuing its target", site)
        # the sink/source tests must be applied to EVERY outgoing edge: they may not depend on the visited set
        for (node, conds) in T.paths_to(f_reach["body"], lambda x: x.get("k") == "If"):
            c = sy.ev(node["c"], env)
            if not (is_call(c, "eq") and any(x[0] == "var" and x[1] == "sink_symbol" for x in c[2])):
                continue
            dep = []
            for cd in conds:
                if cd[0] == "if":
                    ct = sy.ev(cd[1], env)
                    if any(isinstance(x, tuple) and x and x[0] == "var" and "visited" in x[1] for x in S.subterms(ct)) or any(is_call(x, ("contains", "insert")) and "HashSet" in x[3] for x in S.subterms(ct)):
                        dep.append(fmt(ct))
            run.check("R2", "sink-test-for-every-edge", not dep, "the test for a sink call is only reached depending on the visited set (%s): a sink call whose return node was already reached along another path is never recognised" % dep[:1], F.loc(node))
        # pushes guarded by visited set
        n = 0
        for (node, conds) in T.paths_to(f_reach["body"], lambda x: T.is_call(x, "push")):
            recv = sy.ev(node["a"][0], env)
            if not (recv[0] == "var" and recv[1] == "worklist"):
                continue
            n += 1
            guarded = False
            for c in conds:
                if c[0] == "if":
                    ct = sy.ev(c[1], env)
                    pol = c[2]
                    while ct[0] == "not":
                        ct, pol = ct[1], not pol
                    if is_call(ct, "contains") and not pol:
                        guarded = True
                    if is_call(ct, "insert") and pol:
                        guarded = True
            run.check("R2", "push-guarded-by-visited|%d" % n, guarded, "a node is pushed to the worklist without testing the visited set (non-termination on loops)", F.loc(node))
        if n == 0:
            # iterator-chain form: worklist.extend(.. .filter(|n| visited.insert(*n)))
            from .lib import bindsrc as B
            roots_ = B.bodies(F, f_reach)
            grows = [x for x in T.walk_fn(F, f_reach) if T.is_call(x, ("extend", "append")) and x.get("a") and "worklist" in T.show(x["a"][0]) and len(x["a"]) == 2]
            if not grows:
                run.undecided("R2", "push-guarded-by-visited", "no growth of the worklist found", site)
            for i_, g in enumerate(grows):
                guarded = False
                for src, how in B.sources(F, roots_, g["a"][1]):
                    for x in T.walk(src):
                        if T.is_call(x, "filter") and len(x["a"]) == 2 and T.peel(x["a"][1]).get("k") == "Closure":
                            c = F.by_path.get(T.peel(x["a"][1])["d"])
                            if c is not None:
                                ct = S.value(S.Sym(F).term(c["body"]))
                                pol = True
                                while ct[0] == "not":
                                    ct, pol = ct[1], not pol
                                if (is_call(ct, "insert") and pol) or (is_call(ct, "contains") and not pol):
                                    guarded = True
                run.check("R2", "push-guarded-by-visited|%d" % (i_ + 1), guarded, "nodes are added to the worklist without testing the visited set (non-termination on loops)", F.loc(g))

    run.guarded("R2", r2)

    def r3():
        # CWE367
        fn = F.fn("check_cwe", mod="cwe_367")
        sy = S.Sym(F)
        env = {}
        sy.term(fn["body"], env)
        cs = T.calls(fn["body"], name="is_sink_call_reachable_from_source_call")
        if len(cs) != 1:
            raise T.AnchorMissing("expected one call of is_sink_call_reachable_from_source_call in cwe_367::check_cwe")
        c = cs[0]
        a = [sy.ev(x, env) for x in c["a"]]
        site = F.loc(c)
        start_ok = is_call(a[1], "target") and not is_call(a[1], "source")
        run.check("R3", "cwe367|search-starts-after-source-call", start_ok, "the search must start at the node *after* the check call (edge.target()); found %s" % fmt(a[1]), site)
        # pair component provenance: (source, sink) = config pair (0, 1)
        def comp(t):
            for x in S.subterms(t):
                if isinstance(x, tuple) and x and x[0] == "field" and x[2] in ("0", "1") and (x[1][0] == "elem" or (x[1][0] == "field" and x[1][2] == "Some.0")):
                    return int(x[2])
            return None
        # arg2 is the call target, equal to source tid by a dominating guard
        guard_comp = None
        for (node, conds) in T.paths_to(fn["body"], lambda x: x is c):
            for cd in conds:
                if cd[0] == "if":
                    ct = sy.ev(cd[1], env)
                    if is_call(ct, "eq") and cd[2]:
                        for side in ct[2]:
                            k = comp(side)
                            if k is not None:
                                guard_comp = k
        a2c = comp(a[2])
        src_comp = a2c if a2c is not None else guard_comp
        sink_comp = comp(a[3])
        if src_comp is None or sink_comp is None:
            run.undecided("R3", "cwe367|pair-order", "cannot trace the pair components: source=%s sink=%s" % (fmt(a[2]), fmt(a[3])), site)
        else:
            run.check("R3", "cwe367|pair-order", (src_comp, sink_comp) == (0, 1), "configured pairs are (check, use): the search must start at calls of component 0 and look for component 1; found source=component %s sink=component %s" % (src_comp, sink_comp), site)
        # the verdict for one check call must not depend on other check calls: between the reachability result and the warning
        # no guard may consult a collection that is filled while iterating (de-duplication by sink callsite drops check calls
        # on parallel branches that reach the same use call)
        pushes = [x for x in T.walk_fn(F, fn) if T.is_call(x, "push") and any(T.is_call(y, "generate_cwe_warning") or (y.get("k") == "Adt" and y.get("adt", "").endswith("CweWarning")) for y in T.walk(x))]
        if not pushes:
            warn = [x for x in T.walk_fn(F, fn) if T.is_call(x, "generate_cwe_warning")]
            pushes = warn
        run.floor("cwe367 warning sites", len(pushes), 1)
        MUT = ("insert", "push", "remove", "extend", "entry", "retain", "push_back")
        mutated = {}
        for x in T.walk_fn(F, fn):
            if T.is_call(x, MUT) and x.get("a"):
                r = T.root_var_id(x["a"][0])
                if r is not None:
                    mutated.setdefault(r, []).append(x)
        for i, pnode in enumerate(pushes):
            stateful, unknown = [], []
            for (node, conds) in T.paths_to(fn["body"], lambda x: x is pnode):
                for cd in conds:
                    if cd[0] != "if":
                        continue
                    cn = cd[1]
                    for y in T.walk(cn):
                        if T.is_call(y) and y.get("a"):
                            r = T.root_var_id(y["a"][0])
                            if r is not None and r in mutated and y.get("n") in ("insert", "contains", "contains_key", "get", "remove", "is_empty", "len"):
                                # the warnings vector itself is only pushed to, never consulted
                                stateful.append((y, r))
            key = "cwe367|verdict-per-check-call|%d" % i
            # a key that identifies the check call itself (edge / jump / its block) cannot couple different check calls
            result_ids = set()
            for lt in T.walk_fn(F, fn):
                if lt.get("k") == "Let" and any(y is c for y in T.walk(lt["e"])):
                    result_ids |= {b[0] for b in T.pat_bindings(lt["p"])}
            dep_on_result = []
            for y, r in stateful:
                ids = {z["id"] for a in y["a"][1:] for z in T.walk(a) if z.get("k") in ("Var", "Upvar")}
                # follow one level of immutable lets
                for lt in T.walk_fn(F, fn):
                    if lt.get("k") == "LetStmt" and "i" in lt and any(b[0] in ids for b in T.pat_bindings(lt["p"])):
                        ids |= {z["id"] for z in T.walk(lt["i"]) if z.get("k") in ("Var", "Upvar")}
                if ids & result_ids:
                    dep_on_result.append((y, r))
            if stateful and not dep_on_result:
                run.undecided("R3", key, "the warning is guarded by a collection filled during the iteration, keyed by something other than the reachability result: %s" % T.show(stateful[0][0])[:80], F.loc(stateful[0][0]))
            elif stateful:
                y, r = dep_on_result[0]
                run.violated("R3", key, "the warning for a check call is guarded by `%s` on a collection that is filled during the iteration: whether a check call is reported then depends on which other check calls were visited before (e.g. two check calls on parallel branches reaching the same use call: only one is reported)" % T.show(y)[:80], F.loc(y))
            else:
                run.holds("R3", key, "", F.loc(pnode))
        # CWE243
        fn = F.fn("check_cwe", mod="cwe_243")
        sy = S.Sym(F)
        env = {}
        sy.term(fn["body"], env)
        warn_paths = []

        def has_reach(t):
            return any(is_call(x, "is_sink_call_reachable_from_source_call") for x in S.subterms(t))

        def bev(t, asg):
            """boolean value of a condition term under an assignment of the atoms
            A (chdir imported), N (the chroot block has a successor), R (a chdir call is
            reachable), C (function calls chdir and a privilege-dropping function); None = unknown"""
            t = S.value(t)
            h = t[0]
            if h == "lit" and isinstance(t[1], bool):
                return t[1]
            if h == "not":
                v = bev(t[1], asg)
                return None if v is None else (not v)
            if h in ("and", "or"):
                a, b = bev(t[1], asg), bev(t[2], asg)
                if a is None or b is None:
                    return None
                return (a and b) if h == "and" else (a or b)
            if h == "ite":
                c = bev(t[1], asg)
                return None if c is None else bev(t[2] if c else t[3], asg)
            if h == "let":
                if any(x == ("lit", "chdir") for x in S.subterms(t[2])) and t[1].startswith("Some"):
                    return asg["A"]
                if is_call(S.value(t[2]), "next") and t[1].startswith("Some"):
                    return asg["N"]
                if has_reach(t[2]):
                    return asg["R"] if t[1].startswith("Some") else (not asg["R"]) if t[1].startswith("None") else None
                return None
            if is_call(t, ("is_none", "is_some")) and has_reach(t[2][0]) and is_call(S.value(t[2][0]), "is_sink_call_reachable_from_source_call"):
                return asg["R"] if t[1] == "is_some" else (not asg["R"])
            if is_call(t, "sub_calls_chdir_and_priviledge_dropping_func"):
                return asg["C"]
            if h == "match":
                sc = S.value(t[1])
                if is_call(sc, "next") and any(is_call(x, ("neighbors", "edges")) for x in S.subterms(sc)):
                    for pat, g, b in t[2]:
                        if g is not None:
                            return None
                        if pat.startswith("Some") and asg["N"]:
                            return bev(b, asg)
                        if (pat.startswith("None") or pat == "_") and not asg["N"]:
                            return bev(b, asg)
                    return None
                if is_call(sc, "is_sink_call_reachable_from_source_call"):
                    for pat, g, b in t[2]:
                        if g is not None:
                            return None
                        if pat.startswith("Some") and asg["R"]:
                            return bev(b, asg)
                        if (pat.startswith("None") or pat == "_") and not asg["R"]:
                            return bev(b, asg)
                    return None
            return None

        # decision table by specialisation: for each assignment of the four atoms, is a warning generated?
        from .lib import peval as PE2

        # locals bound to a successor iterator (`let mut it = graph.neighbors(node)`) in the check or its helpers
        nb_ids = set()
        for x in T.walk_deep(F, fn["body"], 2):
            if x.get("k") == "LetStmt" and "i" in x and x["p"].get("k") == "Bind" and any(T.is_call(y, ("neighbors", "edges", "neighbors_directed")) for y in T.walk(x["i"])):
                nb_ids.add(x["p"]["id"])

        def warns(asg):
            hits = {"A": 0, "N": 0, "R": 0, "C": 0}
            first_next = []

            def assume(n):
                if n.get("k") != "Call":
                    return None
                nm = n.get("n")
                if nm == "find_symbol" and any(T.peel(a).get("k") == "Lit" and T.peel(a).get("v") == "chdir" for a in n.get("a", [])):
                    hits["A"] += 1
                    return ("enum", "Some" if asg["A"] else "None")
                if nm == "is_sink_call_reachable_from_source_call":
                    hits["R"] += 1
                    return ("enum", "Some" if asg["R"] else "None")
                if nm == "sub_calls_chdir_and_priviledge_dropping_func":
                    hits["C"] += 1
                    return ("bool", asg["C"])
                if nm == "next" and n.get("a") and (any(T.is_call(y, ("neighbors", "edges", "neighbors_directed")) for y in T.walk(n["a"][0])) or T.root_var_id(n["a"][0]) in nb_ids):
                    if not first_next:
                        first_next.append(id(n))
                    if id(n) == first_next[0]:
                        hits["N"] += 1
                        return ("enum", "Some" if asg["N"] else "None")
                return None
            from .lib import bindsrc as B2
            spec = PE2.Spec(F, assume=assume, follow_calls=True, enter_closures=True, scope=B2.bodies(F, fn))
            nodes = spec.reach(fn["body"], {})
            return any(T.is_call(x, "generate_cwe_warning") for x in nodes), hits
        wrong = []
        tot = {"A": 0, "N": 0, "R": 0, "C": 0}
        for A, N, R, C in itertools.product((False, True), repeat=4):
            asg = {"A": A, "N": N, "R": R, "C": C}
            got, hits = warns(asg)
            for k_ in tot:
                tot[k_] += hits[k_]
            want = (not A) or ((not (N and R)) and not C)
            if got != want:
                wrong.append((asg, got, want))
        unseen = [k_ for k_ in ("A", "R", "C") if tot[k_] == 0]
        if unseen:
            run.undecided("R3", "cwe243|decision-table", "the check does not consult %s in a recognised way (A=find_symbol(\"chdir\"), R=is_sink_call_reachable_from_source_call, C=sub_calls_chdir_and_priviledge_dropping_func)" % unseen, F.loc(fn["body"]))
        else:
            # over-approximation: an undecided branch is taken both ways, so `got` can only be too large; a missing warning is exact
            missing = [w for w in wrong if w[2] and not w[1]]
            extra = [w for w in wrong if w[1] and not w[2]]
            if missing:
                run.violated("R3", "cwe243|decision-table", "warn <=> chdir not imported OR (no chdir call reachable after the chroot call AND NOT(function calls chdir and a privilege-dropping function)); "
                             "atoms A=chdir imported, N=chroot block has a successor, R=chdir reachable, C=calls both; no warning can be generated for %s" % ([w[0] for w in missing[:2]],), F.loc(fn["body"]))
            elif extra and tot["N"] > 0:
                run.violated("R3", "cwe243|decision-table", "warn <=> chdir not imported OR (no chdir call reachable after the chroot call AND NOT(function calls chdir and a privilege-dropping function)); "
                             "atoms A=chdir imported, N=chroot block has a successor, R=chdir reachable, C=calls both; a warning is generated for %s" % ([w[0] for w in extra[:2]],), F.loc(fn["body"]))
            elif extra:
                run.undecided("R3", "cwe243|decision-table", "a warning seems reachable for %s, but the successor test of the chroot block was not recognised" % ([w[0] for w in extra[:2]],), F.loc(fn["body"]))
            else:
                run.holds("R3", "cwe243|decision-table", "16 assignments", F.loc(fn["body"]))
        # sub_calls_chdir_and_priviledge_dropping_func = calls(chdir) && calls(any priv): two existence tests over the blocks of the
        # function that must not depend on each other (the order in which blocks are stored is not the execution order).
        # Positive evidence of a dependence: the per-block test of one kind runs only under a condition that reads a flag set by
        # the other kind's test in the same loop, or only on blocks where the other kind's test failed.
        fsub = F.find_fns(name="sub_calls_chdir_and_priviledge_dropping_func")
        fsub = [g for g in fsub if g.get("dk") != "Closure"]
        key2 = "cwe243|both-calls-independent-of-block-order"
        if len(fsub) != 1:
            run.undecided("R3", key2, "sub_calls_chdir_and_priviledge_dropping_func not found", F.loc(fn["body"]))
        else:
            g = fsub[0]
            chdir_ids = {b[0] for p_ in g["params"] if p_.get("p") for b in T.pat_bindings(p_["p"]) if "chdir" in b[1]}

            def kind_of(call):
                if len(call.get("a", [])) < 2:
                    return None
                return "chdir" if T.root_var_id(call["a"][1]) in chdir_ids else "priv"

            def tests_in(e):
                out = set()
                for y in T.walk(e):
                    if T.is_call(y, "blk_calls_tid"):
                        out.add(kind_of(y))
                    if y.get("k") == "Closure":
                        c_ = F.by_path.get(y.get("d"))
                        if c_ is not None:
                            out |= tests_in(c_["body"])
                return out - {None}
            dependent = []
            for (ln, pat, it, lb) in T.for_loops(g["body"]):
                # flags assigned in this loop, by the kind of test that guards the assignment
                flag_kind = {}
                for x, conds in T.paths_to(lb, lambda y: y.get("k") == "Assign" and T.root_var_id(y["l"]) is not None):
                    ks = set()
                    for cd in conds:
                        if cd[0] == "if" and cd[2] is True:
                            ks |= tests_in(cd[1])
                    for k_ in ks:
                        flag_kind.setdefault(T.root_var_id(x["l"]), set()).add(k_)
                def is_test_site(y):
                    return T.is_call(y, "blk_calls_tid") or (y.get("k") == "Closure" and bool(tests_in(y)))
                for x, conds in T.paths_to(lb, is_test_site):
                    k2s = tests_in(x) if x.get("k") == "Closure" else {kind_of(x)}
                    if len(k2s) != 1:
                        continue
                    k2 = next(iter(k2s))
                    for cd in conds:
                        if cd[0] != "if":
                            continue
                        reads = {y["id"] for y in T.walk(cd[1]) if y.get("k") in ("Var", "Upvar")}
                        for fid, ks in flag_kind.items():
                            if fid in reads and cd[2] is True and any(k1 != k2 for k1 in ks) and not any(x is y for y in T.walk(cd[1])):
                                dependent.append((k2, "runs only after a block with a %s call was seen" % "/".join(sorted(ks - {k2}))))
                        if cd[2] is False and (tests_in(cd[1]) - {k2}):
                            dependent.append((k2, "runs only on blocks without a %s call" % "/".join(sorted(tests_in(cd[1]) - {k2}))))
            if dependent:
                run.violated("R3", key2, "the function must call chdir AND a privilege-dropping function, in any block order; the %s test %s" % dependent[0], F.loc(g["body"]))
            else:
                run.holds("R3", key2, "", F.loc(g["body"]))
        # sub_calls_chdir_and_priviledge_dropping_func = calls(chdir) && calls(any priv)
        # the reachability query arguments: (source=chroot, sink=chdir)
        cs = T.calls(fn["body"], name="is_sink_call_reachable_from_source_call")
        for c in cs:
            a = [sy.ev(x, env) for x in c["a"]]
            def sym_of(t):
                ls = [x[1] for x in S.subterms(t) if isinstance(x, tuple) and x and x[0] == "lit" and isinstance(x[1], str)]
                return ls[0] if ls else None
            run.check("R3", "cwe243|query-order", (sym_of(a[2]), sym_of(a[3])) == ("chroot", "chdir"), "the query must search for chdir after chroot, stopping at another chroot; found source=%s sink=%s" % (sym_of(a[2]), sym_of(a[3])), F.loc(c))

    run.guarded("R3", r3)

    def r4():
        fns = [F.fn("check_cwe", mod="cwe_243"), F.fn("check_cwe", mod="cwe_367"), f_reach]
        fns += [f for f in F.find_fns(mod="cwe_243") if f["dk"] != "Closure" and f["name"] not in ("check_cwe",) and "expn" not in f]
        n = 0
        for fn in fns:
            sy = S.Sym(F)
            env = {}
            sy.term(fn["body"], env)
            for c in F.closures(fn):
                sy.scan(c["body"])
            label = "%s::%s" % (fn["mod"].split("::")[-1], fn["name"])
            # node-kind knowledge: locals/terms matched as BlkEnd / BlkStart
            for (node, conds) in T.paths_to(fn["body"], lambda x: T.is_call(x, ("unwrap", "expect", "unwrap_unchecked"))):
                t = sy.ev(node["a"][0], env)
                n += 1
                if any(isinstance(x, tuple) and x and x[0] == "var" and x[1] in ("cwe_params",) for x in S.subterms(t)) or any(is_call(x, "from_value") for x in S.subterms(t)):
                    run.holds("R4", "%s|unwrap|config" % label, "operand is the deserialised configuration, not the analysed program", F.loc(node))
                    continue
                if is_call(t, "next") and any(is_call(x, ("neighbors", "edges", "neighbors_directed", "edges_directed")) for x in S.subterms(t)):
                    # which node kind?
                    nb = [x for x in S.subterms(t) if is_call(x, ("neighbors", "edges", "neighbors_directed", "edges_directed"))][0]
                    who = nb[2][1] if len(nb[2]) > 1 else None
                    kind = None
                    for cd in conds:
                        if cd[0] == "if":
                            ct = sy.ev(cd[1], env)
                            if ct[0] == "let" and is_call(ct[2], "index") and who is not None and ct[2][2][1] == who:
                                if ct[1].startswith("BlkEnd"):
                                    kind = "BlkEnd"
                                elif ct[1].startswith("BlkStart"):
                                    kind = "BlkStart"
                    key = "%s|unwrap|first-neighbour-of-%s" % (label, kind or "node")
                    if kind == "BlkEnd":
                        run.violated("R4", key, "`%s` is unwrapped for a BlkEnd node: a block whose call does not return (no return target) has no outgoing edge, so the checker panics on such programs" % fmt(t), F.loc(node))
                    elif kind == "BlkStart":
                        run.holds("R4", key, "a BlkStart node always has its Block edge", F.loc(node))
                    else:
                        run.undecided("R4", key, "first neighbour of a node of unknown kind is unwrapped: %s" % fmt(t), F.loc(node))
                    continue
                run.undecided("R4", "%s|unwrap|%s" % (label, fmt(t)[:60]), "unwrap of a program-dependent value without a known construction fact", F.loc(node))
        run.floor("unwrap sites examined", n, 1)
        # cwe_367: panic unless the target of an ExternCallStub edge is a BlkStart -> construction fact
        run.note("cwe_367: `panic!(\"Malformed control flow graph.\")` is reached only if the target of an ExternCallStub edge is not a BlkStart; both construction sites in graph.rs pass a BlkStart index (checked by C08/R1)")

    run.guarded("R4", r4)
