"""Exact evaluation of a string predicate (a closure body over `module.name`) for one given name.

 ev(node, env) -> value | None (unknown). Values: python str, bool, ('list', [str...]).
 Vocabulary: == / != / eq / ne on strings, ! && ||, `match s { "A" | "B" => e, _ => e }`, slice/array `contains`, string
 `contains` / `starts_with` / `ends_with` (substring semantics), `iter().any(|x| ...)` / `all`, references to const / static
 items (arrays of string literals, strings, `STATIC.field`), `let` in blocks. Anything else is unknown.
Used by C22: the selection predicates are decided over the finite set of registered check names plus probe names."""
from . import thir as T


class StrPred:
    def __init__(self, facts_list, field_value=None):
        # facts_list: Facts objects in which const/static paths are looked up
        self.facts_list = facts_list
        self.field_value = field_value  # (static path, field name) -> str | None

    def static(self, path):
        for F in self.facts_list:
            for f in F.fns:
                if f["path"] == path or f["path"].endswith("::" + path) or path.endswith("::" + f["path"]):
                    if f["dk"].startswith(("Static", "Const")):
                        return F, f
        return None, None

    def closure(self, path):
        for F in self.facts_list:
            c = F.by_path.get(path)
            if c is not None:
                return c
        return None

    def ev(self, n, env, depth=0):
        if depth > 12:
            return None
        n = T.peel(n)
        k = n.get("k")
        if k in ("Var", "Upvar"):
            return env.get(n["id"])
        if k == "Lit":
            v = n.get("v")
            if n.get("lt") == "bool" or isinstance(v, bool):
                return str(v).lower() == "true"
            if n.get("lt") == "str":
                return v
            return None
        if k in ("Const", "Static"):
            F, f = self.static(n["d"])
            return self.ev(f["body"], {}, depth + 1) if f is not None else None
        if k == "Array":
            es = [self.ev(e, env, depth + 1) for e in n["es"]]
            return ("list", es) if all(isinstance(e, str) for e in es) else None
        if k == "Field":
            base = T.peel(n["e"])
            if base.get("k") in ("Const", "Static"):
                F, f = self.static(base["d"])
                if f is not None:
                    b = T.peel(f["body"])
                    if b.get("k") == "Adt" and n.get("fn") in b.get("fs", {}):
                        return self.ev(b["fs"][n["fn"]], {}, depth + 1)
                return None
            v = self.ev(n["e"], env, depth + 1)
            if isinstance(v, tuple) and v[0] == "struct":
                return v[1].get(n.get("fn"))
            return None
        if k == "Unary" and n.get("o") == "Not":
            v = self.ev(n["e"], env, depth + 1)
            return (not v) if isinstance(v, bool) else None
        if k == "Logical":
            l, r = self.ev(n["l"], env, depth + 1), self.ev(n["r"], env, depth + 1)
            if n["o"] == "And":
                if l is False or r is False:
                    return False
                return True if (l is True and r is True) else None
            if l is True or r is True:
                return True
            return False if (l is False and r is False) else None
        if k == "Block":
            env2 = dict(env)
            for s_ in n.get("ss", []):
                s_ = T.peel(s_)
                if s_.get("k") == "LetStmt" and "i" in s_ and s_["p"].get("k") == "Bind":
                    env2[s_["p"]["id"]] = self.ev(s_["i"], env2, depth + 1)
                elif s_.get("k") == "LetStmt":
                    return None
            return self.ev(n["e"], env2, depth + 1) if n.get("e") is not None else None
        if k == "If":
            c = self.ev(n["c"], env, depth + 1)
            if isinstance(c, bool):
                br = n["th"] if c else n.get("el")
                return self.ev(br, env, depth + 1) if br is not None else None
            return None
        if k == "Match":
            s = self.ev(n["e"], env, depth + 1)
            if not isinstance(s, (str, bool)):
                return None
            for arm in n["arms"]:
                m = self.pat(arm["p"], s)
                if m is None:
                    return None
                if m:
                    env2 = dict(env)
                    p = T.pat_peel(arm["p"]) if arm["p"].get("k") != "Bind" else arm["p"]
                    if arm["p"].get("k") == "Bind":
                        env2[arm["p"]["id"]] = s
                    if "g" in arm:
                        g = self.ev(arm["g"], env2, depth + 1)
                        if g is None:
                            return None
                        if not g:
                            continue
                    return self.ev(arm["b"], env2, depth + 1)
            return None
        if (k == "Binary" and n.get("o") in ("Eq", "Ne")):
            a, b = self.ev(n["l"], env, depth + 1), self.ev(n["r"], env, depth + 1)
            if isinstance(a, str) and isinstance(b, str):
                return (a == b) == (n["o"] == "Eq")
            return None
        if k == "Call":
            name = n.get("n")
            args = n.get("a", [])
            if name in ("eq", "ne") and len(args) == 2:
                a, b = self.ev(args[0], env, depth + 1), self.ev(args[1], env, depth + 1)
                if isinstance(a, str) and isinstance(b, str):
                    return (a == b) == (name == "eq")
                return None
            if name in ("iter", "into_iter", "copied", "cloned", "as_ref", "as_str", "deref", "borrow", "to_string", "to_owned", "clone", "into", "as_slice", "to_vec", "from", "from_iter", "collect") and len(args) == 1:
                return self.ev(args[0], env, depth + 1)
            if name in ("contains", "starts_with", "ends_with") and len(args) == 2:
                recv, x = self.ev(args[0], env, depth + 1), self.ev(args[1], env, depth + 1)
                if not isinstance(x, str):
                    return None
                if isinstance(recv, tuple) and recv[0] == "list" and name == "contains":
                    return x in recv[1]
                if isinstance(recv, str):
                    return (x in recv) if name == "contains" else (recv.startswith(x) if name == "starts_with" else recv.endswith(x))
                return None
            if name in ("any", "all") and len(args) == 2:
                recv = self.ev(args[0], env, depth + 1)
                cl = T.peel(args[1])
                if not (isinstance(recv, tuple) and recv[0] == "list") or cl.get("k") != "Closure":
                    return None
                c = self.closure(cl["d"])
                if c is None:
                    return None
                ps = [p_["p"] for p_ in c["params"] if p_.get("p")]
                if len(ps) != 1:
                    return None
                p = ps[0]
                while p.get("k") in ("Deref",):
                    p = p["p"]
                if p.get("k") != "Bind":
                    return None
                rs = []
                for e in recv[1]:
                    env2 = dict(env)
                    env2[p["id"]] = e
                    rs.append(self.ev(c["body"], env2, depth + 1))
                if name == "any":
                    if any(r is True for r in rs):
                        return True
                    return False if all(r is False for r in rs) else None
                if any(r is False for r in rs):
                    return False
                return True if all(r is True for r in rs) else None
            return None
        return None

    def pat(self, p, s):
        p = T.pat_peel(p) if p.get("k") != "Bind" else p
        k = p.get("k")
        if k in ("Wild", "Bind"):
            return True
        if k == "Or":
            rs = [self.pat(q, s) for q in p["ps"]]
            if any(r is True for r in rs):
                return True
            return False if all(r is False for r in rs) else None
        if k == "Const":
            v = p.get("v")
            if isinstance(s, bool):
                return str(v).lower() == str(s).lower()
            if p.get("lt") == "str" or isinstance(v, str):
                return v == s
            return None
        return None


def closure_param(c):
    """the single Bind parameter of a closure (after the environment), or None"""
    ps = [p_["p"] for p_ in c["params"] if p_.get("p")]
    if len(ps) != 1:
        return None
    p = ps[0]
    while p.get("k") == "Deref":
        p = p["p"]
    return p if p.get("k") == "Bind" else None
