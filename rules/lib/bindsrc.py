"""Where does the value of an expression come from? -- following local bindings backwards.

 binder(root, vid)      -> (source expression, how) of the let / if-let / match arm / for loop in `root` that binds local vid
 sources(F, root, e)    -> [(expr, how)]: e itself and, transitively, the expressions its variables are bound from
 mentions(F, e, pred)   -> a node satisfying pred occurs in e (closure bodies created in e included)
`how` is 'slice-first' for the first prefix element of a slice pattern, 'loop' for a for-loop variable, else 'plain'."""
from . import thir as T


def pat_binds(p):
    out = []

    def rec(q, how):
        k = q.get("k")
        if k == "Bind":
            out.append((q["id"], how))
            if "sub" in q:
                rec(q["sub"], how)
        elif k in ("Deref", "Guard"):
            rec(q["p"], how)
        elif k == "Slice":
            for i, e in enumerate(q.get("pre", [])):
                rec(e, "slice-first" if i == 0 else "slice-other")
            for e in q.get("suf", []):
                rec(e, "slice-other")
            if "mid" in q:
                rec(q["mid"], "slice-other")
        elif k == "Or":
            for e in q["ps"]:
                rec(e, how)
        elif isinstance(q.get("sub"), list):
            for s_ in q["sub"]:
                rec(s_["p"] if "p" in s_ else s_, how)
    rec(p, "plain")
    return out


def binder(root, vid):
    for x in T.walk(root):
        k = x.get("k")
        fl = T.for_loop(x) if k == "Match" else None
        if fl:
            for i, how in pat_binds(fl[0]):
                if i == vid:
                    return fl[1], "loop"
        if k == "LetStmt" and "i" in x:
            for i, how in pat_binds(x["p"]):
                if i == vid:
                    return x["i"], how
        if k == "Let":
            for i, how in pat_binds(x["p"]):
                if i == vid:
                    return x["e"], how
        if k == "Match" and not fl:
            for a in x["arms"]:
                for i, how in pat_binds(a["p"]):
                    if i == vid:
                        return x["e"], how
    return None, None


def sources(F, roots, e, limit=16, follow_calls=False):
    """roots: bodies to search binders in (the function body and the bodies of its closures).
    follow_calls: a call of a small crate-local function contributes the function's result expressions (its tail and the
    operands of its `return`s), whose variables are resolved in that function's own body."""
    if isinstance(roots, dict):
        roots = [roots]
    roots = list(roots)
    out = [(e, "plain")]
    seen = set()
    seen_fns = set()
    work = [e]
    while work and len(out) < limit:
        cur = work.pop()
        if follow_calls:
            for x in walk_with_closures(F, cur):
                if x.get("k") == "Call":
                    g = F.by_path.get(x.get("r") or "") or F.by_path.get(x.get("f") or "")
                    if g is not None and g.get("dk") in ("Fn", "AssocFn") and g["path"] not in seen_fns and sum(1 for _ in T.walk(g["body"])) < 400:
                        seen_fns.add(g["path"])
                        roots.extend(bodies(F, g))
                        res = [n["e"] for n in T.walk(g["body"]) if n.get("k") == "Return" and n.get("e") is not None]
                        b = T.peel(g["body"])
                        while b.get("k") == "Block" and b.get("e") is not None:
                            b = T.peel(b["e"])
                        res.append(b)
                        for r in res:
                            out.append((r, "call"))
                            work.append(r)
        for x in walk_with_closures(F, cur):
            if x.get("k") in ("Var", "Upvar") and x["id"] not in seen:
                seen.add(x["id"])
                for r in roots:
                    src, how = binder(r, x["id"])
                    if src is not None:
                        out.append((src, how))
                        work.append(src)
                        break
                else:
                    # a closure parameter: bound from the other arguments of the call that takes the closure
                    for r in roots:
                        for call in T.walk(r):
                            if call.get("k") == "Call":
                                for a in call.get("a", []):
                                    ap = T.peel(a)
                                    if ap.get("k") == "Closure":
                                        c = F.by_path.get(ap.get("d"))
                                        if c is not None and any(i == x["id"] for p_ in c["params"] if p_.get("p") for i, _h in pat_binds(p_["p"])):
                                            for b in call["a"]:
                                                if b is not a:
                                                    out.append((b, "closure-arg"))
                                                    work.append(b)
    return out


def walk_with_closures(F, node, depth=0):
    for x in T.walk(node):
        yield x
        if x.get("k") == "Closure" and depth < 4:
            c = F.by_path.get(x.get("d"))
            if c is not None:
                yield from walk_with_closures(F, c["body"], depth + 1)


def mentions(F, e, pred):
    return any(pred(x) for x in walk_with_closures(F, e))


def bodies(F, fn):
    return [fn["body"]] + [c["body"] for c in F.closures(fn)]
