"""Checker self-test (thorough tier): seeded single-instance breakages.

Each mutant in /verif/mutants/<prop>/*.json is one textual edit of /repo's *current* tree
that still compiles; a scratch copy is patched, facts are regenerated, the property's rules
are evaluated on it and must report the expected instance key(s). The unpatched scratch
copy must be silent. Nothing is executed from the repository; the scratch copy and its
facts are removed afterwards. A mutant whose anchor text is not found exactly once on the
current tree is skipped and listed.
"""
import glob
import importlib
import json
import os
import shutil
import subprocess
import sys
import tempfile
import time

from . import engine, factsrc

VERIF = factsrc.VERIF


def copy_tree(dst, repo="/repo"):
    os.makedirs(dst, exist_ok=True)
    subprocess.check_call(["rsync", "-a", "--delete", "--exclude", "target", "--exclude", ".git", "--exclude", "doc", "--exclude", "test/artificial_samples",
                           repo + "/", dst + "/"])


def load_mutants(prop):
    out = []
    for p in sorted(glob.glob(os.path.join(VERIF, "mutants", prop, "*.json"))):
        with open(p) as f:
            m = json.load(f)
        m["_file"] = os.path.basename(p)
        out.append(m)
    return out


def apply_mutant(root, m):
    edits = m.get("edits") or [{"file": m["file"], "find": m["find"], "replace": m["replace"]}]
    for e in edits:
        p = os.path.join(root, e["file"])
        if not os.path.exists(p):
            return "file %s missing" % e["file"]
        s = open(p).read()
        if s.count(e["find"]) != 1:
            return "anchor text occurs %d times in %s" % (s.count(e["find"]), e["file"])
        open(p, "w").write(s.replace(e["find"], e["replace"]))
    return None


def evaluate(prop, root):
    mod = importlib.import_module("rules." + prop.lower())
    r = engine.Run(prop, "thorough", root, "scratch")
    mod.run(r)
    viol = [i for i in r.instances if i["verdict"] == engine.VIOLATED]
    return r, viol


def run_selftest(prop, only=None, keep=False, verbose=True):
    muts = load_mutants(prop)
    if only:
        muts = [m for m in muts if only in m["_file"]]
    res = {"mutants": len(muts), "caught": 0, "missed": [], "skipped": [], "baseline_silent": None, "details": []}
    if not muts:
        return res
    root = tempfile.mkdtemp(prefix="cwe_scratch_")
    try:
        copy_tree(root)
        known = engine.load_known()
        open_keys = {e["key"] for e in known.get("open", [])}
        r, viol = evaluate(prop, root)
        base = [v["key"] for v in viol if v["key"] not in open_keys]
        res["baseline_silent"] = (not base) and not r.anchor_errors
        if base and verbose:
            print("  selftest: unpatched scratch copy is not silent: %s" % base[:3])
        base_set = {v["key"] for v in viol}
        for m in muts:
            copy_tree(root)
            err = apply_mutant(root, m)
            if err:
                res["skipped"].append({"mutant": m["_file"], "why": err})
                if verbose:
                    print("  selftest: SKIPPED %s (%s)" % (m["_file"], err))
                continue
            t0 = time.time()
            try:
                r, viol = evaluate(prop, root)
            except factsrc.FactError as e:
                res["skipped"].append({"mutant": m["_file"], "why": "mutant does not compile: %s" % str(e)[-300:]})
                if verbose:
                    print("  selftest: SKIPPED %s (does not compile)\n%s" % (m["_file"], str(e)[-1500:]))
                continue
            keys = [v["key"] for v in viol if v["key"] not in base_set] + (["ANCHOR:" + a for a in r.anchor_errors])
            expect = m.get("expect", [])
            if m.get("silent"):
                # a behaviour-preserving edit: the rules must stay silent on it
                hit = not keys
            else:
                hit = all(any(e in k for k in keys) for e in expect) and bool(keys)
            res["details"].append({"mutant": m["_file"], "desc": m.get("desc", ""), "reported": keys[:6], "expected": expect, "caught": hit, "wall_s": round(time.time() - t0, 1)})
            if hit:
                res["caught"] += 1
                if verbose:
                    print("  selftest: %s %-40s -> %s" % ("silent-ok" if m.get("silent") else "caught", m["_file"], keys[:2]))
            else:
                res["missed"].append(m["_file"])
                if verbose:
                    print("  selftest: MISSED %-40s expected %s reported %s" % (m["_file"], expect, keys[:4]))
    finally:
        if not keep:
            shutil.rmtree(root, ignore_errors=True)
            shutil.rmtree(factsrc.slot_dir("scratch"), ignore_errors=True)
    return res


def thorough(run):
    """Called by ./check --tier thorough after the rules passed on /repo."""
    try:
        res = run_selftest(run.prop)
    except Exception as e:  # the self-test is about the checker, never about /repo: it must not change the verdict
        print("CHECKER-SELFTEST-ERROR property=%s %s: %s (reported, does not change the verdict on /repo)" % (run.prop, type(e).__name__, str(e)[:300]))
        return 0
    print("== %s checker self-test: %d mutants, %d caught, %d missed, %d skipped; unpatched scratch silent: %s" % (
        run.prop, res["mutants"], res["caught"], len(res["missed"]), len(res["skipped"]), res["baseline_silent"]))
    # merge into the evidence file
    p = os.path.join(VERIF, "evidence", "%s.json" % run.prop)
    if os.path.exists(p):
        ev = json.load(open(p))
        ev["coverage"]["selftest"] = res
        ev["wall_s"] = round(time.time() - run.t0, 3)
        json.dump(ev, open(p, "w"), indent=1)
    if res["missed"]:
        print("CHECKER-SELFTEST-MISSED property=%s mutants=%s (reported, does not change the verdict on /repo)" % (run.prop, res["missed"]))
    return 0
