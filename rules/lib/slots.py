"""Slot coverage: which fields of which enum variants a function binds and uses."""
from . import thir as T


def fields_of_type(F, adt_suffix, pred):
    """[(variant, field)] of an ADT whose field type string satisfies pred"""
    adt = F.adt(adt_suffix)
    out = []
    for v in adt["variants"]:
        for f in v["fields"]:
            if pred(F.tyi(f["t"])):
                out.append((v["name"], f["name"]))
    return out


def is_expression_ty(t):
    return t.endswith("expression::Expression")


def is_tid_ty(t):
    return t.endswith("term::Tid") or t.endswith("term::Tid>")


def all_patterns(root):
    """(pattern, scrutinee node or None, owner node) for every pattern in the tree"""
    for n in T.walk(root):
        k = n.get("k")
        if k == "Match":
            for arm in n["arms"]:
                yield arm["p"], n["e"], arm
        elif k == "Let":
            yield n["p"], n["e"], n
        elif k == "LetStmt":
            yield n["p"], n.get("i"), n


def fn_patterns(F, fn, closures=True):
    for p in fn["params"]:
        if "p" in p:
            yield p["p"], None, fn
    yield from all_patterns(fn["body"])
    if closures:
        for c in F.closures(fn):
            for p in c["params"]:
                if "p" in p:
                    yield p["p"], None, c
            yield from all_patterns(c["body"])


def variant_subpatterns(p, adt_suffix, variant):
    """all Variant sub-patterns (anywhere inside p) for adt/variant"""
    k = p.get("k")
    if k == "Variant":
        if p["adt"].endswith(adt_suffix) and p["v"] == variant:
            yield p
        for s in p["sub"]:
            yield from variant_subpatterns(s["p"], adt_suffix, variant)
    elif k == "Leaf":
        for s in p["sub"]:
            yield from variant_subpatterns(s["p"], adt_suffix, variant)
    elif k in ("Deref", "Guard"):
        yield from variant_subpatterns(p["p"], adt_suffix, variant)
    elif k == "Bind" and "sub" in p:
        yield from variant_subpatterns(p["sub"], adt_suffix, variant)
    elif k == "Or":
        for q in p["ps"]:
            yield from variant_subpatterns(q, adt_suffix, variant)
    elif k == "Slice":
        for q in p["pre"] + p["suf"] + ([p["mid"]] if "mid" in p else []):
            yield from variant_subpatterns(q, adt_suffix, variant)


def slot_bindings(F, fn, adt_suffix, variant, field, closures=True, follow=True):
    """[(local id, name, scrutinee node, owner)] bindings of the given field slot; with
    follow=True also locals bound by destructuring such a binding (`if let Some(t) = return_`)"""
    out = _slot_bindings(F, fn, adt_suffix, variant, field, closures)
    if follow:
        ids = {b[0] for b in out}
        changed = True
        while changed:
            changed = False
            for pat, scrut, owner in fn_patterns(F, fn, closures):
                if scrut is None:
                    continue
                sid = T.root_var_id(scrut)
                if sid in ids:
                    for (i, n, _pth) in T.pat_bindings(pat):
                        if i not in ids:
                            ids.add(i)
                            out.append((i, n, scrut, owner))
                            changed = True
    return out


def _slot_bindings(F, fn, adt_suffix, variant, field, closures=True):
    out = []
    for pat, scrut, owner in fn_patterns(F, fn, closures):
        for vp in variant_subpatterns(pat, adt_suffix, variant):
            sp = T.pat_field(vp, field)
            if sp is None:
                continue
            q = sp
            while q.get("k") in ("Deref", "Guard"):
                q = q["p"]
            if q.get("k") == "Bind":
                out.append((q["id"], q["n"], scrut, owner))
            else:
                for (i, n, _pth) in T.pat_bindings(q):
                    out.append((i, n, scrut, owner))
    return out


def uses(F, fn, local_id, closures=True):
    return [n for n in T.walk_fn(F, fn, closures) if n.get("k") in ("Var", "Upvar") and n.get("id") == local_id]


def parent_map(root):
    pm = {}
    for n in T.walk(root):
        for c in T.children(n):
            pm[id(c)] = n
    return pm


def used_as_receiver_of(F, fn, local_id, call_names, closures=True):
    """call nodes named in call_names whose first argument is (a wrapper of) the local"""
    out = []
    for n in T.walk_fn(F, fn, closures):
        if T.is_call(n, call_names) and n["a"]:
            a = T.peel(n["a"][0])
            if a.get("k") in ("Var", "Upvar") and a.get("id") == local_id:
                out.append(n)
    return out
