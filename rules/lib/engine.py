"""Rule-instance bookkeeping, evidence files, known findings, VIOLATION lines."""
import hashlib
import json
import os
import sys
import time

from . import factsrc
from .thir import AnchorMissing, Facts

VERIF = factsrc.VERIF
HOLDS, VIOLATED, UNDECIDED, NOTE = "holds", "violated", "undecided", "note"


class Run:
    def __init__(self, prop, tier, repo="/repo", slot="repo"):
        self.prop = prop
        self.tier = tier
        self.repo = repo
        self.slot = slot
        self.t0 = time.time()
        self.instances = []
        self.floors = {}
        self.notes = []
        self.explanation = ""
        self.assumptions = []
        self.rules = {}
        self._facts = {}
        self.anchor_errors = []

    # -- facts
    def facts(self, crate="cwe_checker_lib"):
        if crate not in self._facts:
            d = factsrc.generate(self.repo, self.slot)
            self._facts[crate] = Facts(factsrc.load(d, crate))
        return self._facts[crate]

    # -- recording
    def rule(self, rid, text):
        self.rules[rid] = text

    def add(self, rule, key, verdict, detail="", site=None, sites=None):
        """Record one rule instance. key must not contain line numbers."""
        inst = {"rule": rule, "key": "%s|%s|%s" % (self.prop, rule, key), "verdict": verdict, "detail": detail}
        if site:
            inst["site"] = site
        if sites:
            inst["sites"] = sites
        self.instances.append(inst)
        return inst

    def holds(self, rule, key, detail="", site=None):
        return self.add(rule, key, HOLDS, detail, site)

    def violated(self, rule, key, detail="", site=None):
        return self.add(rule, key, VIOLATED, detail, site)

    def undecided(self, rule, key, detail="", site=None):
        return self.add(rule, key, UNDECIDED, detail, site)

    def note(self, text):
        self.notes.append(text)

    def check(self, rule, key, cond, detail="", site=None):
        return self.add(rule, key, HOLDS if cond else VIOLATED, detail, site)

    def floor(self, name, have, need):
        """Fail closed when fewer instances than confirmed by hand were found."""
        self.floors[name] = {"have": have, "need": need}
        if have < need:
            self.anchor_errors.append("floor %s: %d instances found, at least %d were confirmed by hand" % (name, have, need))

    def guarded(self, rule, fn):
        """Run one rule function; an AnchorMissing inside fails closed."""
        try:
            fn()
        except AnchorMissing as e:
            self.anchor_errors.append("%s: %s" % (rule, e))


def load_known():
    p = os.path.join(VERIF, "known_findings.json")
    if not os.path.exists(p):
        return {"open": [], "fixed": []}
    with open(p) as f:
        return json.load(f)


def finish(run, replay_only=None):
    """Print the report, write the evidence file, return the exit code."""
    known = load_known()
    open_keys = {e["key"]: e for e in known.get("open", []) if e.get("property") == run.prop}
    viol = [i for i in run.instances if i["verdict"] == VIOLATED]
    und = [i for i in run.instances if i["verdict"] == UNDECIDED]
    hold = [i for i in run.instances if i["verdict"] == HOLDS]
    new_viol = []
    for v in viol:
        if v["key"] in open_keys:
            print("KNOWN-FINDING: property=%s %s :: %s" % (run.prop, v["key"], open_keys[v["key"]].get("what", v["detail"])))
        else:
            new_viol.append(v)

    print("== %s tier=%s: %d rule instances: %d hold, %d violated (%d known), %d undecided; floors=%s" % (
        run.prop, run.tier, len(run.instances), len(hold), len(viol), len(viol) - len(new_viol), len(und),
        {k: v["have"] for k, v in run.floors.items()}))
    byrule = {}
    for i in run.instances:
        byrule.setdefault(i["rule"], []).append(i)
    for r in sorted(byrule):
        li = byrule[r]
        print("  rule %-4s %-70s instances=%d holds=%d violated=%d undecided=%d" % (
            r, run.rules.get(r, "")[:70], len(li), sum(1 for i in li if i["verdict"] == HOLDS),
            sum(1 for i in li if i["verdict"] == VIOLATED), sum(1 for i in li if i["verdict"] == UNDECIDED)))
    for i in und:
        print("  UNDECIDED %s %s %s" % (i["key"], i.get("site", ""), i["detail"]))
    for n in run.notes:
        print("  note: " + n)

    code = 0
    os.makedirs(os.path.join(VERIF, "evidence", "replay"), exist_ok=True)
    for v in new_viol:
        h = hashlib.sha256(v["key"].encode()).hexdigest()[:12]
        rp = os.path.join(VERIF, "evidence", "replay", "%s-%s.json" % (run.prop, h))
        with open(rp, "w") as f:
            json.dump({"property": run.prop, "instance": v, "rule_text": run.rules.get(v["rule"], "")}, f, indent=1)
        print("  violated: %s at %s :: %s" % (v["key"], v.get("site", "?"), v["detail"]))
        print("VIOLATION property=%s replay=%s" % (run.prop, rp))
        code = 1
    if run.anchor_errors:
        for a in run.anchor_errors:
            print("ANCHOR-MISSING property=%s %s" % (run.prop, a))
        # fail closed: a rule that matches nothing would pass vacuously forever
        h = hashlib.sha256(("anchor" + "".join(run.anchor_errors)).encode()).hexdigest()[:12]
        rp = os.path.join(VERIF, "evidence", "replay", "%s-anchor-%s.json" % (run.prop, h))
        with open(rp, "w") as f:
            json.dump({"property": run.prop, "anchor_errors": run.anchor_errors}, f, indent=1)
        print("VIOLATION property=%s replay=%s" % (run.prop, rp))
        code = 1

    nontrivial = {i["key"] for i in run.instances if i.get("site") or i.get("sites")}
    samples = []
    seen_rules = set()
    for i in run.instances:
        if i["rule"] not in seen_rules:
            seen_rules.add(i["rule"])
            samples.append({k: i[k] for k in ("rule", "key", "verdict", "detail", "site") if k in i})
    ev = {
        "property_id": run.prop,
        "tier": run.tier,
        "seed": int(os.environ.get("VERIF_SEED", "0") or 0),
        "level": "other",
        "coverage": {
            "explanation": run.explanation,
            "obligations": len(run.instances),
            "discharged": len(hold),
            "undecided": len(und),
            "evaluations": len(run.instances),
            "distinct_nontrivial": len(nontrivial),
            "rule": "one evaluation = one rule instance (a rule applied to one construct of /repo's current source: "
                    "a match arm, enum variant, field slot, call site or path); an instance is non-trivial when it "
                    "examined at least one real source site; distinct by instance key",
            "rules": run.rules,
            "floors": run.floors,
            "samples": samples[:12],
            "undecided_instances": [{"key": i["key"], "detail": i["detail"]} for i in und],
            "known_findings_matched": [v["key"] for v in viol if v["key"] in open_keys],
            "notes": run.notes,
            "source_tree": run.repo,
            "exhaustive": False,
        },
        "assumptions": run.assumptions,
        "wall_s": round(time.time() - run.t0, 3),
        "violations": len(new_viol) + (1 if run.anchor_errors else 0),
    }
    if run.slot == "repo":
        with open(os.path.join(VERIF, "evidence", "%s.json" % run.prop), "w") as f:
            json.dump(ev, f, indent=1)
    return code
