"""Generous may-flow of local values ("can the value bound here end up in that call / assignment?").

 mf = MayFlow(F); mf.run(fn, ids) -> {top-level fn path: set(local ids)}: every local that may hold (a part of, a reference to,
 or a value computed from) one of the start locals. OVER-approximation on purpose:
  - a local is reached as soon as the expression it is bound from / assigned from / iterates over merely mentions a reached
    local (closures created in that expression included);
  - a container is reached when something reached is pushed / inserted / extended into it;
  - parameters of crate-local callees are reached when the argument mentions a reached local (callees are followed to a
    bounded depth), and a call is itself a reached expression when the callee may return something reached;
  - closure parameters are reached when another argument of the call that takes the closure (literally or through a local
    the closure is bound to) mentions a reached local, or when the closure is called with such an argument;
  - seed(node): expressions that are sources themselves (e.g. reads of one particular struct field).
Because it over-approximates, `no reached local is used by X` is evidence that the value does NOT get to X; `is used by X` is
only evidence that it may. Rules use the first direction for `violated` and combine the second with further checks for `holds`."""
from . import thir as T
from . import bindsrc as B

CONTAINER_STORE = ("push", "insert", "extend", "append", "push_back", "push_front", "extend_from_slice", "entry", "or_insert", "replace", "get_or_insert_with")


class MayFlow:
    def __init__(self, F, max_depth=3, seed=None):
        self.F = F
        self.max_depth = max_depth
        self.seed = seed
        self.reached = {}   # group path -> set(ids)
        self.depth = {}     # group path -> call depth at which it was entered
        self.ret = set()    # paths of functions whose result may carry a reached value

    # ---- structure
    def group(self, fn):
        f = fn
        while f.get("dk") == "Closure" and "parent" in f and f["parent"] in self.F.by_path:
            f = self.F.by_path[f["parent"]]
        return f

    def bodies(self, g):
        return [g] + self.F.closures(g)

    def callee(self, n):
        g = self.F.by_path.get(n.get("r") or "") or self.F.by_path.get(n.get("f") or "")
        if g is not None and g.get("dk") in ("Fn", "AssocFn"):
            return g
        return None

    def closure_of(self, g, arg):
        ap = T.peel(arg)
        if ap.get("k") == "Closure":
            return self.F.by_path.get(ap.get("d"))
        if ap.get("k") in ("Var", "Upvar"):
            for b in self.bodies(g):
                src, how = B.binder(b["body"], ap["id"])
                if src is not None:
                    sp = T.peel(src)
                    if sp.get("k") == "Closure":
                        return self.F.by_path.get(sp.get("d"))
                    return None
        return None

    def mentions(self, node, ids, _depth=0):
        for x in T.walk(node):
            k = x.get("k")
            if k in ("Var", "Upvar") and x.get("id") in ids:
                return True
            if self.seed is not None and self.seed(x):
                return True
            if k == "Call" and self.ret:
                c = self.callee(x)
                if c is not None and c["path"] in self.ret:
                    return True
            if k == "Closure" and _depth < 4:
                c = self.F.by_path.get(x.get("d"))
                if c is not None and self.mentions(c["body"], ids, _depth + 1):
                    return True
        return False

    # ---- solving
    def add(self, fn, ids, depth=0):
        g = self.group(fn)
        cur = self.reached.setdefault(g["path"], set())
        self.depth[g["path"]] = min(self.depth.get(g["path"], depth), depth)
        before = len(cur)
        cur |= set(ids)
        return len(cur) != before

    def run(self, fn, ids):
        self.add(fn, ids)
        if self.seed is not None:
            # a seed may sit inside a helper: every crate-local callee (two levels) takes part, so that "the helper returns a
            # seeded value" is known at its call sites
            todo, seen = [(self.group(fn), 0)], {self.group(fn)["path"]}
            while todo:
                g, d = todo.pop()
                if d >= 2:
                    continue
                for b in self.bodies(g):
                    for n in T.walk(b["body"]):
                        if n.get("k") == "Call":
                            c = self.callee(n)
                            if c is not None and c["path"] not in seen and sum(1 for _ in T.walk(c["body"])) < 600:
                                seen.add(c["path"])
                                self.add(c, set(), d + 1)
                                todo.append((c, d + 1))
        self.solve()
        return self.reached

    def solve(self):
        for _round in range(40):
            changed = False
            for gp in list(self.reached):
                if self._step(self.F.by_path[gp]):
                    changed = True
            if not changed:
                break

    def _step(self, g):
        cur = self.reached[g["path"]]
        depth = self.depth.get(g["path"], 0)
        any_change = False
        changed = True
        while changed:
            changed = False

            def add(i):
                nonlocal changed
                if i is not None and i not in cur:
                    cur.add(i)
                    changed = True

            def add_params(c):
                for p_ in c["params"]:
                    if p_.get("p"):
                        for (i, _n, _p) in T.pat_bindings(p_["p"]):
                            add(i)
            for b in self.bodies(g):
                for n in T.walk(b["body"]):
                    k = n.get("k")
                    if k == "LetStmt" and "i" in n and self.mentions(n["i"], cur):
                        for (i, _n, _p) in T.pat_bindings(n["p"]):
                            add(i)
                    elif k == "Let" and self.mentions(n["e"], cur):
                        for (i, _n, _p) in T.pat_bindings(n["p"]):
                            add(i)
                    elif k == "Match" and self.mentions(n["e"], cur):
                        for a in n["arms"]:
                            for (i, _n, _p) in T.pat_bindings(a["p"]):
                                add(i)
                    elif k in ("Assign", "AssignOp") and self.mentions(n["r"], cur):
                        add(T.root_var_id(n["l"]))
                    elif k == "Call":
                        args = n.get("a", [])
                        if n.get("n") in CONTAINER_STORE and len(args) >= 2 and any(self.mentions(a, cur) for a in args[1:]):
                            add(T.root_var_id(args[0]))
                        hit = [self.mentions(a, cur) for a in args]
                        if any(hit):
                            if n.get("n") in ("call", "call_mut", "call_once") and args:
                                c = self.closure_of(g, args[0])
                                if c is not None and any(hit[1:]):
                                    add_params(c)
                            for j, a in enumerate(args):
                                c = self.closure_of(g, a)
                                if c is not None and any(h for jj, h in enumerate(hit) if jj != j):
                                    add_params(c)
                            callee = self.callee(n)
                            if callee is not None and depth < self.max_depth and len(callee["params"]) == len(args):
                                pids = set()
                                for p_, h in zip(callee["params"], hit):
                                    if h and p_.get("p"):
                                        pids |= {i for (i, _n, _p) in T.pat_bindings(p_["p"])}
                                if pids and self.group(callee)["path"] != g["path"]:
                                    if self.add(callee, pids, depth + 1):
                                        any_change = True
            if changed:
                any_change = True
        # may the function's result carry something reached?
        if g.get("dk") in ("Fn", "AssocFn") and g["path"] not in self.ret:
            outs = [n["e"] for n in T.walk(g["body"]) if n.get("k") == "Return" and n.get("e") is not None]
            body = T.peel(g["body"])
            if body.get("k") == "Block" and body.get("e") is not None:
                outs.append(body["e"])
            elif body.get("k") != "Block":
                outs.append(body)
            if any(self.mentions(o, cur) for o in outs):
                self.ret.add(g["path"])
                any_change = True
        return any_change

    def uses(self, pred):
        """[(group path, body record, node)] call nodes satisfying pred(node) one of whose arguments mentions a reached local"""
        out = []
        for gp, ids in self.reached.items():
            g = self.F.by_path[gp]
            for b in self.bodies(g):
                for n in T.walk(b["body"]):
                    if n.get("k") == "Call" and pred(n) and any(self.mentions(a, ids) for a in n.get("a", [])):
                        out.append((gp, b, n))
        return out

    def assigned(self):
        """[(group path, Assign node)] assignments through a reached local (`*target = ..`, `target.field = ..`)"""
        out = []
        for gp, ids in self.reached.items():
            g = self.F.by_path[gp]
            for b in self.bodies(g):
                for n in T.walk(b["body"]):
                    if n.get("k") in ("Assign", "AssignOp") and T.root_var_id(n["l"]) in ids:
                        out.append((gp, n))
        return out
