"""Generous may-flow of local values ("can the value bound here end up in that call?").

 MayFlow(F).run(fn, ids) -> {top-level fn path: set(local ids)}: every local that may hold (a part of, a reference to, or a
 value computed from) one of the start locals. OVER-approximation on purpose: a local is reached as soon as the expression it
 is bound from / assigned from / iterates over merely mentions a reached local (incl. inside closures created there); a
 container is reached when something reached is pushed / inserted / extended into it; parameters of crate-local callees are
 reached when the argument mentions a reached local (callees are followed to a bounded depth); closure parameters are reached
 when another argument of the call that takes the closure mentions a reached local.
Because it over-approximates, `no reached local is used by X` is evidence that the value does NOT get to X; `is used by X` is
only evidence that it may. Rules use the first direction for `violated` and combine the second with further checks for `holds`."""
from . import thir as T

CONTAINER_STORE = ("push", "insert", "extend", "append", "push_back", "push_front", "extend_from_slice", "entry", "or_insert", "replace", "get_or_insert_with")


class MayFlow:
    def __init__(self, F, max_depth=3, seed=None):
        self.F = F
        self.max_depth = max_depth
        # seed(node) -> bool: expressions that are sources themselves (e.g. a read of a particular struct field)
        self.seed = seed
        self.reached = {}   # group path -> set(ids)

    def group(self, fn):
        f = fn
        while f.get("dk") == "Closure" and "parent" in f and f["parent"] in self.F.by_path:
            f = self.F.by_path[f["parent"]]
        return f

    def bodies(self, g):
        return [g] + self.F.closures(g)

    def mentions(self, node, ids, _depth=0):
        for x in T.walk(node):
            k = x.get("k")
            if k in ("Var", "Upvar") and x.get("id") in ids:
                return True
            if self.seed is not None and self.seed(x):
                return True
            if k == "Closure" and _depth < 4:
                c = self.F.by_path.get(x.get("d"))
                if c is not None and self.mentions(c["body"], ids, _depth + 1):
                    return True
        return False

    def callee(self, n):
        g = self.F.by_path.get(n.get("r") or "") or self.F.by_path.get(n.get("f") or "")
        if g is not None and g.get("dk") in ("Fn", "AssocFn"):
            return g
        return None

    def run(self, fn, ids, depth=0):
        g = self.group(fn)
        cur = self.reached.setdefault(g["path"], set())
        new = set(ids) - cur
        if not new and depth > 0 and self.seed is None:
            return self.reached
        cur |= set(ids)
        changed = True
        while changed:
            changed = False

            def add(i):
                nonlocal changed
                if i is not None and i not in cur:
                    cur.add(i)
                    changed = True
            for b in self.bodies(g):
                for n in T.walk(b["body"]):
                    k = n.get("k")
                    if k == "LetStmt" and "i" in n and self.mentions(n["i"], cur):
                        for (i, _n, _p) in T.pat_bindings(n["p"]):
                            add(i)
                    elif k == "Let" and self.mentions(n["e"], cur):
                        for (i, _n, _p) in T.pat_bindings(n["p"]):
                            add(i)
                    elif k == "Match" and self.mentions(n["e"], cur):
                        for a in n["arms"]:
                            for (i, _n, _p) in T.pat_bindings(a["p"]):
                                add(i)
                    elif k in ("Assign", "AssignOp") and self.mentions(n["r"], cur):
                        add(T.root_var_id(n["l"]))
                    elif k == "Call":
                        args = n.get("a", [])
                        if n.get("n") in CONTAINER_STORE and len(args) >= 2 and any(self.mentions(a, cur) for a in args[1:]):
                            add(T.root_var_id(args[0]))
                        hit = [self.mentions(a, cur) for a in args]
                        if any(hit):
                            # closure arguments: their parameters receive (parts of) the other arguments
                            for a in args:
                                ap = T.peel(a)
                                if ap.get("k") == "Closure":
                                    c = self.F.by_path.get(ap.get("d"))
                                    if c is not None:
                                        for p_ in c["params"]:
                                            if p_.get("p"):
                                                for (i, _n, _p) in T.pat_bindings(p_["p"]):
                                                    add(i)
                            callee = self.callee(n)
                            if callee is not None and depth < self.max_depth and len(callee["params"]) == len(args):
                                pids = set()
                                for p_, h in zip(callee["params"], hit):
                                    if h and p_.get("p"):
                                        pids |= {i for (i, _n, _p) in T.pat_bindings(p_["p"])}
                                if pids and self.group(callee)["path"] != g["path"]:
                                    self.run(callee, pids, depth + 1)
        return self.reached

    def uses(self, pred):
        """[(group path, node)] call nodes satisfying pred(node) one of whose arguments mentions a reached local of its group"""
        out = []
        for gp, ids in self.reached.items():
            g = self.F.by_path[gp]
            for b in self.bodies(g):
                for n in T.walk(b["body"]):
                    if n.get("k") == "Call" and pred(n) and any(self.mentions(a, ids) for a in n.get("a", [])):
                        out.append((gp, b, n))
        return out
