"""Symbolic normalisation of straight-line THIR: let-inlining and wrapper removal, so
that rules compare *what is computed from what* instead of source text.

Terms are nested tuples:
  ('var', name, id)           a parameter or an un-inlinable local
  ('lit', value)
  ('call', name, (args...), path)   resolved callee short name + full path
  ('bin', op, l, r) ('and', l, r) ('or', l, r) ('not', x) ('neg', x) ('cast', x, ty)
  ('ite', c, t, e) ('try', x) ('field', base, name) ('index', l, r)
  ('adt', path, variant, ((field, term)...)) ('tuple', (terms...))
  ('match', scrut, ((pat, guard, body)...))  ('let', pat, x)   (if-let condition)
  ('return', x) ('closure', path) ('const', path) ('opaque', kind)
"""
from .thir import peel, show_pat, walk, field_chain, pat_bindings, for_loop


def pat_simple(p):
    return p.get("k") in ("Bind", "Wild") and "sub" not in p


def value(t):
    """The value of a term, skipping statements evaluated for effect before it."""
    while isinstance(t, tuple) and t and t[0] == "seq":
        t = t[2]
    return t

TRANSPARENT_CALLS = {"clone", "to_owned", "borrow", "borrow_mut", "as_ref", "as_mut", "deref", "deref_mut", "to_vec", "cloned", "copied"}


class Sym:
    def __init__(self, facts, transparent=TRANSPARENT_CALLS, inline_lets=True):
        self.facts = facts
        self.transparent = set(transparent)
        self.inline_lets = inline_lets
        self.effects = []  # statements evaluated for effect, in order: (term, node)
        self.mutated = set()  # locals that are assigned / mutably borrowed: never inlined

    def scan(self, root):
        """Locals that are written after their binding must not be let-inlined."""
        for n in walk(root):
            k = n.get("k")
            tgt = None
            if k in ("Assign", "AssignOp"):
                tgt = n["l"]
            elif k == "Borrow" and n.get("m"):
                tgt = n["e"]
            if tgt is not None:
                r, _ = field_chain(tgt)
                while r.get("k") == "Index":
                    r, _ = field_chain(r["l"])
                if r.get("k") in ("Var", "Upvar"):
                    self.mutated.add(r["id"])
        return self

    def term(self, root, env=None):
        self.scan(root)
        return self.ev(root, {} if env is None else env)

    def bind_pat(self, pat, term, env):
        k = pat.get("k")
        if k == "Bind":
            if pat["id"] not in self.mutated:
                env[pat["id"]] = term
            if "sub" in pat:
                self.bind_pat(pat["sub"], term, env)
        elif k == "Deref":
            self.bind_pat(pat["p"], term, env)
        elif k == "Leaf" and "adt" not in pat:
            # tuple pattern
            for s in pat["sub"]:
                if term[0] == "tuple" and s["fi"] < len(term[1]):
                    self.bind_pat(s["p"], term[1][s["fi"]], env)
                else:
                    self.bind_pat(s["p"], ("field", term, str(s["fi"])), env)
        elif k == "Leaf":
            for s in pat["sub"]:
                self.bind_pat(s["p"], ("field", term, s["f"]), env)
        elif k == "Variant":
            for s in pat["sub"]:
                self.bind_pat(s["p"], ("field", term, "%s.%s" % (pat["v"], s["f"])), env)
        elif k == "Or":
            # bindings of or-patterns: bind from the first alternative (all alternatives
            # bind the same names; provenance differs only by variant)
            if pat["ps"]:
                self.bind_pat(pat["ps"][0], term, env)
        elif k == "Guard":
            self.bind_pat(pat["p"], term, env)
        elif k == "Slice":
            for i, q in enumerate(pat["pre"]):
                self.bind_pat(q, ("index", term, ("lit", i)), env)
            for i, q in enumerate(pat["suf"]):
                self.bind_pat(q, ("index", term, ("lit", i - len(pat["suf"]))), env)

    def block(self, node, env):
        stmts = []
        for s in node["ss"]:
            if s.get("k") == "LetStmt":
                if "i" in s:
                    t = self.ev(s["i"], env)
                    if "els" in s:
                        stmts.append(("letelse", show_pat(s["p"]), t, self.ev(s["els"], env)))
                    elif s["p"].get("k") == "Wild":
                        stmts.append(t)  # `let _ = e;` evaluates e for its effect
                    elif not pat_simple(s["p"]) or any(i in self.mutated for i, _, _ in pat_bindings(s["p"])):
                        stmts.append(("letstmt", show_pat(s["p"]), t))
                    if self.inline_lets:
                        self.bind_pat(s["p"], t, env)
                continue
            t = self.ev(s, env)
            self.effects.append((t, s))
            stmts.append(t)
        tail = self.ev(node["e"], env) if "e" in node else ("tuple", ())
        if stmts:
            return ("seq", tuple(stmts), tail)
        return tail

    def ev(self, node, env):
        n = node
        k = n.get("k")
        if k in ("Use", "Borrow", "Deref", "Coerce", "NeverToAny", "RawBorrow"):
            return self.ev(n["e"], env)
        if k in ("Var", "Upvar"):
            if n["id"] in env:
                return env[n["id"]]
            return ("var", n["n"], n["id"])
        if k == "Lit":
            return ("lit", n.get("v"))
        if k == "Block":
            return self.block(n, env)
        if k == "Call":
            if "f" not in n:
                return ("callind", self.ev(n["fe"], env), tuple(self.ev(a, env) for a in n["a"]))
            args = tuple(self.ev(a, env) for a in n["a"])
            name = n["n"]
            if name in self.transparent and len(args) == 1:
                return args[0]
            return ("call", name, args, n.get("r") or n["f"])
        if k == "Binary":
            return ("bin", n["o"], self.ev(n["l"], env), self.ev(n["r"], env))
        if k == "Logical":
            return ("and" if n["o"] == "And" else "or", self.ev(n["l"], env), self.ev(n["r"], env))
        if k == "Unary":
            return ("not" if n["o"] == "Not" else "neg", self.ev(n["e"], env))
        if k == "Cast":
            return ("cast", self.ev(n["e"], env), self.facts.ty(n))
        if k == "If":
            c = self.ev(n["c"], env)
            # local ids are unique per function and only never-mutated locals are inlined,
            # so one shared environment is exact across branches
            t = self.ev(n["th"], env)
            e = self.ev(n["el"], env) if "el" in n else ("tuple", ())
            return ("ite", c, t, e)
        if k == "Let":
            t = self.ev(n["e"], env)
            self.bind_pat(n["p"], t, env)
            return ("let", show_pat(n["p"]), t)
        if k == "Match" and n.get("ms", "").startswith("ForLoopDesugar"):
            fl = for_loop(n)
            if fl is not None:
                pat, iterable, body = fl
                it = self.ev(iterable, env)
                self.bind_pat(pat, ("elem", it), env)
                return ("for", show_pat(pat), it, self.ev(body, env))
        if k == "Match":
            if n.get("ms", "").startswith("TryDesugar"):
                sc = peel(n["e"])
                if sc.get("k") == "Call" and sc.get("n") == "branch":
                    return ("try", self.ev(sc["a"][0], env))
            sc = self.ev(n["e"], env)
            arms = []
            for a in n["arms"]:
                e2 = env
                self.bind_pat(a["p"], sc, e2)
                g = self.ev(a["g"], e2) if "g" in a else None
                arms.append((show_pat(a["p"]), g, self.ev(a["b"], e2)))
            return ("match", sc, tuple(arms))
        if k == "Adt":
            return ("adt", n["adt"], n["v"], tuple(sorted((f, self.ev(e, env)) for f, e in n["fs"].items())))
        if k in ("Tuple", "Array"):
            return ("tuple", tuple(self.ev(e, env) for e in n["es"]))
        if k == "Field":
            return ("field", self.ev(n["e"], env), n.get("fn", str(n.get("fi"))))
        if k == "Index":
            return ("index", self.ev(n["l"], env), self.ev(n["r"], env))
        if k == "Return":
            return ("return", self.ev(n["e"], env) if "e" in n else ("tuple", ()))
        if k == "Closure":
            return ("closure", n["d"], tuple(self.ev(u, env) for u in n.get("up", [])))
        if k in ("Const", "Static", "ConstParam"):
            return ("const", n["d"])
        if k == "FnRef":
            return ("fnref", n.get("r") or n["f"])
        if k == "Assign":
            return ("assign", self.ev(n["l"], env), self.ev(n["r"], env))
        if k == "AssignOp":
            return ("assignop", n["o"], self.ev(n["l"], env), self.ev(n["r"], env))
        if k == "Zst":
            return ("zst", self.facts.ty(n))
        if k in ("Break", "Continue"):
            return (k.lower(),)
        if k == "Loop":
            return ("loop", self.ev(n["b"], env))
        return ("opaque", k)


def subterms(t):
    yield t
    if isinstance(t, tuple):
        for x in t[1:]:
            if isinstance(x, tuple):
                if x and isinstance(x[0], str):
                    yield from subterms(x)
                else:
                    for y in x:
                        if isinstance(y, tuple):
                            if y and isinstance(y[0], str):
                                yield from subterms(y)
                            else:
                                for z in y:
                                    if isinstance(z, tuple):
                                        yield from subterms(z)


def fmt(t, depth=0):
    if not isinstance(t, tuple) or not t:
        return repr(t)
    if depth > 10:
        return "…"
    h = t[0]
    d = depth + 1
    if h == "var":
        return t[1]
    if h == "lit":
        return repr(t[1])
    if h == "call":
        return "%s(%s)" % (t[1], ", ".join(fmt(a, d) for a in t[2]))
    if h == "bin":
        return "(%s %s %s)" % (fmt(t[2], d), t[1], fmt(t[3], d))
    if h in ("and", "or"):
        return "(%s %s %s)" % (fmt(t[1], d), "&&" if h == "and" else "||", fmt(t[2], d))
    if h in ("not", "neg", "try", "return"):
        return "%s(%s)" % (h, fmt(t[1], d))
    if h == "cast":
        return "(%s as %s)" % (fmt(t[1], d), t[2])
    if h == "ite":
        return "if %s {%s} else {%s}" % (fmt(t[1], d), fmt(t[2], d), fmt(t[3], d))
    if h == "field":
        return "%s.%s" % (fmt(t[1], d), t[2])
    if h == "tuple":
        return "(%s)" % ", ".join(fmt(a, d) for a in t[1])
    if h == "adt":
        return "%s::%s{%s}" % (t[1].split("::")[-1], t[2], ", ".join("%s: %s" % (f, fmt(x, d)) for f, x in t[3]))
    if h == "match":
        return "match %s {%s}" % (fmt(t[1], d), "; ".join("%s%s => %s" % (p, (" if " + fmt(g, d)) if g else "", fmt(b, d)) for p, g, b in t[2]))
    if h == "let":
        return "let %s = %s" % (t[1], fmt(t[2], d))
    if h == "unpat":
        return "%s<-%s" % (t[1], fmt(t[2], d))
    if h == "const":
        return t[1].split("::")[-1]
    if h == "index":
        return "%s[%s]" % (fmt(t[1], d), fmt(t[2], d))
    if h == "for":
        return "for %s in %s %s" % (t[1], fmt(t[2], d), fmt(t[3], d))
    if h == "elem":
        return "elem(%s)" % fmt(t[1], d)
    if h == "callind":
        return "(%s)(%s)" % (fmt(t[1], d), ", ".join(fmt(a, d) for a in t[2]))
    if h == "seq":
        return "{%s; %s}" % ("; ".join(fmt(x, d) for x in t[1]), fmt(t[2], d))
    if h == "letstmt":
        return "let %s = %s" % (t[1], fmt(t[2], d))
    if h == "letelse":
        return "let %s = %s else %s" % (t[1], fmt(t[2], d), fmt(t[3], d))
    if h == "assign":
        return "%s = %s" % (fmt(t[1], d), fmt(t[2], d))
    if h == "assignop":
        return "%s %s= %s" % (fmt(t[2], d), t[1], fmt(t[3], d))
    if h == "loop":
        return "loop %s" % fmt(t[1], d)
    return "<%s>" % h
