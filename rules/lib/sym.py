"""Symbolic normalisation of straight-line THIR: let-inlining and wrapper removal, so
that rules compare *what is computed from what* instead of source text.

Terms are nested tuples:
  ('var', name, id)           a parameter or an un-inlinable local
  ('lit', value)
  ('call', name, (args...), path)   resolved callee short name + full path
  ('bin', op, l, r) ('and', l, r) ('or', l, r) ('not', x) ('neg', x) ('cast', x, ty)
  ('ite', c, t, e) ('try', x) ('field', base, name) ('index', l, r)
  ('adt', path, variant, ((field, term)...)) ('tuple', (terms...))
  ('match', scrut, ((pat, guard, body)...))  ('let', pat, x)   (if-let condition)
  ('return', x) ('closure', path) ('const', path) ('opaque', kind)
"""
from .thir import peel, show_pat, walk, field_chain, pat_bindings, for_loop


def pat_simple(p):
    return p.get("k") in ("Bind", "Wild") and "sub" not in p


def value(t):
    """The value of a term, skipping statements evaluated for effect before it."""
    while isinstance(t, tuple) and t and t[0] == "seq":
        t = t[2]
    return t

TRANSPARENT_CALLS = {"clone", "to_owned", "borrow", "borrow_mut", "as_ref", "as_mut", "deref", "deref_mut", "to_vec", "cloned", "copied"}


class Sym:
    def __init__(self, facts, transparent=TRANSPARENT_CALLS, inline_lets=True, fold=False, inline_local=0):
        self.facts = facts
        # fold: constant folding of enum constants -- a match / if whose scrutinee or condition is a known unit variant is
        # replaced by the selected arm (so a body can be evaluated "for op == IntAdd"), `==`/`!=` of two constants become
        # literals, an indirect call of a function reference becomes a call
        # inline_local: depth to which calls of small crate-local functions are replaced by their evaluated bodies
        self.fold = fold
        self.inline_local = inline_local
        self._depth = 0
        self.closure_lets = {}   # local id -> closure path, for `let mut f = |..| ..` (a FnMut local is never let-inlined)
        self.transparent = set(transparent)
        self.inline_lets = inline_lets
        self.effects = []  # statements evaluated for effect, in order: (term, node)
        self.mutated = set()  # locals that are assigned / mutably borrowed: never inlined

    def scan(self, root):
        """Locals that are written after their binding must not be let-inlined."""
        for n in walk(root):
            k = n.get("k")
            tgt = None
            if k == "LetStmt" and "i" in n and n["p"].get("k") == "Bind" and peel(n["i"]).get("k") == "Closure":
                self.closure_lets[n["p"]["id"]] = peel(n["i"])["d"]
            if k in ("Assign", "AssignOp"):
                tgt = n["l"]
            elif k == "Borrow" and n.get("m"):
                tgt = n["e"]
            if tgt is not None:
                r, _ = field_chain(tgt)
                while r.get("k") == "Index":
                    r, _ = field_chain(r["l"])
                if r.get("k") in ("Var", "Upvar"):
                    self.mutated.add(r["id"])
        return self

    def term(self, root, env=None):
        self.scan(root)
        return self.ev(root, {} if env is None else env)

    def bind_pat(self, pat, term, env):
        k = pat.get("k")
        if k == "Bind":
            if pat["id"] not in self.mutated:
                env[pat["id"]] = term
            if "sub" in pat:
                self.bind_pat(pat["sub"], term, env)
        elif k == "Deref":
            self.bind_pat(pat["p"], term, env)
        elif k == "Leaf" and "adt" not in pat:
            # tuple pattern
            for s in pat["sub"]:
                if term[0] == "tuple" and s["fi"] < len(term[1]):
                    self.bind_pat(s["p"], term[1][s["fi"]], env)
                else:
                    self.bind_pat(s["p"], ("field", term, str(s["fi"])), env)
        elif k == "Leaf":
            for s in pat["sub"]:
                self.bind_pat(s["p"], ("field", term, s["f"]), env)
        elif k == "Variant":
            for s in pat["sub"]:
                self.bind_pat(s["p"], ("field", term, "%s.%s" % (pat["v"], s["f"])), env)
        elif k == "Or":
            # bindings of or-patterns: bind from the first alternative (all alternatives
            # bind the same names; provenance differs only by variant)
            if pat["ps"]:
                self.bind_pat(pat["ps"][0], term, env)
        elif k == "Guard":
            self.bind_pat(pat["p"], term, env)
        elif k == "Slice":
            for i, q in enumerate(pat["pre"]):
                self.bind_pat(q, ("index", term, ("lit", i)), env)
            for i, q in enumerate(pat["suf"]):
                self.bind_pat(q, ("index", term, ("lit", i - len(pat["suf"]))), env)

    def apply(self, f, arg):
        """value of calling the function-valued term f on arg: closures (body evaluated), variant constructors, fn refs"""
        f = value(f)
        if f[0] == "closure":
            c = self.facts.by_path.get(f[1])
            if c is None:
                return None
            ps = [p_ for p_ in c["params"] if p_.get("p")]
            if len(ps) == 2:
                ps = ps[1:]
            env2 = {}
            if len(ps) == 1:
                a1 = arg[1][0] if arg[0] == "tuple" and len(arg[1]) == 1 else arg
                self.bind_pat(ps[0]["p"], a1, env2)
            elif arg[0] == "tuple" and len(arg[1]) == len(ps):
                for p_, a_ in zip(ps, arg[1]):
                    self.bind_pat(p_["p"], a_, env2)
            sub = Sym(self.facts, self.transparent, self.inline_lets, self.fold, self.inline_local)
            sub._depth = self._depth
            sub.scan(c["body"])
            return sub.ev(c["body"], env2)
        if f[0] == "fnref":
            path = f[1]
            g = self.facts.by_path.get(path)
            if g is None:
                # a tuple-variant constructor used as a function: Enum::Variant
                parts = path.rsplit("::", 1)
                if len(parts) == 2 and any(a["path"] == parts[0] or a["path"].endswith("::" + parts[0]) or parts[0].endswith(a["path"]) for a in self.facts.adts.values()):
                    adt = [a for a in self.facts.adts.values() if a["path"] == parts[0] or parts[0].endswith(a["path"]) or a["path"].endswith("::" + parts[0])][0]
                    if any(v["name"] == parts[1] for v in adt["variants"]):
                        return ("adt", adt["path"], parts[1], (("0", arg),))
                return ("call", path.rsplit("::", 1)[-1], (arg,), path)
            return ("call", g["name"], (arg,), path)
        return None

    def block(self, node, env):
        stmts = []
        for s in node["ss"]:
            if s.get("k") == "LetStmt":
                if "i" in s:
                    t = self.ev(s["i"], env)
                    if "els" in s:
                        stmts.append(("letelse", show_pat(s["p"]), t, self.ev(s["els"], env)))
                    elif s["p"].get("k") == "Wild":
                        stmts.append(t)  # `let _ = e;` evaluates e for its effect
                    elif not pat_simple(s["p"]) or any(i in self.mutated for i, _, _ in pat_bindings(s["p"])):
                        stmts.append(("letstmt", show_pat(s["p"]), t))
                    if self.inline_lets:
                        self.bind_pat(s["p"], t, env)
                continue
            t = self.ev(s, env)
            self.effects.append((t, s))
            stmts.append(t)
        tail = self.ev(node["e"], env) if "e" in node else ("tuple", ())
        if stmts:
            return ("seq", tuple(stmts), tail)
        return tail

    def ev(self, node, env):
        n = node
        k = n.get("k")
        if k in ("Use", "Borrow", "Deref", "Coerce", "NeverToAny", "RawBorrow"):
            return self.ev(n["e"], env)
        if k in ("Var", "Upvar"):
            if n["id"] in env:
                return env[n["id"]]
            return ("var", n["n"], n["id"])
        if k == "Lit":
            return ("lit", n.get("v"))
        if k == "Block":
            return self.block(n, env)
        if k == "Call":
            if "f" not in n:
                fe = self.ev(n["fe"], env)
                if self.fold:
                    fe = flow_norm(fe)
                    if fe[0] == "fnref":
                        return ("call", fe[1].rsplit("::", 1)[-1], tuple(self.ev(a, env) for a in n["a"]), fe[1])
                    if fe[0] == "return":
                        return fe
                return ("callind", fe, tuple(self.ev(a, env) for a in n["a"]))
            args = tuple(self.ev(a, env) for a in n["a"])
            name = n["n"]
            if name in self.transparent and len(args) == 1:
                return args[0]
            if self.fold and name in ("eq", "ne") and len(args) == 2:
                a0, a1 = value(args[0]), value(args[1])
                if a0[0] == "adt" and a1[0] == "adt" and not a0[3] and not a1[3] and a0[1] == a1[1]:
                    return ("lit", (a0[2] == a1[2]) == (name == "eq"))
            if self.fold:
                for a_ in args:
                    av = value(a_)
                    if av[0] == "return":
                        return av       # evaluating the argument leaves the function
                if name in ("call", "call_mut", "call_once") and len(args) == 2:
                    f0 = value(args[0])
                    if f0[0] == "var" and len(f0) > 2 and f0[2] in self.closure_lets:
                        f0 = ("closure", self.closure_lets[f0[2]], ())
                    if f0[0] == "closure":
                        r = self.apply(f0, args[1])
                        if r is not None:
                            return r
                if name == "map_err" and len(args) == 2:
                    # x.map_err(f) has the value of Ok(x?) up to the error type
                    return ("adt", "core::result::Result", "Ok", (("0", ("try", args[0])),))
                if name in ("map_or_else", "map_or") and len(args) == 3 and "result::Result" in (n.get("r") or n.get("f") or ""):
                    x, dflt, okf = args
                    okv = self.apply(okf, ("field", x, "Ok.0"))
                    errv = self.apply(dflt, ("field", x, "Err.0")) if name == "map_or_else" else dflt
                    if okv is not None and errv is not None:
                        return ("match", x, (("Ok(_)", None, okv), ("Err(_)", None, errv)))
            if self.inline_local and self._depth < self.inline_local and any(value(a_)[0] == "adt" and not value(a_)[3] for a_ in args):
                # only helpers that are handed the dispatch constant are inlined (a helper per operator family)
                g = self.facts.by_path.get(n.get("r") or "") or self.facts.by_path.get(n.get("f") or "")
                if g is not None and g.get("dk") in ("Fn", "AssocFn") and len(g["params"]) == len(n["a"]) and sum(1 for _ in walk(g["body"])) < 500:
                    sub = Sym(self.facts, self.transparent, self.inline_lets, self.fold, self.inline_local)
                    sub._depth = self._depth + 1
                    sub.scan(g["body"])
                    env2 = {}
                    for p_, a_ in zip(g["params"], args):
                        if p_.get("p"):
                            sub.bind_pat(p_["p"], a_, env2)
                    return ("inlined", g["path"], sub.ev(g["body"], env2))
            return ("call", name, args, n.get("r") or n["f"])
        if k == "Binary":
            return ("bin", n["o"], self.ev(n["l"], env), self.ev(n["r"], env))
        if k == "Logical":
            return ("and" if n["o"] == "And" else "or", self.ev(n["l"], env), self.ev(n["r"], env))
        if k == "Unary":
            return ("not" if n["o"] == "Not" else "neg", self.ev(n["e"], env))
        if k == "Cast":
            return ("cast", self.ev(n["e"], env), self.facts.ty(n))
        if k == "If" and self.fold:
            c = self.ev(n["c"], env)
            cv = value(c)
            if cv[0] == "lit" and isinstance(cv[1], bool):
                if cv[1]:
                    return self.ev(n["th"], env)
                return self.ev(n["el"], env) if "el" in n else ("tuple", ())
        if k == "If":
            c = self.ev(n["c"], env)
            # local ids are unique per function and only never-mutated locals are inlined,
            # so one shared environment is exact across branches
            t = self.ev(n["th"], env)
            e = self.ev(n["el"], env) if "el" in n else ("tuple", ())
            return ("ite", c, t, e)
        if k == "Let":
            t = self.ev(n["e"], env)
            self.bind_pat(n["p"], t, env)
            return ("let", show_pat(n["p"]), t)
        if k == "Match" and n.get("ms", "").startswith("ForLoopDesugar"):
            fl = for_loop(n)
            if fl is not None:
                pat, iterable, body = fl
                it = self.ev(iterable, env)
                self.bind_pat(pat, ("elem", it), env)
                return ("for", show_pat(pat), it, self.ev(body, env))
        if k == "Match":
            if n.get("ms", "").startswith("TryDesugar"):
                sc = peel(n["e"])
                if sc.get("k") == "Call" and sc.get("n") == "branch":
                    return ("try", self.ev(sc["a"][0], env))
            sc = self.ev(n["e"], env)
            if self.fold:
                scv = value(sc)
                if scv[0] == "adt" and not scv[3]:
                    from .thir import pat_variant_names, WILD
                    for a in n["arms"]:
                        names = pat_variant_names(a["p"])
                        if scv[2] in names or WILD in names:
                            if "g" in a:
                                g = value(self.ev(a["g"], env))
                                if g == ("lit", False):
                                    continue
                                if g != ("lit", True):
                                    break       # guard not decided: keep the whole match
                            return self.ev(a["b"], env)
            arms = []
            for a in n["arms"]:
                e2 = env
                self.bind_pat(a["p"], sc, e2)
                g = self.ev(a["g"], e2) if "g" in a else None
                arms.append((show_pat(a["p"]), g, self.ev(a["b"], e2)))
            return ("match", sc, tuple(arms))
        if k == "Adt":
            return ("adt", n["adt"], n["v"], tuple(sorted((f, self.ev(e, env)) for f, e in n["fs"].items())))
        if k in ("Tuple", "Array"):
            return ("tuple", tuple(self.ev(e, env) for e in n["es"]))
        if k == "Field":
            return ("field", self.ev(n["e"], env), n.get("fn", str(n.get("fi"))))
        if k == "Index":
            return ("index", self.ev(n["l"], env), self.ev(n["r"], env))
        if k == "Return":
            return ("return", self.ev(n["e"], env) if "e" in n else ("tuple", ()))
        if k == "Closure":
            return ("closure", n["d"], tuple(self.ev(u, env) for u in n.get("up", [])))
        if k in ("Const", "Static", "ConstParam"):
            return ("const", n["d"])
        if k == "FnRef":
            return ("fnref", n.get("r") or n["f"])
        if k == "Assign":
            return ("assign", self.ev(n["l"], env), self.ev(n["r"], env))
        if k == "AssignOp":
            return ("assignop", n["o"], self.ev(n["l"], env), self.ev(n["r"], env))
        if k == "Zst":
            return ("zst", self.facts.ty(n))
        if k in ("Break", "Continue"):
            return (k.lower(),)
        if k == "Loop":
            return ("loop", self.ev(n["b"], env))
        return ("opaque", k)


def _diverges(t):
    t = value(t)
    return isinstance(t, tuple) and t and t[0] == "return"


def flow_norm(t):
    """Normalise control flow into an if/else tree of values: guard clauses (`if c { return X }` followed by more code),
    let-else, `return X` in value position and inlined helper bodies. The result has the same value on every path; statements
    evaluated only for effect are dropped."""
    if not isinstance(t, tuple) or not t:
        return t
    h = t[0]
    if h == "inlined":
        # `return` inside an inlined helper ends the helper, not the caller
        return _unret_tree(flow_norm(t[2]))
    if h == "return":
        return ("return", flow_norm(t[1]))
    if h == "seq":
        stmts, tail = list(t[1]), t[2]
        for i, st in enumerate(stmts):
            rest = ("seq", tuple(stmts[i + 1:]), tail) if stmts[i + 1:] else tail
            sv = st
            if isinstance(sv, tuple) and sv and sv[0] == "ite":
                a, b = flow_norm(sv[2]), flow_norm(sv[3])
                if _diverges(a) and not _diverges(b):
                    return ("ite", sv[1], value(a)[1], _unret(flow_norm(rest)))
                if _diverges(b) and not _diverges(a):
                    return ("ite", sv[1], _unret(flow_norm(rest)), value(b)[1])
            if isinstance(sv, tuple) and sv and sv[0] == "letelse":
                e = flow_norm(sv[3])
                if _diverges(e):
                    return ("ite", ("let", sv[1], sv[2]), _unret(flow_norm(rest)), value(e)[1])
            if isinstance(sv, tuple) and sv and sv[0] == "return":
                return ("return", flow_norm(sv[1]))
        return flow_norm(tail)
    if h == "ite":
        return ("ite", t[1], _unret(flow_norm(t[2])), _unret(flow_norm(t[3])))
    if h == "match":
        return ("match", flow_norm(t[1]), tuple((p, g, _unret(flow_norm(b))) for p, g, b in t[2]))
    def strict(children, rebuild):
        cs = [flow_norm(c) for c in children]
        for c in cs:
            if _diverges(c):
                return value(c)         # evaluating an operand leaves the function: so does the whole expression
        return rebuild(cs)
    if h == "call":
        return strict(t[2], lambda cs: ("call", t[1], tuple(cs)) + tuple(t[3:]))
    if h == "callind":
        return strict((t[1],) + tuple(t[2]), lambda cs: ("callind", cs[0], tuple(cs[1:])))
    if h == "adt":
        return strict([x for f, x in t[3]], lambda cs: ("adt", t[1], t[2], tuple((f, c) for (f, _x), c in zip(t[3], cs))))
    if h in ("cast",):
        return strict([t[1]], lambda cs: ("cast", cs[0]) + tuple(t[2:]))
    if h in ("try", "not", "neg"):
        return strict([t[1]], lambda cs: (h, cs[0]))
    if h in ("and", "or"):
        return (h, flow_norm(t[1]), flow_norm(t[2]))
    if h == "bin":
        r = strict([t[2], t[3]], lambda cs: ("bin", t[1], cs[0], cs[1]))
        if r[0] == "bin" and r[1] in ("Eq", "Ne"):
            for a, b in ((r[2], r[3]), (r[3], r[2])):
                if b[0] == "lit" and isinstance(b[1], bool):
                    same = (r[1] == "Eq") == b[1]
                    return a if same else ("not", a)
        return r
    if h == "field":
        return strict([t[1]], lambda cs: ("field", cs[0], t[2]))
    if h == "tuple":
        return strict(t[1], lambda cs: ("tuple", tuple(cs)))
    return t


def _unret(t):
    return t[1] if isinstance(t, tuple) and t and t[0] == "return" else t


def _unret_tree(t):
    """drop `return` markers at the leaves of an if/else/match tree (the tree is the whole value of an inlined body)"""
    t = _unret(t)
    if isinstance(t, tuple) and t and t[0] == "ite":
        return ("ite", t[1], _unret_tree(t[2]), _unret_tree(t[3]))
    if isinstance(t, tuple) and t and t[0] == "match":
        return ("match", t[1], tuple((p, g, _unret_tree(b)) for p, g, b in t[2]))
    return t


def subterms(t):
    yield t
    if isinstance(t, tuple):
        for x in t[1:]:
            if isinstance(x, tuple):
                if x and isinstance(x[0], str):
                    yield from subterms(x)
                else:
                    for y in x:
                        if isinstance(y, tuple):
                            if y and isinstance(y[0], str):
                                yield from subterms(y)
                            else:
                                for z in y:
                                    if isinstance(z, tuple):
                                        yield from subterms(z)


def fmt(t, depth=0):
    if not isinstance(t, tuple) or not t:
        return repr(t)
    if depth > 10:
        return "…"
    h = t[0]
    d = depth + 1
    if h == "var":
        return t[1]
    if h == "lit":
        return repr(t[1])
    if h == "call":
        return "%s(%s)" % (t[1], ", ".join(fmt(a, d) for a in t[2]))
    if h == "bin":
        return "(%s %s %s)" % (fmt(t[2], d), t[1], fmt(t[3], d))
    if h in ("and", "or"):
        return "(%s %s %s)" % (fmt(t[1], d), "&&" if h == "and" else "||", fmt(t[2], d))
    if h in ("not", "neg", "try", "return"):
        return "%s(%s)" % (h, fmt(t[1], d))
    if h == "cast":
        return "(%s as %s)" % (fmt(t[1], d), t[2])
    if h == "ite":
        return "if %s {%s} else {%s}" % (fmt(t[1], d), fmt(t[2], d), fmt(t[3], d))
    if h == "field":
        return "%s.%s" % (fmt(t[1], d), t[2])
    if h == "tuple":
        return "(%s)" % ", ".join(fmt(a, d) for a in t[1])
    if h == "adt":
        return "%s::%s{%s}" % (t[1].split("::")[-1], t[2], ", ".join("%s: %s" % (f, fmt(x, d)) for f, x in t[3]))
    if h == "match":
        return "match %s {%s}" % (fmt(t[1], d), "; ".join("%s%s => %s" % (p, (" if " + fmt(g, d)) if g else "", fmt(b, d)) for p, g, b in t[2]))
    if h == "let":
        return "let %s = %s" % (t[1], fmt(t[2], d))
    if h == "unpat":
        return "%s<-%s" % (t[1], fmt(t[2], d))
    if h == "const":
        return t[1].split("::")[-1]
    if h == "index":
        return "%s[%s]" % (fmt(t[1], d), fmt(t[2], d))
    if h == "for":
        return "for %s in %s %s" % (t[1], fmt(t[2], d), fmt(t[3], d))
    if h == "elem":
        return "elem(%s)" % fmt(t[1], d)
    if h == "callind":
        return "(%s)(%s)" % (fmt(t[1], d), ", ".join(fmt(a, d) for a in t[2]))
    if h == "seq":
        return "{%s; %s}" % ("; ".join(fmt(x, d) for x in t[1]), fmt(t[2], d))
    if h == "letstmt":
        return "let %s = %s" % (t[1], fmt(t[2], d))
    if h == "letelse":
        return "let %s = %s else %s" % (t[1], fmt(t[2], d), fmt(t[3], d))
    if h == "assign":
        return "%s = %s" % (fmt(t[1], d), fmt(t[2], d))
    if h == "assignop":
        return "%s %s= %s" % (fmt(t[2], d), t[1], fmt(t[3], d))
    if h == "loop":
        return "loop %s" % fmt(t[1], d)
    return "<%s>" % h
