"""Small def-use / sign analyses on THIR bodies for the integer arithmetic of the interval modules.

 parents(fn)      : id(node) -> parent node (over the body and its closures)
 Bindings(F, fn)  : immutable `let` bindings: var id -> initialiser node (tuple destructuring of a
                    tuple literal is followed positionally); uses(var id) -> Var nodes
 sign(node)       : 'nonneg' | 'mayneg' | 'unknown' for an integer-typed expression
                    mayneg needs positive evidence: a signed conversion of a bitvector
                    (try_to_i64/try_to_i128/...) or a subtraction reaches the value
"""
from . import thir as T

SIGNED = ("i8", "i16", "i32", "i64", "i128", "isize")
UNSIGNED = ("u8", "u16", "u32", "u64", "u128", "usize")
SIGNED_CONVERSIONS = ("try_to_i8", "try_to_i16", "try_to_i32", "try_to_i64", "try_to_i128", "try_to_isize")
PASS_CALLS = ("unwrap", "expect", "clone", "unwrap_or_default", "into", "from")


class Flow:
    def __init__(self, F, fn):
        self.F = F
        self.fn = fn
        self.parent = {}
        self.init = {}
        self.uses = {}
        self.mutable = set()
        bodies = [fn["body"]] + [c["body"] for c in F.closures(fn)]
        for b in bodies:
            for n in T.walk(b):
                for c in T.children(n):
                    self.parent[id(c)] = n
                k = n.get("k")
                if k in ("Var", "Upvar"):
                    self.uses.setdefault(n["id"], []).append(n)
                if k == "LetStmt" and "i" in n:
                    self._bind(n["p"], n["i"])
                if k == "Let":
                    self._bind_payload(n["p"], n["e"])
                if k == "Match":
                    for a in n["arms"]:
                        self._bind_payload(a["p"], n["e"])
                if k in ("Assign", "AssignOp"):
                    v = T.root_var_id(n["l"])
                    if v is not None:
                        self.mutable.add(v)
                if k == "Borrow" and n.get("m"):
                    v = T.root_var_id(n["e"])
                    if v is not None:
                        self.mutable.add(v)

    def _bind(self, pat, init):
        p = T.pat_peel(pat) if hasattr(T, "pat_peel") else pat
        k = p.get("k")
        if k == "Bind" and not p.get("sub"):
            self.init[p["id"]] = init
            return
        if k == "Leaf":
            i = T.peel(init)
            if i.get("k") == "Tuple":
                for s in p.get("sub", []):
                    idx = s.get("fi", s.get("f"))
                    if isinstance(idx, int) and idx < len(i["es"]):
                        self._bind(s["p"], i["es"][idx])

    def _bind_payload(self, pat, scrut):
        """`Ok(x)` / `Some(x)` matched against e: x is the success payload of e (for sign purposes e itself)."""
        p = T.pat_peel(pat)
        if p.get("k") == "Variant" and p.get("v") in ("Ok", "Some") and len(p.get("sub", [])) == 1:
            q = p["sub"][0]["p"]
            if q.get("k") == "Bind" and not q.get("sub"):
                self.init[q["id"]] = scrut
        elif p.get("k") == "Leaf" and T.peel(scrut).get("k") == "Tuple":
            es = T.peel(scrut)["es"]
            for s_ in p.get("sub", []):
                idx = s_.get("fi", s_.get("f"))
                if isinstance(idx, int) and idx < len(es):
                    self._bind_payload(s_["p"], es[idx])

    def ty(self, n):
        return self.F.ty(n)

    def definition(self, n):
        """Follow an immutable local to its initialiser; `x?` is read as x's success value."""
        n = T.peel(n)
        seen = 0
        while seen < 30:
            seen += 1
            if n.get("k") in ("Var", "Upvar") and n["id"] in self.init and n["id"] not in self.mutable:
                n = T.peel(self.init[n["id"]])
                continue
            if n.get("k") == "Match" and str(n.get("ms", "")).startswith("TryDesugar"):
                sc = T.peel(n["e"])
                if sc.get("k") == "Call" and sc.get("n") == "branch" and sc.get("a"):
                    n = T.peel(sc["a"][0])
                    continue
            break
        return n

    def sign(self, n, depth=0):
        n = self.definition(n)
        if depth > 25:
            return "unknown"
        k = n.get("k")
        ty = self.ty(n)
        if ty in UNSIGNED:
            return "nonneg"
        if k == "Lit":
            try:
                return "nonneg" if int(str(n.get("v")).split("_")[0].rstrip("iu")) >= 0 else "mayneg"
            except Exception:
                return "unknown"
        if k == "Cast":
            inner = self.definition(n["e"])
            if self.ty(inner) in UNSIGNED:
                return "nonneg"
            return self.sign(inner, depth + 1)
        if k == "Call":
            if n.get("n") in SIGNED_CONVERSIONS:
                return "mayneg"
            if n.get("n") in PASS_CALLS and n.get("a"):
                return self.sign(n["a"][0], depth + 1)
            return "unknown"
        if k == "Binary":
            l, r = self.sign(n["l"], depth + 1), self.sign(n["r"], depth + 1)
            o = n["o"]
            if o == "Sub":
                return "mayneg" if "unknown" not in (l, r) or "mayneg" in (l, r) else "unknown"
            if o == "Rem":
                if is_normaliser(self, n):
                    return "nonneg"
                return l
            if o in ("Add", "Mul", "Div", "Shl", "Shr", "BitAnd", "BitOr"):
                if l == "nonneg" and r == "nonneg":
                    return "nonneg"
                if "mayneg" in (l, r):
                    return "mayneg"
                return "unknown"
            return "unknown"
        if k == "Unary" and n.get("o") == "Neg":
            return "mayneg"
        if k == "Field":
            return "unknown"
        if k in ("Block",) and n.get("e") is not None:
            return self.sign(n["e"], depth + 1)
        return "unknown"

    def same(self, a, b):
        """Structural equality of two pure expressions after following immutable locals / casts."""
        a, b = self.definition(a), self.definition(b)
        while a.get("k") == "Cast":
            a = self.definition(a["e"])
        while b.get("k") == "Cast":
            b = self.definition(b["e"])
        return T.show(a) == T.show(b)

    def consumers(self, n):
        """(consumer node, role) pairs: where the value of n goes. Wrappers are skipped; a `let x = n` hands over to the uses of x."""
        out = []
        cur = n
        while True:
            p = self.parent.get(id(cur))
            if p is None:
                return out + [(None, "escapes")]
            k = p.get("k")
            if k in T.WRAPPERS or (k == "Block" and p.get("e") is cur) or k == "Scope":
                cur = p
                continue
            if k == "LetStmt":
                pat = p["p"]
                if pat.get("k") == "Bind" and not pat.get("sub"):
                    vid = pat["id"]
                    if vid in self.mutable:
                        return out + [(p, "mutable-local")]
                    for u in self.uses.get(vid, []):
                        out.extend(self.consumers(u))
                    return out
                return out + [(p, "pattern")]
            if k == "Tuple":
                # tuple literal destructured by a let: follow the matching binding
                pp = self.parent.get(id(p))
                while pp is not None and pp.get("k") in T.WRAPPERS:
                    pp = self.parent.get(id(pp))
                if pp is not None and pp.get("k") == "LetStmt" and pp["p"].get("k") == "Leaf":
                    idx = [i for i, e in enumerate(p["es"]) if e is cur]
                    for s in pp["p"].get("sub", []):
                        if idx and s.get("fi", s.get("f")) == idx[0] and s["p"].get("k") == "Bind":
                            vid = s["p"]["id"]
                            if vid in self.mutable:
                                return out + [(pp, "mutable-local")]
                            for u in self.uses.get(vid, []):
                                out.extend(self.consumers(u))
                            return out
                return out + [(p, "tuple")]
            return out + [(p, cur)]


def is_normaliser(flow, rem):
    """rem is `(r + m) % m` where r is directly a remainder by the same modulus m (|r| < m), so the result is in [0, m)."""
    if rem.get("k") != "Binary" or rem.get("o") != "Rem":
        return False
    l = flow.definition(rem["l"])
    if l.get("k") != "Binary" or l.get("o") != "Add":
        return False
    for a, b in ((l["l"], l["r"]), (l["r"], l["l"])):
        if flow.same(b, rem["r"]):
            inner = flow.definition(a)
            if inner.get("k") == "Binary" and inner.get("o") == "Rem" and flow.same(inner["r"], rem["r"]):
                return True
    return False
