"""A size type-checker for code that builds / rewrites IR expressions (C12).

It is an abstract interpreter over THIR bodies whose abstract values carry only SIZES:
  expressions are shapes (variant + sub-shapes) with a symbolic byte size, bit-vectors carry their width,
  variables their size, ByteSize values are linear terms over size symbols, operator values are sets of variant names.
Branches (if / if-let / match arms incl. or-patterns and guards) are enumerated as paths; every guard that relates sizes
(`*size == arg.bytesize()`, `lsb + size == base_size`, `lhs == rhs`) becomes a linear equation of the path.
Input expressions are ASSUMED well-sized (that is the invariant the pass may rely on); constructed ones are CHECKED.

Obligations recorded while interpreting:
  rewrite   `*self = E` (self: Expression): size(E) == size(old self) and E is internally well-sized
  assign    `Def::Assign { var, value }` constructed: size(value) == var.size and value well-sized
  subst     `e.substitute_input_var(var, r)`: size(r) == var.size
An obligation is decided by Gaussian elimination of (lhs - rhs) modulo the path equations:
  0            -> holds
  non-zero over free size symbols only (no opaque part, no unrecognised guard on the path) -> violated: the sizes are
                 universally quantified, so some well-sized input makes the two sides differ
  otherwise    -> undecided
The table "which operator yields which result size" is extracted from Expression::bytesize in the analysed source.
"""
import copy
from fractions import Fraction

from . import thir as T

SHIFT_OPS = {"IntLeft", "IntRight", "IntSRight"}
BOOL_OPS = {"BoolAnd", "BoolOr", "BoolXOr"}
BOOL_UNOPS = {"BoolNegate"}
TRANSPARENT = {"clone", "deref", "deref_mut", "as_ref", "as_mut", "borrow", "borrow_mut", "to_owned", "unwrap", "expect", "unwrap_or_default", "to_vec", "cloned", "copied"}
BV_WIDTH_CTORS = {"zero", "one", "signed_min_value", "signed_max_value", "unsigned_max_value", "all_set", "all_unset"}
BV_RESIZE = {"into_resize_unsigned", "into_resize_signed", "into_zero_extend", "into_sign_extend", "into_truncate", "into_zero_resize", "into_sign_resize"}
BV_SAME = {"into_bitnot", "into_negate", "into_checked_add", "into_checked_sub", "into_checked_mul", "neg", "not", "into_wrapping_add", "into_wrapping_sub"}
IGNORED_PREDICATES = {"is_zero", "is_one", "is_some", "is_none", "is_empty", "is_top", "to_bool", "is_ok", "is_err", "contains", "contains_key", "starts_with", "ends_with"}
MAX_PATHS = 4000
# callee name -> (expression parameter, variable parameter): requires size(expression) == variable.size
CONTRACTS = {"substitute_input_var": ("replace_with_expression", "input_var")}


# ----------------------------------------------------------------------------- linear terms
class Lin:
    __slots__ = ("c", "k")

    def __init__(self, c=None, k=0):
        self.c = dict(c or {})
        self.k = Fraction(k)

    @staticmethod
    def sym(name):
        return Lin({name: Fraction(1)})

    @staticmethod
    def const(v):
        return Lin({}, v)

    def __add__(self, o):
        c = dict(self.c)
        for s, v in o.c.items():
            c[s] = c.get(s, 0) + v
            if c[s] == 0:
                del c[s]
        return Lin(c, self.k + o.k)

    def __sub__(self, o):
        return self + o.scale(-1)

    def scale(self, f):
        return Lin({s: v * f for s, v in self.c.items() if v * f != 0}, self.k * f)

    def is_zero(self):
        return not self.c and self.k == 0

    def opaque(self):
        return any(s.startswith("?") for s in self.c)

    def __repr__(self):
        parts = []
        for s in sorted(self.c):
            v = self.c[s]
            parts.append(("%s" % s) if v == 1 else ("-%s" % s) if v == -1 else "%s*%s" % (v, s))
        if self.k != 0 or not parts:
            parts.append(str(self.k))
        return " + ".join(parts).replace("+ -", "- ")


def reduce_mod(term, eqs):
    """Residual of `term` modulo the linear equations eqs (each a Lin meaning == 0). Opaque symbols are eliminated
    last so that a residual mentions them only when unavoidable."""
    rows = []
    order = lambda s: (0 if not s.startswith("?") else 1, s)
    for e in eqs:
        e = Lin(e.c, e.k)
        for p, r in rows:
            if p in e.c:
                e = e - r.scale(e.c[p])
        if not e.c:
            continue
        p = sorted(e.c, key=order)[-1] if False else sorted(e.c, key=order)[0]
        r = e.scale(Fraction(1) / e.c[p])
        rows = [(q, rr - r.scale(rr.c[p]) if p in rr.c else rr) for q, rr in rows]
        rows.append((p, r))
    t = Lin(term.c, term.k)
    for p, r in rows:
        if p in t.c:
            t = t - r.scale(t.c[p])
    return t


# ----------------------------------------------------------------------------- abstract values
class Op:
    def __init__(self, names=None):
        self.names = set(names) if names is not None else None

    def restrict(self, names):
        self.names = set(names) if self.names is None else (self.names & set(names))

    def __repr__(self):
        return "op%s" % (sorted(self.names) if self.names is not None else "*")


class Shape:
    n = 0

    def __init__(self, label, assumed, kind=None, f=None):
        Shape.n += 1
        self.label = label
        self.assumed = assumed
        self.kind = kind
        self.f = f or {}
        self.sz = Lin.sym("sz(%s)" % label)

    def __repr__(self):
        if self.kind is None:
            return "<%s>" % self.label
        return "%s{%s}" % (self.kind, ", ".join("%s: %r" % (k, v[1] if isinstance(v, tuple) and len(v) > 1 else v) for k, v in sorted(self.f.items())))


def V_expr(s):
    return ("expr", s)


def V_size(l):
    return ("size", l)


UNK = ("unk",)


class State:
    def __init__(self):
        self.bind = {}
        self.stack = []       # caller frames while a callee is interpreted inline
        self.eqs = []
        self.opaque = []
        self.ret = None
        self.dead = False
        self.counter = [0]
        self.op_eq = []       # pairs of operator values known to be equal
        self.vecs = {}
        self._memo = None

    def fork(self):
        """Deep copy of the mutable part (shapes, bindings); `_memo` lets values computed before the fork be mapped
        to their copies (SizeInterp.rebind)."""
        memo = {}
        c = State.__new__(State)
        c.bind = copy.deepcopy(self.bind, memo)
        c.stack = copy.deepcopy(self.stack, memo)
        c.ret = copy.deepcopy(self.ret, memo)
        c.op_eq = copy.deepcopy(self.op_eq, memo)
        c.vecs = copy.deepcopy(self.vecs, memo)
        c.eqs = list(self.eqs)
        c.opaque = list(self.opaque)
        c.dead = self.dead
        c.counter = [self.counter[0]]
        c._memo = memo
        return c


class Unsupported(Exception):
    pass


class Obligation:
    def __init__(self, kind, site, key, lhs, rhs, eqs, opaque, extra_checks, descr):
        self.kind, self.site, self.key, self.lhs, self.rhs, self.eqs, self.opaque, self.extra, self.descr = kind, site, key, lhs, rhs, eqs, opaque, extra_checks, descr

    def verdict(self):
        """('holds'|'violated'|'undecided', text)"""
        worst = ("holds", "")
        checks = [("size", self.lhs, self.rhs)] + self.extra
        for what, a, b in checks:
            if a is None or b is None:
                v = ("undecided", "%s: a size is unknown" % what)
            else:
                r = reduce_mod(a - b, self.eqs)
                if r.is_zero():
                    continue
                if r.opaque() or a.opaque() or b.opaque() or self.opaque:
                    v = ("undecided", "%s: %r vs %r (residual %r; %s)" % (what, a, b, r, "; ".join(self.opaque[:2]) or "opaque size"))
                else:
                    v = ("violated", "%s: %r is not equal to %r under the path's size equations (residual %r)" % (what, a, b, r))
            if v[0] == "violated" or worst[0] == "holds":
                worst = v
        return worst


class SizeInterp:
    def __init__(self, F, classes, unop_one=("FloatNaN",), inline_depth=3):
        self.F = F
        self.classes = classes          # BinOpType variant -> 'one' | 'lhs' | 'sum'
        self.unop_one = set(unop_one)
        self.obligations = []
        self.inline_depth = inline_depth
        self.paths = 0
        self.notes = []

    # ---------------------------------------------------------------- types
    def tykind(self, ty):
        t = ty
        for _ in range(6):
            t = t.strip()
            for pre in ("&mut ", "&", "'_ ", "mut "):
                if t.startswith(pre):
                    t = t[len(pre):]
            if t.startswith("'"):
                t = t.split(" ", 1)[1] if " " in t else t
            if t.startswith("std::boxed::Box<") and t.endswith(">"):
                t = t[len("std::boxed::Box<"):-1]
            if t.startswith("std::option::Option<") and t.endswith(">"):
                t = t[len("std::option::Option<"):-1]
        if t.endswith("intermediate_representation::expression::Expression"):
            return "expr"
        if t.endswith("intermediate_representation::variable::Variable") or t.endswith("pcode::expressions::Variable"):
            return "variable"
        if t.endswith("bitvector::ByteSize") or t.endswith("::ByteSize"):
            return "size"
        if t.endswith("apint::ApInt") or t.endswith("::Bitvector"):
            return "bv"
        if t.endswith("expression::BinOpType") or t.endswith("expression::UnOpType") or t.endswith("expression::CastOpType") or t.endswith("expressions::ExpressionType"):
            return "op"
        if t.endswith("intermediate_representation::def::Def"):
            return "def"
        if t.startswith("intermediate_representation::term::Term<") or t.startswith("pcode::term::Term<"):
            return "term"
        if "::" in t and "<" not in t and t[0].isalpha() and not t.startswith("std::") and not t.startswith("alloc::"):
            return "obj"
        return None

    def fresh(self, ty, label, st, assumed=True, opaque=False):
        """A new abstract value of the given Rust type. `opaque`: the value comes from code the interpreter does not
        follow (unknown call, container element): its sizes are '?' symbols, which can never justify a violation."""
        k = self.tykind(ty)
        st.counter[0] += 1
        label = "%s%s#%d" % ("?" if opaque else "", label, st.counter[0])
        q = "?" if opaque else ""
        if k == "expr":
            sh = Shape(label, assumed)
            if opaque:
                sh.sz = Lin.sym("?sz(%s)" % label)
            return V_expr(sh)
        if k == "variable":
            return ("variable", {"size": Lin.sym("%ssize(%s)" % (q, label))})
        if k == "size":
            return V_size(Lin.sym(label))
        if k == "bv":
            return ("bv", Lin.sym("%sw(%s)" % (q, label)))
        if k == "op":
            return ("op", Op())
        if k == "def":
            return ("def", {"kind": None, "label": label, "f": {}, "opaque": opaque})
        if k == "term":
            inner = ty[ty.index("<") + 1:ty.rindex(">")]
            return ("term", {"term": self.fresh(inner, label + ".term", st, assumed, opaque)})
        if k == "obj":
            # plain records (register table entries, P-Code varnodes): their ByteSize fields are inputs of the pass, i.e.
            # universally quantified, no matter where the record was looked up -> free symbols
            return ("obj", label.lstrip("?"), {})
        return UNK

    # ---------------------------------------------------------------- sizes
    def size_of(self, s, st, assume):
        """Linear size of a shape. `assume`: add the well-sizedness equations of assumed nodes to st.eqs."""
        k = s.kind
        if k is None:
            return s.sz
        if k in ("Var",):
            return s.f["size"]
        if k == "Const":
            return s.f["w"]
        if k in ("Unknown", "Cast", "Subpiece"):
            return s.f["size"]
        if k == "UnOp":
            names = s.f["op"].names
            if names is not None and names and names <= self.unop_one:
                return Lin.const(1)
            if names is not None and not (names & self.unop_one):
                return self.size_of(s.f["arg"], st, assume)
            return Lin.sym("?unop-size(%s)" % s.label)
        if k == "BinOp":
            names = s.f["op"].names
            if names is None or not names:
                return Lin.sym("?binop-size(%s)" % s.label)
            cl = {self.classes.get(n, "?") for n in names}
            if cl == {"one"}:
                return Lin.const(1)
            if cl == {"lhs"}:
                return self.size_of(s.f["lhs"], st, assume)
            if cl == {"sum"}:
                return self.size_of(s.f["lhs"], st, assume) + self.size_of(s.f["rhs"], st, assume)
            return Lin.sym("?binop-size(%s)" % s.label)
        return Lin.sym("?size(%s)" % s.label)

    def ws_equations(self, s, st, out, checks, seen=None):
        """Well-sizedness of shape s: assumed nodes contribute equations (out), constructed nodes obligations (checks)."""
        seen = seen if seen is not None else set()
        if id(s) in seen:
            return
        seen.add(id(s))

        def need(what, a, b):
            if s.assumed:
                out.append(a - b)
            else:
                checks.append((what, a, b))
        if s.kind == "BinOp":
            names = s.f["op"].names
            l, r = s.f["lhs"], s.f["rhs"]
            self.ws_equations(l, st, out, checks, seen)
            self.ws_equations(r, st, out, checks, seen)
            if names is not None and names and not (names & SHIFT_OPS) and all(self.classes.get(n) in ("one", "lhs") for n in names):
                need("operands of %s have equal sizes" % "/".join(sorted(names))[:40], self.size_of(l, st, False), self.size_of(r, st, False))
            if names is not None and names and names <= BOOL_OPS:
                need("operands of %s are one byte wide" % "/".join(sorted(names)), self.size_of(l, st, False), Lin.const(1))
        elif s.kind == "UnOp":
            self.ws_equations(s.f["arg"], st, out, checks, seen)
            names = s.f["op"].names
            if names is not None and names and names <= BOOL_UNOPS:
                need("operand of BoolNegate is one byte wide", self.size_of(s.f["arg"], st, False), Lin.const(1))
        elif s.kind in ("Cast", "Subpiece"):
            self.ws_equations(s.f["arg"], st, out, checks, seen)

    # ---- operator sets
    def propagate_ops(self, st):
        for _ in range(4):
            for a, b in st.op_eq:
                if a.names is not None:
                    b.restrict(a.names)
                if b.names is not None:
                    a.restrict(b.names)

    def op_group(self, kind, n):
        if kind == "UnOp":
            return ("u", n in self.unop_one, n in BOOL_UNOPS)
        return ("b", self.classes.get(n), n in BOOL_OPS, n in SHIFT_OPS)

    def mixed_ops(self, shapes):
        out, seen = [], set()

        def rec(s):
            if id(s) in seen:
                return
            seen.add(id(s))
            if s.kind in ("BinOp", "UnOp"):
                op = s.f["op"]
                if op.names and len({self.op_group(s.kind, n) for n in op.names}) > 1 and not any(op is o for o, _ in out):
                    out.append((op, s.kind))
                for k in ("lhs", "rhs", "arg"):
                    if k in s.f:
                        rec(s.f[k])
            elif s.kind in ("Cast", "Subpiece"):
                rec(s.f["arg"])
        for s in shapes:
            rec(s)
        return out

    def for_each_op_split(self, st, shapes, fn):
        """Call fn() once per consistent choice of result-size class for operators whose set mixes classes."""
        self.propagate_ops(st)
        mixed = self.mixed_ops(shapes)[:4]
        if not mixed:
            fn()
            return

        def rec(i):
            if i == len(mixed):
                saved = [(o, set(o.names) if o.names is not None else None) for pair in st.op_eq for o in pair]
                self.propagate_ops(st)
                if all(o.names is None or o.names for pair in st.op_eq for o in pair):
                    fn()
                for o, nm in saved:
                    o.names = nm
                return
            op, kind = mixed[i]
            groups = {}
            for n in op.names:
                groups.setdefault(self.op_group(kind, n), set()).add(n)
            keep = set(op.names)
            for g in groups.values():
                op.names = set(g)
                rec(i + 1)
            op.names = keep
        rec(0)

    # ---------------------------------------------------------------- interpretation
    def run_fn(self, fn, self_shape_label="self"):
        st = State()
        for p in fn["params"]:
            pat = p.get("p")
            if not pat:
                continue
            ty = self.F.tyi(p["t"])
            nm = pat.get("n", "arg")
            v = self.fresh(ty, nm, st, True)
            self.apply_pat(pat, v, st)
        # contracts (checked at every call site as obligation `subst`): the replacement has the variable's size
        if fn["name"] in CONTRACTS:
            pe, pv = CONTRACTS[fn["name"]]
            byname = {p["p"].get("n"): st.bind.get(p["p"].get("id")) for p in fn["params"] if p.get("p")}
            e, v = byname.get(pe), byname.get(pv)
            if e and v and e[0] == "expr" and v[0] == "variable":
                st.eqs.append(e[1].sz - v[1]["size"])
        outs = self.interp(fn["body"], st, 0)
        return outs

    def interp_block_stmts(self, stmts, states, depth):
        for s in stmts:
            nxt = []
            for st in states:
                if st.dead:
                    nxt.append(st)
                    continue
                for _, st2 in self.interp(s, st, depth):
                    nxt.append(st2)
            states = nxt
            if len(states) > MAX_PATHS:
                raise Unsupported("too many paths")
        return states

    def interp(self, n, st, depth):
        """-> list of (value, state). A state with st.dead set has returned / diverged."""
        k = n.get("k")
        F = self.F
        if st.dead:
            return [(UNK, st)]
        if k in T.WRAPPERS or k in ("Scope",):
            return self.interp(n["e"], st, depth)
        if k == "Block":
            states = self.interp_block_stmts(n.get("ss", []), [st], depth)
            out = []
            for s2 in states:
                if s2.dead or n.get("e") is None:
                    out.append((("unit",), s2))
                else:
                    out.extend(self.interp(n["e"], s2, depth))
            return out
        if k == "LetStmt":
            if "i" not in n:
                return [(("unit",), st)]
            out = []
            for v, s2 in self.interp(n["i"], st, depth):
                if s2.dead:
                    out.append((("unit",), s2))
                    continue
                alts = self.pat_alts(n["p"])
                if "els" in n:
                    # let-else: the else branch diverges; continue with the pattern applied
                    pass
                for pa in alts:
                    s3 = s2.fork() if len(alts) > 1 else s2
                    v3 = self.rebind(v, s2, s3)
                    if self.apply_pat(pa, v3, s3):
                        out.append((("unit",), s3))
            return out
        if k == "If":
            out = []
            for truth, s2 in self.assume_cond(n["c"], st, depth):
                br = n["th"] if truth else n.get("el")
                if br is None:
                    out.append((("unit",), s2))
                else:
                    out.extend(self.interp(br, s2, depth))
            return out
        if k == "Match" and T.for_loop(n) is not None:
            pat, iterable, body = T.for_loop(n)
            outs = []
            for v, s2 in self.interp(iterable, st, depth):
                elems = v[1] if v[0] == "vec" else [UNK]
                for e in elems:
                    s3 = s2.fork()
                    e3 = self.rebind(e, s2, s3)
                    self.havoc_assigned(body, s3)
                    for pa in self.pat_alts(pat):
                        s4 = s3.fork()
                        if self.apply_pat(pa, self.rebind(e3, s3, s4), s4):
                            outs.extend(s5 for _, s5 in self.interp(body, s4, depth))
                outs.append(s2)
            res = []
            for s5 in outs:
                if s5.dead and s5.ret == ("loop-exit",):
                    s5.dead, s5.ret = False, None
                res.append((("unit",), s5))
            return res[:MAX_PATHS]
        if k == "Match":
            out = []
            for v, s2 in self.interp(n["e"], st, depth):
                if s2.dead:
                    out.append((UNK, s2))
                    continue
                for arm in n["arms"]:
                    for pa in self.pat_alts(arm["p"]):
                        s3 = s2.fork()
                        v3 = self.rebind(v, s2, s3)
                        if not self.apply_pat(pa, v3, s3):
                            continue
                        if "g" in arm:
                            for truth, s4 in self.assume_cond(arm["g"], s3, depth):
                                if truth:
                                    out.extend(self.interp(arm["b"], s4, depth))
                        else:
                            out.extend(self.interp(arm["b"], s3, depth))
            self.paths += len(out)
            if len(out) > MAX_PATHS:
                raise Unsupported("too many paths")
            return out
        if k == "Return":
            if "e" in n and n["e"] is not None:
                res = []
                for v, s2 in self.interp(n["e"], st, depth):
                    s2.ret = v
                    s2.dead = True
                    res.append((UNK, s2))
                return res
            st.ret = ("unit",)
            st.dead = True
            return [(UNK, st)]
        if k in ("Break", "Continue"):
            st.dead = True
            st.ret = ("loop-exit",)
            return [(UNK, st)]
        if k == "Loop":
            # other loops: zero or one symbolic iteration
            s2 = st.fork()
            self.havoc_assigned(n["b"], s2)
            self.havoc_assigned(n["b"], st)
            res = [(("unit",), st)]
            try:
                for _, s5 in self.interp(n["b"], s2, depth):
                    if s5.dead and s5.ret == ("loop-exit",):
                        s5.dead, s5.ret = False, None
                    res.append((("unit",), s5))
            except Unsupported:
                pass
            return res
        if k == "Assign":
            return self.do_assign(n, st, depth)
        if k == "AssignOp":
            v = T.root_var_id(n["l"])
            if v is not None:
                st.bind[v] = UNK
            return [(("unit",), st)]
        if k in ("Var", "Upvar"):
            return [(self.lookup(n, st), st)]
        if k == "Lit":
            return [(("lit", n.get("v")), st)]
        if k == "Tuple":
            return self.interp_list(n["es"], st, depth, lambda vs: ("tuple", vs))
        if k == "Field":
            out = []
            for v, s2 in self.interp(n["e"], st, depth):
                out.append((self.field(v, n.get("fn"), F.ty(n), s2, n), s2))
            return out
        if k == "Adt":
            return self.do_adt(n, st, depth)
        if k == "Call":
            return self.do_call(n, st, depth)
        if k in ("Logical", "Binary", "Unary", "Let"):
            # value position of a boolean: fork on it only when used as a condition; here it is just a bool
            return [(("bool",), st)]
        if k == "Cast":
            return self.interp(n["e"], st, depth)
        if k == "Closure":
            return [(("closure", n.get("d")), st)]
        return [(self.fresh(F.ty(n), "val", st, True, True) if self.tykind(F.ty(n)) else UNK, st)]

    def interp_list(self, nodes, st, depth, build):
        acc = [([], st)]
        for e in nodes:
            nxt = []
            for vs, s in acc:
                for v, s2 in self.interp(e, s, depth):
                    vs2 = [self.rebind(x, s, s2) for x in vs] if s2 is not s else vs
                    nxt.append((vs2 + [v], s2))
            acc = nxt
        return [(build(vs), s) for vs, s in acc]

    def rebind(self, v, old_state, new_state):
        """Values hold references to shapes inside a state; after a fork the value must be looked up in the copy.
        Forks are deep copies made together with a memo of the value, see fork_with."""
        if old_state is new_state:
            return v
        m = new_state._memo
        if m is not None:
            return copy.deepcopy(v, m)
        return v

    def lookup(self, n, st):
        vid = n["id"]
        if vid in st.bind:
            return st.bind[vid]
        v = self.fresh(self.F.ty(n), n.get("n", "v"), st, True, True)
        st.bind[vid] = v
        return v

    def havoc_assigned(self, body, st):
        for x in T.walk(body):
            if x.get("k") in ("Assign", "AssignOp"):
                v = T.root_var_id(x["l"])
                if v is not None and v in st.bind:
                    old = st.bind[v]
                    if old[0] == "expr":
                        st.counter[0] += 1
                        st.bind[v] = V_expr(Shape("havoc#%d" % st.counter[0], True))
                    else:
                        st.bind[v] = UNK

    # ---------------------------------------------------------------- patterns
    def pat_alts(self, p):
        """or-free alternatives of a pattern (or-patterns over plain operator variants are kept as one alternative)."""
        p0 = p
        k = p.get("k")
        if k == "Or":
            if all(self.is_plain_variant(q) for q in p["ps"]):
                return [p]
            out = []
            for q in p["ps"]:
                out.extend(self.pat_alts(q))
            return out
        if k in ("Deref", "Guard"):
            return [dict(p, p=q) for q in self.pat_alts(p["p"])]
        if k == "Bind" and "sub" in p:
            return [dict(p, sub=q) for q in self.pat_alts(p["sub"])]
        if k in ("Variant", "Leaf"):
            subs = p.get("sub", [])
            combos = [[]]
            for s in subs:
                alts = self.pat_alts(s["p"])
                combos = [c + [dict(s, p=a)] for c in combos for a in alts]
                if len(combos) > 64:
                    raise Unsupported("pattern too wide")
            return [dict(p, sub=c) for c in combos]
        return [p0]

    def is_plain_variant(self, q):
        q = T.pat_peel(q)
        return q.get("k") == "Variant" and not q.get("sub") and not q.get("adt", "").endswith("expression::Expression")

    def apply_pat(self, p, v, st):
        """Refine the state with `v matches p`; False if impossible."""
        k = p.get("k")
        if k in ("Wild", "Never"):
            return True
        if k in ("Deref", "Guard"):
            return self.apply_pat(p["p"], v, st)
        if k == "Bind":
            if v == UNK or v is None or v[0] in ("unit", "bool", "lit"):
                v = self.fresh(self.F.tyi(p["t"]), p.get("n", "b"), st, True, True)
            st.bind[p["id"]] = v
            if "sub" in p:
                return self.apply_pat(p["sub"], v, st)
            return True
        if k == "Or":
            names = [T.pat_peel(q)["v"] for q in p["ps"]]
            if v[0] == "op":
                v[1].restrict(names)
                return bool(v[1].names)
            return True
        if k == "Variant":
            adt = p.get("adt", "")
            if adt.endswith("expression::Expression"):
                if v[0] != "expr":
                    v = self.fresh("intermediate_representation::expression::Expression", "m", st)
                s = v[1]
                if not self.refine(s, p["v"], st):
                    return False
                for sub in p.get("sub", []):
                    fv = self.shape_field(s, sub["f"])
                    if not self.apply_pat(sub["p"], fv, st):
                        return False
                return True
            if v[0] == "op":
                v[1].restrict([p["v"]])
                return bool(v[1].names)
            if adt.endswith("def::Def"):
                if v[0] != "def":
                    return True
                d = v[1]
                if d["kind"] is None:
                    d["kind"] = p["v"]
                    lab = d["label"].lstrip("?")
                    oq = d.get("opaque", False)
                    if p["v"] == "Assign":
                        var = self.fresh("intermediate_representation::variable::Variable", lab + ".var", st, True, oq)
                        val = self.fresh("intermediate_representation::expression::Expression", lab + ".value", st, True, oq)
                        d["f"] = {"var": var, "value": val}
                        # input invariant: an Assign stores a value of the variable's size
                        st.eqs.append(val[1].sz - var[1]["size"])
                    elif p["v"] == "Load":
                        d["f"] = {"var": self.fresh("intermediate_representation::variable::Variable", lab + ".var", st), "address": self.fresh("intermediate_representation::expression::Expression", lab + ".address", st)}
                    else:
                        d["f"] = {"address": self.fresh("intermediate_representation::expression::Expression", lab + ".address", st), "value": self.fresh("intermediate_representation::expression::Expression", lab + ".value", st)}
                elif d["kind"] != p["v"]:
                    return False
                for sub in p.get("sub", []):
                    if sub["f"] in d["f"]:
                        if not self.apply_pat(sub["p"], d["f"][sub["f"]], st):
                            return False
                    else:
                        self.apply_pat(sub["p"], UNK, st)
                return True
            # Option / Result payloads and other enums: bind sub-patterns to fresh values
            subs = p.get("sub", [])
            if p.get("v") in ("Some", "Ok") and len(subs) == 1:
                if v[0] == "none":
                    return False
                return self.apply_pat(subs[0]["p"], v if v[0] not in ("unk", "unit", "bool", "lit") else UNK, st)
            if p.get("v") == "None" and adt.endswith("option::Option"):
                return v[0] in ("none", "unk")
            for sub in subs:
                self.apply_pat(sub["p"], UNK, st)
            return True
        if k == "Leaf":
            subs = p.get("sub", [])
            if v[0] == "tuple":
                for sub in subs:
                    i = sub.get("fi", sub.get("f"))
                    if isinstance(i, int) and i < len(v[1]):
                        if not self.apply_pat(sub["p"], v[1][i], st):
                            return False
                    else:
                        self.apply_pat(sub["p"], UNK, st)
                return True
            if v[0] == "term":
                for sub in subs:
                    self.apply_pat(sub["p"], v[1].get(sub.get("f"), UNK), st)
                return True
            if v[0] == "variable":
                for sub in subs:
                    self.apply_pat(sub["p"], V_size(v[1]["size"]) if sub.get("f") == "size" else UNK, st)
                return True
            for sub in subs:
                self.apply_pat(sub["p"], UNK, st)
            return True
        if k in ("Const", "Range"):
            if v[0] == "size" and k == "Const":
                try:
                    st.eqs.append(v[1] - Lin.const(int(str(p.get("v")).split("_")[0])))
                except Exception:
                    pass
            return True
        if k == "Slice":
            for q in p.get("pre", []) + p.get("suf", []) + ([p["mid"]] if p.get("mid") else []):
                self.apply_pat(q, UNK, st)
            return True
        return True

    def refine(self, s, variant, st):
        if s.kind is None:
            s.kind = variant
            lab = s.label
            mk = lambda nm: Shape("%s.%s" % (lab, nm), s.assumed)
            if variant == "BinOp":
                s.f = {"op": ("op", Op()), "lhs": V_expr(mk("lhs")), "rhs": V_expr(mk("rhs"))}
            elif variant == "UnOp":
                s.f = {"op": ("op", Op()), "arg": V_expr(mk("arg"))}
            elif variant == "Cast":
                s.f = {"op": ("op", Op()), "size": V_size(s.sz), "arg": V_expr(mk("arg"))}
            elif variant == "Subpiece":
                s.f = {"low_byte": V_size(Lin.sym("low(%s)" % lab)), "size": V_size(s.sz), "arg": V_expr(mk("arg"))}
            elif variant == "Const":
                s.f = {"0": ("bv", s.sz)}
            elif variant == "Var":
                s.f = {"0": ("variable", {"size": s.sz})}
            elif variant == "Unknown":
                s.f = {"size": V_size(s.sz), "description": UNK}
            else:
                s.f = {}
            # keep the size symbol of the unrefined shape tied to the refined one
            self.norm_fields(s)
            return True
        return s.kind == variant

    def norm_fields(self, s):
        """store fields in the internal form used by size_of"""
        f = s.f
        if s.kind in ("BinOp",):
            s.f = {"op": f["op"][1] if isinstance(f["op"], tuple) else f["op"], "lhs": f["lhs"][1] if isinstance(f["lhs"], tuple) else f["lhs"], "rhs": f["rhs"][1] if isinstance(f["rhs"], tuple) else f["rhs"]}
        elif s.kind == "UnOp":
            s.f = {"op": f["op"][1] if isinstance(f["op"], tuple) else f["op"], "arg": f["arg"][1] if isinstance(f["arg"], tuple) else f["arg"]}
        elif s.kind == "Cast":
            s.f = {"op": f["op"][1] if isinstance(f["op"], tuple) else f["op"], "size": f["size"][1] if isinstance(f["size"], tuple) else f["size"], "arg": f["arg"][1] if isinstance(f["arg"], tuple) else f["arg"]}
        elif s.kind == "Subpiece":
            s.f = {"low_byte": f["low_byte"][1] if isinstance(f["low_byte"], tuple) else f["low_byte"], "size": f["size"][1] if isinstance(f["size"], tuple) else f["size"], "arg": f["arg"][1] if isinstance(f["arg"], tuple) else f["arg"]}
        elif s.kind == "Const":
            v = f.get("0")
            s.f = {"w": v[1] if isinstance(v, tuple) else v}
        elif s.kind == "Var":
            v = f.get("0")
            s.f = {"size": v[1]["size"] if isinstance(v, tuple) else v}
        elif s.kind == "Unknown":
            v = f.get("size")
            s.f = {"size": v[1] if isinstance(v, tuple) else v}

    def shape_field(self, s, name):
        f = s.f
        if s.kind == "BinOp":
            return ("op", f["op"]) if name == "op" else V_expr(f[name]) if name in ("lhs", "rhs") else UNK
        if s.kind == "UnOp":
            return ("op", f["op"]) if name == "op" else V_expr(f["arg"]) if name == "arg" else UNK
        if s.kind == "Cast":
            return ("op", f["op"]) if name == "op" else V_size(f["size"]) if name == "size" else V_expr(f["arg"]) if name == "arg" else UNK
        if s.kind == "Subpiece":
            return V_size(f[name]) if name in ("low_byte", "size") else V_expr(f["arg"]) if name == "arg" else UNK
        if s.kind == "Const":
            return ("bv", f["w"]) if name in ("0", 0) else UNK
        if s.kind == "Var":
            return ("variable", {"size": f["size"]}) if name in ("0", 0) else UNK
        if s.kind == "Unknown":
            return V_size(f["size"]) if name == "size" else UNK
        return UNK

    def field(self, v, name, ty, st, node):
        if v[0] == "variable":
            if name == "size":
                return V_size(v[1]["size"])
            return UNK
        if v[0] == "obj":
            if name in v[2]:
                return v[2][name]
            k = self.tykind(ty)
            key = "%s.%s" % (v[1], name)
            if k == "size":
                return V_size(Lin.sym(key))
            if k == "obj":
                return ("obj", key, {})
            if k == "variable":
                return ("variable", {"size": Lin.sym("size(%s)" % key)})
            if k == "expr":
                r = V_expr(Shape(key, True))
                v[2][name] = r
                return r
            return UNK
        if v[0] == "term":
            if name in v[1]:
                return v[1][name]
            return UNK
        if v[0] == "def":
            return UNK
        if v[0] == "tuple" and isinstance(node.get("fi"), int) and node["fi"] < len(v[1]):
            return v[1][node["fi"]]
        if v[0] == "expr":
            return UNK
        k = self.tykind(ty)
        return self.fresh(ty, "%s" % (name or "f"), st, True, True) if k else UNK

    # ---------------------------------------------------------------- conditions
    def assume_cond(self, c, st, depth):
        """-> [(truth, state)] : the states in which the condition is true / false."""
        n = T.peel(c)
        k = n.get("k")
        if k == "Let":
            out = []
            for v, s2 in self.interp(n["e"], st, depth):
                alts = self.pat_alts(n["p"])
                for pa in alts:
                    s3 = s2.fork()
                    v3 = self.rebind(v, s2, s3)
                    if self.apply_pat(pa, v3, s3):
                        out.append((True, s3))
                sf = s2.fork()
                out.append((False, sf))
            return out
        if k == "Logical":
            out = []
            if n["o"] == "And":
                for t1, s1 in self.assume_cond(n["l"], st, depth):
                    if not t1:
                        out.append((False, s1))
                    else:
                        out.extend(self.assume_cond(n["r"], s1, depth))
            else:
                for t1, s1 in self.assume_cond(n["l"], st, depth):
                    if t1:
                        out.append((True, s1))
                    else:
                        out.extend(self.assume_cond(n["r"], s1, depth))
            return out
        if k == "Unary" and n.get("o") == "Not":
            return [(not t, s) for t, s in self.assume_cond(n["e"], st, depth)]
        if k == "Block" and not n.get("ss") and n.get("e") is not None:
            return self.assume_cond(n["e"], st, depth)
        if k == "Match":
            # `matches!(x, A | B)` : arms with literal true/false bodies
            arms = n["arms"]
            lits = [T.peel(a["b"]) for a in arms]
            if all(l.get("k") == "Lit" and str(l.get("v")).lower() in ("true", "false") for l in lits):
                out = []
                for v, s2 in self.interp(n["e"], st, depth):
                    for a, l in zip(arms, lits):
                        truth = str(l.get("v")).lower() == "true"
                        if not truth:
                            out.append((False, s2.fork()))
                            continue
                        for pa in self.pat_alts(a["p"]):
                            s3 = s2.fork()
                            v3 = self.rebind(v, s2, s3)
                            if self.apply_pat(pa, v3, s3):
                                if "g" in a:
                                    for t4, s4 in self.assume_cond(a["g"], s3, depth):
                                        out.append((t4, s4))
                                else:
                                    out.append((True, s3))
                return out
        if (k == "Call" and n.get("n") in ("eq", "ne") and len(n.get("a", [])) == 2) or (k == "Binary" and n.get("o") in ("Eq", "Ne")):
            a, b = (n["a"][0], n["a"][1]) if k == "Call" else (n["l"], n["r"])
            is_eq = (n.get("n") == "eq") if k == "Call" else (n.get("o") == "Eq")
            out = []
            for vs, s2 in self.interp_list([a, b], st, depth, lambda vs: vs):
                for truth in (True, False):
                    s3 = s2.fork()
                    va, vb = self.rebind(vs[0], s2, s3), self.rebind(vs[1], s2, s3)
                    if truth == is_eq:
                        if not self.unify(va, vb, s3):
                            continue
                    out.append((truth, s3))
            return out
        if k == "Binary" and n.get("o") in ("Lt", "Le", "Gt", "Ge") or (k == "Call" and n.get("n") in ("lt", "le", "gt", "ge")):
            a, b = (n["l"], n["r"]) if k == "Binary" else (n["a"][0], n["a"][1])
            o = n.get("o") or {"lt": "Lt", "le": "Le", "gt": "Gt", "ge": "Ge"}[n["n"]]
            out = []
            for vs, s2 in self.interp_list([a, b], st, depth, lambda vs: vs):
                for truth in (True, False):
                    s3 = s2.fork()
                    va, vb = self.rebind(vs[0], s2, s3), self.rebind(vs[1], s2, s3)
                    # unsigned sizes: !(x > 0) means x == 0
                    if va[0] == "size" and vb[0] == "size":
                        if (o == "Gt" and not truth and vb[1].is_zero()) or (o == "Le" and truth and vb[1].is_zero()):
                            s3.eqs.append(va[1])
                        if (o == "Lt" and not truth and va[1].is_zero()) or (o == "Ge" and truth and va[1].is_zero()):
                            s3.eqs.append(vb[1])
                    out.append((truth, s3))
            return out
        if k == "Call" and n.get("n") in IGNORED_PREDICATES:
            res = []
            for _, s2 in self.interp(n, st, depth):
                res.append((True, s2.fork()))
                res.append((False, s2.fork()))
            return res
        if k == "Lit" and str(n.get("v")).lower() in ("true", "false"):
            return [(str(n.get("v")).lower() == "true", st)]
        if k == "Call" and self.F.ty(n) == "bool" and depth < self.inline_depth:
            r = self.assume_bool_call(n, st, depth)
            if r is not None:
                return r
        # unrecognised condition: both outcomes possible, remember that a guard was not understood
        out = []
        for _, s2 in self.interp(n, st, depth) if k in ("Call", "Var", "Field", "Match") else [(None, st)]:
            for truth in (True, False):
                s3 = s2.fork()
                s3.opaque.append("unrecognised guard `%s`" % T.show(n)[:60])
                out.append((truth, s3))
        return out

    def assume_bool_call(self, n, st, depth):
        """A crate-local predicate used as a guard: its body is interpreted as a condition (paths to `return true/false`
        and the tail expression), so that size equations it implies are kept and others do not make the path opaque."""
        F = self.F
        fn = None
        for key in (n.get("r"), n.get("f")):
            if key and key in F.by_path:
                fn = F.by_path[key]
                break
        if fn is None or fn.get("dk") not in ("Fn", "AssocFn") or sum(1 for _ in T.walk(fn["body"])) > 600:
            return None
        args = n.get("a", [])
        if len(fn["params"]) != len(args):
            return None
        out = []
        for vs, s2 in self.interp_list(args, st, depth, lambda vs: vs):
            s2.stack.append(s2.bind)
            s2.bind = {}
            for p, v in zip(fn["params"], vs):
                if p.get("p"):
                    self.apply_pat(p["p"], v if v[0] not in ("unit", "bool", "lit") else UNK, s2)
            body = T.peel(fn["body"])
            try:
                if body.get("k") == "Block":
                    states = self.interp_block_stmts(body.get("ss", []), [s2], depth + 1)
                    tail = body.get("e")
                else:
                    states, tail = [s2], body
                res = []
                for s3 in states:
                    if s3.dead:
                        r = s3.ret
                        s3.dead, s3.ret = False, None
                        if r is not None and r[0] == "lit" and str(r[1]).lower() in ("true", "false"):
                            res.append((str(r[1]).lower() == "true", s3))
                        else:
                            for truth in (True, False):
                                s4 = s3.fork()
                                res.append((truth, s4))
                    elif tail is not None:
                        res.extend(self.assume_cond_value(tail, s3, depth + 1))
                for truth, s3 in res:
                    s3.bind = s3.stack.pop()
                    out.append((truth, s3))
            except Unsupported:
                return None
        return out

    def assume_cond_value(self, e, st, depth):
        """condition given as an arbitrary bool-valued expression in tail position (if/match/block returning bool)"""
        n = T.peel(e)
        k = n.get("k")
        if k == "If" and "el" in n:
            out = []
            for truth, s2 in self.assume_cond(n["c"], st, depth):
                out.extend(self.assume_cond_value(n["th"] if truth else n["el"], s2, depth))
            return out
        if k == "Block":
            states = self.interp_block_stmts(n.get("ss", []), [st], depth)
            out = []
            for s2 in states:
                if s2.dead:
                    r = s2.ret
                    s2.dead, s2.ret = False, None
                    if r is not None and r[0] == "lit" and str(r[1]).lower() in ("true", "false"):
                        out.append((str(r[1]).lower() == "true", s2))
                    else:
                        out.append((True, s2.fork()))
                        out.append((False, s2))
                elif n.get("e") is not None:
                    out.extend(self.assume_cond_value(n["e"], s2, depth))
            return out
        if k == "If":
            # `if c { return true }` without else in statement position is handled by interp; here: no value
            return self.assume_cond(n, st, depth)
        return self.assume_cond(n, st, depth)

    def unify(self, a, b, st):
        if a[0] == "size" and b[0] == "size":
            st.eqs.append(a[1] - b[1])
            return True
        if a[0] == "expr" and b[0] == "expr":
            st.eqs.append(self.size_of(a[1], st, True) - self.size_of(b[1], st, True))
            return True
        if a[0] == "op" and b[0] == "op":
            st.op_eq.append((a[1], b[1]))
            if a[1].names is not None:
                b[1].restrict(a[1].names)
            if b[1].names is not None:
                a[1].restrict(b[1].names)
            return not (a[1].names is not None and not a[1].names)
        if a[0] == "variable" and b[0] == "variable":
            st.eqs.append(a[1]["size"] - b[1]["size"])
            return True
        if a[0] == "bv" and b[0] == "bv":
            return True
        return True

    # ---------------------------------------------------------------- assignments / constructions / calls
    def do_assign(self, n, st, depth):
        out = []
        lhs = n["l"]
        for v, s2 in self.interp(n["r"], st, depth):
            if s2.dead:
                out.append((("unit",), s2))
                continue
            target = T.peel(lhs)
            # *self = E / *expr = E where the target is a tracked expression
            root = T.root_var_id(lhs)
            is_whole = lhs.get("k") == "Deref" or target.get("k") in ("Var", "Upvar")
            tk = self.tykind(self.F.ty(lhs))
            if root is not None and is_whole and tk == "expr" and T.peel(lhs).get("k") in ("Var", "Upvar"):
                old = s2.bind.get(root)
                if old is not None and old[0] == "expr" and v[0] == "expr" and lhs.get("k") == "Deref":
                    self.record_rewrite(n, old[1], v[1], s2)
                if v[0] == "expr":
                    if old is not None and old[0] == "expr" and lhs.get("k") == "Deref":
                        # what was assumed about the input so far must survive the mutation of its shape
                        self.propagate_ops(s2)
                        for sh in self.all_shapes(s2):
                            self.ws_equations(sh, s2, s2.eqs, [], None)
                        # the pointee is replaced: every alias of the old shape now sees the new content
                        old[1].kind, old[1].f, old[1].assumed = v[1].kind, v[1].f, v[1].assumed
                        if v[1].kind is None:
                            s2.eqs.append(old[1].sz - v[1].sz)
                        else:
                            old[1].sz = v[1].sz
                    else:
                        s2.bind[root] = v
                else:
                    s2.bind[root] = v if v[0] != "unit" else UNK
            elif root is not None and target.get("k") == "Field":
                base = s2.bind.get(root)
                fld = target.get("fn")
                if base is not None and base[0] == "obj" and T.peel(target["e"]).get("k") in ("Var", "Upvar"):
                    base[2][fld] = v
                elif base is not None and base[0] == "variable" and fld == "size" and v[0] == "size":
                    base[1]["size"] = v[1]
                else:
                    if base is not None and base[0] == "expr":
                        s2.opaque.append("field of an expression assigned")
            elif root is not None and root in s2.bind:
                old = s2.bind[root]
                if old[0] == "expr":
                    s2.opaque.append("part of an expression assigned in place")
                else:
                    s2.bind[root] = v if v[0] not in ("unit",) else UNK
            out.append((("unit",), s2))
        return out

    def all_shapes(self, st):
        return [v[1] for v in st.bind.values() if v[0] == "expr"] + [v[1] for fr in st.stack for v in fr.values() if v[0] == "expr"]

    def record(self, kind, n, st, new_shape, required, descr, old_shape=None):
        """required: callable -> Lin (evaluated per operator split)."""
        shapes = self.all_shapes(st) + ([new_shape] if new_shape is not None else []) + ([old_shape] if old_shape is not None else [])

        def one():
            eqs = list(st.eqs)
            for sh in shapes:
                if sh is not new_shape:
                    self.ws_equations(sh, st, eqs, [], None)
            checks = []
            self.ws_equations(new_shape, st, eqs, checks, None)
            a = self.size_of(new_shape, st, False)
            b = required()
            self.obligations.append(Obligation(kind, n, None, a, b, eqs, list(st.opaque), checks, descr()))
        self.for_each_op_split(st, shapes, one)

    def record_rewrite(self, n, old, new, st):
        self.record("rewrite", n, st, new, lambda: self.size_of(old, st, False), lambda: "`%s`: new %r replaces %r" % (T.show(n)[:70], new, old), old)

    def do_adt(self, n, st, depth):
        adt = n.get("adt", "")
        names = sorted(n.get("fs", {}).keys())
        nodes = [n["fs"][k] for k in names]

        def build(vs):
            f = dict(zip(names, vs))
            return f
        out = []
        for f, s2 in self.interp_list(nodes, st, depth, build):
            if adt.endswith("expression::Expression"):
                s2.counter[0] += 1
                s = Shape("new%s#%d" % (n.get("v"), s2.counter[0]), False, n.get("v"))
                conv = {}
                for kf, vf in f.items():
                    if vf[0] in ("unk", "unit", "bool", "lit"):
                        want = {"lhs": "expr", "rhs": "expr", "arg": "expr", "op": "op", "size": "size", "low_byte": "size", "0": "bv" if n.get("v") == "Const" else "variable"}.get(kf)
                        tymap = {"expr": "intermediate_representation::expression::Expression", "op": "intermediate_representation::expression::BinOpType", "size": "intermediate_representation::bitvector::ByteSize", "bv": "apint::ApInt", "variable": "intermediate_representation::variable::Variable"}
                        if want:
                            vf = self.fresh(tymap[want], "?%s.%s" % (s.label, kf), s2)
                            if want == "size":
                                vf = V_size(Lin.sym("?" + repr(vf[1])))
                            elif want == "bv":
                                vf = ("bv", Lin.sym("?" + repr(vf[1])))
                            elif want == "variable":
                                vf = ("variable", {"size": Lin.sym("?" + repr(vf[1]["size"]))})
                            elif want == "expr":
                                vf[1].sz = Lin.sym("?" + repr(vf[1].sz))
                    conv[kf] = vf
                s.f = conv
                self.norm_fields(s)
                out.append((V_expr(s), s2))
            elif adt.endswith("variable::Variable") or adt.endswith("pcode::expressions::Variable"):
                sz = f.get("size")
                out.append((("variable", {"size": sz[1] if sz and sz[0] == "size" else Lin.sym("?size(var)")}), s2))
            elif adt.endswith("def::Def"):
                d = {"kind": n.get("v"), "label": "newdef", "f": f}
                if n.get("v") == "Assign" and "var" in f and "value" in f:
                    self.record_assign(n, f["var"], f["value"], s2)
                out.append((("def", d), s2))
            elif adt.endswith("term::Term"):
                out.append((("term", f), s2))
            elif self.tykind(adt) == "op" or adt.endswith("OpType") or adt.endswith("ExpressionType"):
                out.append((("op", Op([n.get("v")])), s2))
            elif n.get("v") in ("Some", "Ok") and len(names) == 1:
                out.append((f[names[0]], s2))
            elif n.get("v") == "None" and adt.endswith("option::Option"):
                out.append((("none",), s2))
            elif self.tykind(adt) == "obj":
                s2.counter[0] += 1
                out.append((("obj", "new%d" % s2.counter[0], dict(f)), s2))
            else:
                out.append((UNK, s2))
        return out

    def record_assign(self, n, var, value, st):
        if var[0] != "variable" or value[0] != "expr":
            self.obligations.append(Obligation("assign", n, None, None, None, list(st.eqs), list(st.opaque), [], "Def::Assign with untracked operands"))
            return
        self.record("assign", n, st, value[1], lambda: var[1]["size"], lambda: "Def::Assign { var (size %r), value %r }" % (var[1]["size"], value[1]))

    def do_call(self, n, st, depth):
        F = self.F
        name = n.get("n")
        args = n.get("a", [])
        if "fe" in n and not args:
            return [(UNK, st)]
        out = []
        for vs, s2 in self.interp_list(args, st, depth, lambda vs: vs):
            if s2.dead:
                out.append((UNK, s2))
                continue
            out.extend(self.call(n, name, vs, s2, depth))
        return out

    def call(self, n, name, vs, st, depth):
        F = self.F
        ret_ty = F.ty(n)
        a0 = vs[0] if vs else UNK
        impl_self = n.get("is", "") or ""
        rs = n.get("rs", "") or ""
        path = n.get("f", "") or ""
        if name in ("call", "call_once", "call_mut") and vs and a0[0] == "closure" and depth < self.inline_depth + 2:
            # a local closure: its body is interpreted in the current frame (captured variables are the caller's locals)
            c = F.by_path.get(a0[1])
            if c is not None:
                params = [p_ for p_ in c["params"] if p_.get("p") and not (p_["p"].get("k") == "Bind" and p_["p"].get("n") in (None,) )]
                args = vs[1][1] if len(vs) > 1 and vs[1][0] == "tuple" else list(vs[1:])
                # the first parameter of a closure body is the environment
                real = [p_ for p_ in c["params"] if p_.get("p")]
                if len(real) == len(args) + 1:
                    real = real[1:]
                if len(real) == len(args):
                    for p_, v in zip(real, args):
                        self.apply_pat(p_["p"], v if v[0] not in ("unit", "bool", "lit") else UNK, st)
                    outs = []
                    try:
                        for v, s2 in self.interp(c["body"], st, depth + 1):
                            if s2.dead and s2.ret is not None and s2.ret != ("loop-exit",):
                                v = s2.ret
                                s2.dead, s2.ret = False, None
                            elif s2.dead:
                                continue
                            outs.append((v, s2))
                    except Unsupported:
                        outs = []
                    if outs:
                        return outs
        if name in TRANSPARENT and vs:
            return [(a0, st)]
        if name == "new" and (impl_self.startswith("std::boxed::Box") or "Box" in path.split("::")[-2:][0]) and vs:
            return [(a0, st)]
        if name == "new" and (impl_self.endswith("ByteSize") or path.endswith("ByteSize::new")) and vs:
            if a0[0] == "lit":
                try:
                    return [(V_size(Lin.const(int(str(a0[1]).split("_")[0]))), st)]
                except Exception:
                    pass
            return [(self.fresh(ret_ty, "size", st, True, True), st)]
        if name in ("into", "from") and vs:
            k = self.tykind(ret_ty)
            if a0[0] == "size" and k not in ("expr", "variable", "def", "term", "bv"):
                return [(a0, st)]
            if a0[0] == "expr" and k == "expr":
                return [(a0, st)]
            if a0[0] == "bv" and k == "expr":
                st.counter[0] += 1
                s = Shape("const#%d" % st.counter[0], False, "Const", {"w": a0[1]})
                return [(V_expr(s), st)]
            if a0[0] == "variable" and k == "expr":
                st.counter[0] += 1
                s = Shape("var#%d" % st.counter[0], False, "Var", {"size": a0[1]["size"]})
                return [(V_expr(s), st)]
            if a0[0] == "op" and k == "op":
                # mnemonic -> IR operator: the mapping itself is C11's business; the class is unknown here
                return [(("op", Op()), st)]
            r = self.inline(n, vs, st, depth)
            if r is not None:
                return r
            if a0[0] == "variable" and k == "variable":
                return [(a0, st)]
            if a0[0] == "obj" and k == "variable":
                return [(("variable", {"size": self.field(a0, "size", "intermediate_representation::bitvector::ByteSize", st, {})[1]}), st)]
            return [(self.fresh(ret_ty, "into", st, True, True) if k else UNK, st)]
        if name == "bytesize" and vs:
            if a0[0] == "expr":
                return [(V_size(self.size_of(a0[1], st, True)), st)]
            if a0[0] == "bv":
                return [(V_size(a0[1]), st)]
            if a0[0] == "variable":
                return [(V_size(a0[1]["size"]), st)]
            return [(self.fresh(ret_ty, "bytesize", st, True, True), st)]
        if name == "width" and vs and a0[0] == "bv":
            return [(V_size(a0[1]), st)]
        if name in ("add", "sub") and len(vs) == 2 and vs[0][0] == "size" and vs[1][0] == "size":
            return [(V_size(vs[0][1] + vs[1][1] if name == "add" else vs[0][1] - vs[1][1]), st)]
        if name in BV_WIDTH_CTORS and vs and self.tykind(ret_ty) == "bv":
            if a0[0] == "size":
                return [(("bv", a0[1]), st)]
            return [(("bv", Lin.sym("?w(%s)" % name)), st)]
        if name in BV_RESIZE and len(vs) >= 2 and vs[0][0] == "bv":
            if vs[1][0] == "size":
                return [(("bv", vs[1][1]), st)]
            return [(("bv", Lin.sym("?w(resize)")), st)]
        if name in BV_SAME and vs and a0[0] == "bv":
            return [(a0, st)]
        if name in ("bin_op",) and len(vs) == 3 and vs[0][0] == "bv":
            op = vs[1]
            if op[0] == "op" and op[1].names:
                cl = {self.classes.get(x, "?") for x in op[1].names}
                if cl == {"lhs"}:
                    return [(vs[0], st)]
                if cl == {"one"}:
                    return [(("bv", Lin.const(1)), st)]
                if cl == {"sum"} and vs[2][0] == "bv":
                    return [(("bv", vs[0][1] + vs[2][1]), st)]
            return [(("bv", Lin.sym("?w(bin_op)")), st)]
        if name == "input_vars" and vs and a0[0] == "expr":
            # the variables occurring in an (assumed) input expression: arbitrary variables -> free size
            st.counter[0] += 1
            return [(("vec", [("variable", {"size": Lin.sym("size(input_var#%d)" % st.counter[0])})]), st)]
        if name == "push" and len(vs) == 2 and n.get("a"):
            root = T.root_var_id(n["a"][0])
            if root is not None:
                cur = st.bind.get(root)
                if cur is not None and cur[0] == "vec":
                    cur[1].append(vs[1])
                else:
                    st.bind[root] = ("vec", [vs[1]])
            return [(("unit",), st)]
        if name in ("iter", "into_iter", "iter_mut", "drain") and vs and a0[0] == "vec":
            return [(a0, st)]
        if name == "substitute_input_var" and len(vs) == 3 and vs[0][0] == "expr":
            var, repl = vs[1], vs[2]
            if var[0] == "variable" and repl[0] == "expr":
                self.record("subst", n, st, repl[1], lambda: var[1]["size"], lambda: "substitute_input_var(var of size %r, %r)" % (var[1]["size"], repl[1]))
            self.havoc_shape(vs[0][1], st)
            return [(("unit",), st)]
        r = self.inline(n, vs, st, depth)
        if r is not None:
            return r
        # unknown call: a tracked expression passed by mutable reference keeps its size (callee obligation) but loses its structure
        for a, v in zip(n.get("a", []), vs):
            if v[0] == "expr" and self.is_mut_borrow(a):
                self.havoc_shape(v[1], st)
        k = self.tykind(ret_ty)
        return [(self.fresh(ret_ty, name or "call", st, True, True) if k else UNK, st)]

    def is_mut_borrow(self, a):
        ty = self.F.ty(a)
        return ty.startswith("&mut ") or ty.startswith("&'_ mut") or "&mut" in ty[:12]

    def havoc_shape(self, s, st):
        size = self.size_of(s, st, True)
        st.counter[0] += 1
        s.kind, s.f, s.assumed = None, {}, True
        if not (len(size.c) == 1 and size.k == 0 and list(size.c.values())[0] == 1):
            new = Lin.sym("sz(h#%d)" % st.counter[0])
            st.eqs.append(new - size)
            s.sz = new
        else:
            s.sz = size

    def has_sites(self, fn):
        cache = self.__dict__.setdefault("_has_sites", {})
        if fn["path"] not in cache:
            hit = False
            for x in T.walk(fn["body"]):
                k = x.get("k")
                if k == "Adt" and x.get("adt", "").endswith("def::Def") and x.get("v") == "Assign":
                    hit = True
                elif k == "Call" and x.get("n") == "substitute_input_var":
                    hit = True
                elif k == "Assign" and x["l"].get("k") == "Deref" and "expression::Expression" in (self.F.ty(x["l"]) or ""):
                    hit = True
                if hit:
                    break
            cache[fn["path"]] = hit
        return cache[fn["path"]]

    def inline(self, n, vs, st, depth):
        """Interpret a small crate-local callee that returns a tracked value in the caller's state."""
        if depth >= self.inline_depth:
            return None
        F = self.F
        fn = None
        for key in (n.get("r"), n.get("f")):
            if key and key in F.by_path:
                fn = F.by_path[key]
                break
        if fn is None or fn.get("dk") not in ("Fn", "AssocFn"):
            return None
        rk = self.tykind(F.ty(n))
        rty = F.ty(n)
        if rk not in ("expr", "variable", "obj", "size", "def") and not ("expression::Expression" in rty and (rty.startswith("std::option::Option<") or rty.startswith("("))):
            # a helper that returns nothing tracked is still interpreted when it contains obligation sites of its own
            # (a constructed Def::Assign, a rewrite, a substitution): they are judged under the caller's size equations
            return None
        if sum(1 for _ in T.walk(fn["body"])) > 1500:
            return None
        params = fn["params"]
        if len(params) != len(vs):
            return None
        st.stack.append(st.bind)
        st.bind = {}
        for p, v in zip(params, vs):
            pat = p.get("p")
            if pat:
                self.apply_pat(pat, v if v[0] not in ("unit", "bool", "lit") else UNK, st)
        try:
            res = self.interp(fn["body"], st, depth + 1)
        except Unsupported:
            st.bind = st.stack.pop()
            return None
        outs = []
        for v, s2 in res:
            if s2.dead and s2.ret is not None and s2.ret != ("loop-exit",):
                v = s2.ret
            elif s2.dead:
                s2.bind = s2.stack.pop()
                continue
            s2.dead = False
            s2.ret = None
            s2.bind = s2.stack.pop()
            outs.append((v, s2))
        return outs or None


def extract_classes(F):
    """BinOpType variant -> 'one' | 'lhs' | 'sum', read from Expression::bytesize in the analysed source."""
    from . import sym as S
    fn = F.fn("bytesize", adt="Expression", file="expression.rs")
    classes = {}
    unop_one = set()
    for m in T.walk(fn["body"]):
        if m.get("k") != "Match":
            continue
        for arm in m["arms"]:
            names = [q.get("v") for q in T.pat_alternatives(arm["p"]) if q.get("k") == "Variant"]
            if not names:
                continue
            body = S.fmt(S.value(S.Sym(F).term(arm["b"])))
            for q in T.pat_alternatives(arm["p"]):
                if q.get("k") != "Variant":
                    continue
                adt = q.get("adt", "")
                if adt.endswith("BinOpType"):
                    if body.startswith("new(") and "1" in body:
                        classes[q["v"]] = "one"
                    elif body.startswith("add(") and "lhs" in body and "rhs" in body:
                        classes[q["v"]] = "sum"
                    elif body.startswith("bytesize(") and "lhs" in body:
                        classes[q["v"]] = "lhs"
                elif adt.endswith("UnOpType"):
                    if body.startswith("new(") and "1" in body:
                        unop_one.add(q["v"])
    return classes, unop_one
