"""Iteration contexts: in which iterations does a node run?

 contexts(F, fn, node) -> [iterable expression, ...] (innermost first): the iterables of the for loops that enclose `node`,
 the receivers of the iterator adaptors whose closure contains it (`xs.iter().for_each(|x| ... node ...)`), and -- when node
 sits in a crate-local helper that fn (or one of its closures) calls -- the contexts of that call.
 owner(F, fn, node) -> the body record (fn, closure or helper) that contains node, with the chain of call nodes leading there.
 summary(F, fn, exprs) -> (field names read by the iterables after resolving local bindings, restricting adaptors used)"""
from . import thir as T
from . import bindsrc as B

RESTRICT = ("filter", "take", "skip", "step_by", "filter_map", "take_while", "skip_while", "map_while", "nth", "last", "find", "find_map", "position", "peekable", "first")
CLOSURE_ITER = ("map", "for_each", "flat_map", "inspect", "fold", "try_for_each", "filter", "filter_map", "flatten", "any", "all", "find", "take_while", "skip_while", "try_fold", "find_map", "position", "map_while")


def _bodies(F, fn):
    return [fn] + F.closures(fn)


def local_callee(F, n):
    g = F.by_path.get(n.get("r") or "") or F.by_path.get(n.get("f") or "")
    if g is not None and g.get("dk") in ("Fn", "AssocFn"):
        return g
    return None


def owner(F, fn, node, depth=2, _seen=None):
    """(body record, [call nodes from fn down to the helper])"""
    seen = _seen if _seen is not None else set()
    for b in _bodies(F, fn):
        if any(x is node for x in T.walk(b["body"])):
            return b, []
    if depth <= 0:
        return None, []
    for b in _bodies(F, fn):
        for x in T.walk(b["body"]):
            if x.get("k") == "Call":
                g = local_callee(F, x)
                if g is not None and g["path"] not in seen and g is not fn:
                    seen.add(g["path"])
                    o, chain = owner(F, g, node, depth - 1, seen)
                    if o is not None:
                        return o, [x] + chain
    return None, []


def _top(F, b):
    while b.get("dk") == "Closure" and b.get("parent") in F.by_path:
        b = F.by_path[b["parent"]]
    return b


def _local(F, top, node):
    """contexts of node inside the function `top` (its body or closures)"""
    out = []
    b = None
    for c in _bodies(F, top):
        if any(x is node for x in T.walk(c["body"])):
            b = c
    target = node
    while b is not None:
        for (n_, pat, it, body) in T.for_loops(b["body"]):
            if any(x is target for x in T.walk(body)):
                out.append(it)
        if b is top or b.get("dk") != "Closure":
            break
        parent = F.by_path.get(b.get("parent"))
        if parent is None:
            break
        taker = None
        for x in T.walk(parent["body"]):
            if x.get("k") == "Call" and any(T.peel(a).get("k") == "Closure" and T.peel(a).get("d") == b["path"] for a in x.get("a", [])):
                taker = x
        if taker is None:
            break
        if taker.get("n") in CLOSURE_ITER and taker.get("a"):
            out.append(taker["a"][0])
        target = taker
        b = parent
    return out


def contexts(F, fn, node):
    o, chain = owner(F, fn, node)
    if o is None:
        return []
    out = _local(F, _top(F, o), node)
    # walk up the call chain: each call node sits in the caller's body
    callers = [fn]
    for c in chain[:-1]:
        callers.append(local_callee(F, c))
    for caller, call in reversed(list(zip(callers, chain))):
        out.extend(_local(F, caller, call))
    return out


def summary(F, fn, exprs, extra_roots=()):
    roots = B.bodies(F, fn) + list(extra_roots)
    fields, adapt = set(), []
    for e in exprs:
        for src, how in B.sources(F, roots, e):
            for x in B.walk_with_closures(F, src):
                if x.get("k") == "Field" and x.get("fn"):
                    fields.add(x["fn"])
                if T.is_call(x, RESTRICT) or T.is_call(x, "rev"):
                    adapt.append(x["n"])
    return fields, adapt
