"""Navigation over the fact JSON (THIR trees, ADTs, impls)."""
import re


class AnchorMissing(Exception):
    """A function/type a rule is about cannot be found: the check fails closed."""


WRAPPERS = ("Use", "Borrow", "Deref", "Coerce", "NeverToAny", "RawBorrow")


class Facts:
    def __init__(self, raw):
        self.raw = raw
        self.crate = raw["crate"]
        self.types = raw["types"]
        self.files = raw["files"]
        self.fns = raw["fns"]
        self.by_path = {}
        for f in self.fns:
            self.by_path.setdefault(f["path"], f)
        self.adts = {a["path"]: a for a in raw["adts"]}
        self.impls = raw["impls"]
        self.children_of = {}
        for f in self.fns:
            if "parent" in f:
                self.children_of.setdefault(f["parent"], []).append(f)

    # ---- types / locations
    def ty(self, node):
        t = node.get("t")
        return self.types[t] if t is not None else ""

    def tyi(self, i):
        return self.types[i]

    def loc(self, node):
        sp = node.get("sp")
        if not sp:
            return "?"
        return "%s:%d" % (self.files[sp[0]], sp[1])

    def file_of(self, fn):
        return self.files[fn["sp"][0]]

    # ---- lookups
    def find_fns(self, name=None, adt=None, trait=None, mod=None, self_contains=None, file=None, path=None, include_expanded=False):
        res = []
        for f in self.fns:
            if name is not None and f["name"] != name:
                continue
            if path is not None and f["path"] != path:
                continue
            if adt is not None and not f.get("impl_adt", "").endswith(adt):
                continue
            if self_contains is not None and self_contains not in f.get("impl_self", ""):
                continue
            if trait is not None:
                if trait == "":
                    if "impl_trait" in f:
                        continue
                elif not (f.get("impl_trait", "").endswith(trait) or f.get("in_trait", "").endswith(trait)):
                    continue
            if mod is not None and not (f["mod"] == mod or f["mod"].endswith("::" + mod)):
                continue
            if file is not None and not self.file_of(f).endswith(file):
                continue
            if not include_expanded and "expn" in f and "Derive" in f.get("expn", ""):
                continue
            res.append(f)
        return res

    def fn(self, name=None, **kw):
        res = self.find_fns(name=name, **kw)
        # closures share the name '' - never returned by name lookups
        res = [f for f in res if f["dk"] != "Closure"] or res
        if len(res) != 1:
            raise AnchorMissing("anchor function not found uniquely: name=%r %r -> %d candidates %s" % (
                name, kw, len(res), [f["path"] for f in res][:6]))
        return res[0]

    def adt(self, suffix):
        res = [a for p, a in self.adts.items() if p == suffix or p.endswith("::" + suffix)]
        if len(res) != 1:
            raise AnchorMissing("anchor type not found uniquely: %r -> %s" % (suffix, [a["path"] for a in res]))
        return res[0]

    def variants(self, adt):
        return [v["name"] for v in adt["variants"]]

    def closures(self, fn, recursive=True):
        out = []
        for c in self.children_of.get(fn["path"], []):
            out.append(c)
            if recursive:
                out.extend(self.closures(c, True))
        return out

    def closure_by_path(self, path):
        f = self.by_path.get(path)
        if f is None:
            raise AnchorMissing("closure body %r not found" % path)
        return f

    def impls_of(self, trait_suffix):
        return [i for i in self.impls if i.get("trait", "").endswith(trait_suffix)]


# ---------------------------------------------------------------- tree utilities

EXPR_CHILD_KEYS = ("c", "th", "el", "fe", "e", "l", "r", "b", "base", "i", "els", "g")
EXPR_LIST_KEYS = ("a", "es", "ss", "up")


def children(node):
    """Immediate sub-expressions of an expression/statement node, in evaluation order
    as far as the JSON keeps it (good enough for structural rules; the CFG module keeps
    exact order)."""
    k = node.get("k")
    if k == "Match":
        yield node["e"]
        for arm in node["arms"]:
            for g in pat_guards(arm["p"]):
                yield g
            if "g" in arm:
                yield arm["g"]
            yield arm["b"]
        return
    if k == "Adt":
        for v in node["fs"].values():
            yield v
        if "base" in node:
            yield node["base"]
        return
    if k == "Let":
        yield node["e"]
        for g in pat_guards(node["p"]):
            yield g
        return
    if k == "LetStmt":
        if "i" in node:
            yield node["i"]
        if "els" in node:
            yield node["els"]
        return
    if k == "Block":
        for s in node["ss"]:
            yield s
        if "e" in node:
            yield node["e"]
        return
    if k == "If":
        yield node["c"]
        yield node["th"]
        if "el" in node:
            yield node["el"]
        return
    if k == "Call":
        if "fe" in node:
            yield node["fe"]
        for a in node["a"]:
            yield a
        return
    for key in ("l", "r", "e", "b"):
        v = node.get(key)
        if isinstance(v, dict):
            yield v
    for key in ("es", "up"):
        v = node.get(key)
        if isinstance(v, list):
            for x in v:
                yield x


def pat_guards(p):
    k = p.get("k")
    if k == "Guard":
        yield p["c"]
        yield from pat_guards(p["p"])
    elif k in ("Variant", "Leaf"):
        for s in p["sub"]:
            yield from pat_guards(s["p"])
    elif k == "Deref":
        yield from pat_guards(p["p"])
    elif k == "Or":
        for q in p["ps"]:
            yield from pat_guards(q)
    elif k == "Bind" and "sub" in p:
        yield from pat_guards(p["sub"])
    elif k == "Slice":
        for q in p["pre"] + p["suf"]:
            yield from pat_guards(q)


def walk(node):
    stack = [node]
    while stack:
        n = stack.pop()
        yield n
        ch = list(children(n))
        ch.reverse()
        stack.extend(ch)


def walk_fn(facts, fn, closures=True):
    """All expression nodes of a function body, including (optionally) the bodies of the
    closures created inside it."""
    yield from walk(fn["body"])
    if closures:
        for c in facts.closures(fn):
            yield from walk(c["body"])


def peel(node):
    """Strip value-preserving wrappers (borrow, deref, use, coercion, blocks that only
    hold a tail expression)."""
    while True:
        k = node.get("k")
        if k in WRAPPERS:
            node = node["e"]
        elif k == "Block" and not node["ss"] and "e" in node and "bsc" not in node:
            node = node["e"]
        else:
            return node


def is_call(node, name=None, path_re=None, trait=None):
    if node.get("k") != "Call" or "f" not in node:
        return False
    if name is not None:
        if isinstance(name, (tuple, list, set, frozenset)):
            if node["n"] not in name:
                return False
        elif node["n"] != name:
            return False
    if path_re is not None and not re.search(path_re, node["f"]) and not re.search(path_re, node.get("r", "")):
        return False
    if trait is not None and not node.get("tr", "").endswith(trait):
        return False
    return True


def calls(node, **kw):
    return [n for n in walk(node) if is_call(n, **kw)]


def calls_fn(facts, fn, closures=True, **kw):
    return [n for n in walk_fn(facts, fn, closures) if is_call(n, **kw)]


def callee_key(call):
    """Resolved def-path of the callee if the driver could resolve the trait method,
    else the declared path."""
    return call.get("r") or call.get("f") or "<indirect>"


def recv(call):
    """Receiver (first argument) of a method-style call, peeled."""
    return peel(call["a"][0]) if call.get("a") else None


def var_id(node):
    n = peel(node)
    if n.get("k") in ("Var", "Upvar"):
        return n["id"]
    return None


def root_var_id(node):
    """local id behind borrows, derefs (incl. overloaded deref calls) and field/index projections"""
    n = peel(node)
    while True:
        k = n.get("k")
        if k == "Call" and n.get("n") in ("deref", "deref_mut", "as_mut_slice", "as_slice", "as_mut", "as_ref", "borrow", "borrow_mut", "index", "index_mut") and n.get("a"):
            n = peel(n["a"][0])
        elif k == "Field":
            n = peel(n["e"])
        elif k == "Index":
            n = peel(n["l"])
        else:
            break
    if n.get("k") in ("Var", "Upvar"):
        return n["id"]
    return None


def is_self(node):
    n = peel(node)
    return n.get("k") in ("Var", "Upvar") and n.get("n") == "self"


def field_chain(node):
    """For `a.b.c` (through borrows/derefs) return (root_node, ['b','c']); root is the
    innermost non-field expression."""
    names = []
    n = peel(node)
    while n.get("k") == "Field":
        names.append(n.get("fn", str(n.get("fi"))))
        n = peel(n["e"])
    names.reverse()
    return n, names


def self_field(node):
    """'f' if node is `self.f` (possibly through borrows), else None"""
    root, names = field_chain(node)
    if names and root.get("k") in ("Var", "Upvar") and root.get("n") == "self":
        return names[0]
    return None


def for_loop(node):
    """If node is the desugaring of `for pat in iterable { body }` return
    (pat, iterable_expr, body_expr) else None."""
    if node.get("k") != "Match" or not node.get("ms", "").startswith("ForLoopDesugar"):
        return None
    it = peel(node["e"])
    iterable = it["a"][0] if it.get("k") == "Call" and it.get("n") == "into_iter" and it.get("a") else node["e"]
    try:
        loop = peel(node["arms"][0]["b"])
        while loop.get("k") == "Block":
            loop = peel(loop["ss"][0] if loop["ss"] else loop["e"])
        inner = peel(loop["b"])
        while inner.get("k") == "Block":
            inner = peel(inner["ss"][0] if inner["ss"] else inner["e"])
        assert inner.get("k") == "Match"
        for arm in inner["arms"]:
            q = pat_peel(arm["p"])
            if q.get("k") == "Variant" and q["v"] == "Some":
                return (q["sub"][0]["p"], iterable, arm["b"])
    except (KeyError, IndexError, AssertionError):
        return None
    return None


def for_loops(root):
    out = []
    for n in walk(root):
        fl = for_loop(n)
        if fl:
            out.append((n,) + fl)
    return out


def diverges(n, facts=None):
    """True if evaluating the node never falls through (ends in break/continue/return/panic)."""
    k = n.get("k")
    if k in ("Break", "Continue", "Return"):
        return True
    if k in ("NeverToAny", "Use"):
        return diverges(n["e"], facts)
    if k == "Block":
        for s in n["ss"]:
            if s.get("k") != "LetStmt" and diverges(s, facts):
                return True
        return "e" in n and diverges(n["e"], facts)
    if k == "If":
        return "el" in n and diverges(n["th"], facts) and diverges(n["el"], facts)
    if k == "Match":
        return bool(n["arms"]) and all(diverges(a["b"], facts) for a in n["arms"])
    if k == "Call" and "f" in n:
        return n["f"].startswith(("core::panicking::", "std::rt::begin_panic", "core::panic", "std::process::exit", "std::rt::panic")) or n["n"] in ("panic_fmt", "unreachable_display", "panic_display")
    return False


def paths_to(root, pred):
    """For every node satisfying pred: (node, conds) where conds is the list of branch
    decisions that hold when the node is reached: ('if', cond_node, True|False),
    ('arm', match_node, arm), ('letelse', letstmt, True). Guard clauses are included: after
    `if c { continue }` the rest of the block is reached only with c false."""
    out = []

    def rec(n, conds):
        if pred(n):
            out.append((n, list(conds)))
        k = n.get("k")
        if k == "If":
            rec(n["c"], conds)
            rec(n["th"], conds + [("if", n["c"], True)])
            if "el" in n:
                rec(n["el"], conds + [("if", n["c"], False)])
            return
        if k == "Match":
            rec(n["e"], conds)
            for arm in n["arms"]:
                c2 = conds + [("arm", n, arm)]
                if "g" in arm:
                    rec(arm["g"], c2)
                    c2 = c2 + [("if", arm["g"], True)]
                rec(arm["b"], c2)
            return
        if k == "Logical":
            rec(n["l"], conds)
            rec(n["r"], conds + [("if", n["l"], n["o"] == "And")])
            return
        if k == "Block":
            cur = list(conds)
            for s in n["ss"]:
                rec(s, cur)
                sp = s
                while sp.get("k") in ("Use", "NeverToAny"):
                    sp = sp["e"]
                if sp.get("k") == "LetStmt" and "els" in sp:
                    cur = cur + [("letelse", sp, True)]
                elif sp.get("k") == "If":
                    th_div = diverges(sp["th"])
                    el_div = "el" in sp and diverges(sp["el"])
                    if th_div and not el_div:
                        cur = cur + [("if", sp["c"], False)]
                    elif el_div and not th_div:
                        cur = cur + [("if", sp["c"], True)]
            if "e" in n:
                rec(n["e"], cur)
            return
        if k == "LetStmt":
            if "i" in n:
                rec(n["i"], conds)
            if "els" in n:
                rec(n["els"], conds + [("letelse", n, False)])
            return
        for c in children(n):
            rec(c, conds)

    rec(root, [])
    return out


# ---------------------------------------------------------------- patterns

WILD = "*"


def pat_peel(p):
    while True:
        k = p.get("k")
        if k == "Deref":
            p = p["p"]
        elif k == "Guard":
            p = p["p"]
        elif k == "Bind" and "sub" in p:
            p = p["sub"]
        else:
            return p


def pat_alternatives(p):
    """Flatten top-level or-patterns."""
    p = pat_peel(p)
    if p.get("k") == "Or":
        out = []
        for q in p["ps"]:
            out.extend(pat_alternatives(q))
        return out
    return [p]


def pat_variant_names(p):
    """Set of variant names the pattern matches at top level; contains WILD if it can
    match any variant (wildcard/binding/constant of non-enum etc.)."""
    out = set()
    for q in pat_alternatives(p):
        k = q.get("k")
        if k == "Variant":
            out.add(q["v"])
        else:
            out.add(WILD)
    return out


def pat_is_irrefutable_shallow(p):
    q = pat_peel(p)
    return q.get("k") in ("Wild", "Bind")


def pat_bindings(p, prefix=()):
    """[(local id, name, field path tuple)] for every binding inside the pattern."""
    out = []
    k = p.get("k")
    if k == "Bind":
        out.append((p["id"], p["n"], prefix))
        if "sub" in p:
            out.extend(pat_bindings(p["sub"], prefix))
    elif k in ("Variant", "Leaf"):
        for s in p["sub"]:
            out.extend(pat_bindings(s["p"], prefix + (s["f"],)))
    elif k in ("Deref", "Guard"):
        out.extend(pat_bindings(p["p"], prefix))
    elif k == "Or":
        for q in p["ps"]:
            out.extend(pat_bindings(q, prefix))
    elif k == "Slice":
        for i, q in enumerate(p["pre"]):
            out.extend(pat_bindings(q, prefix + ("[%d]" % i,)))
        if "mid" in p:
            out.extend(pat_bindings(p["mid"], prefix + ("[..]",)))
        for i, q in enumerate(p["suf"]):
            out.extend(pat_bindings(q, prefix + ("[-%d]" % (len(p["suf"]) - i),)))
    return out


def pat_field(p, field):
    """Sub-pattern for a named field of a Variant/Leaf pattern, or None if the field is
    not mentioned (covered by `..`)."""
    q = pat_peel(p)
    if q.get("k") in ("Variant", "Leaf"):
        for s in q["sub"]:
            if s["f"] == field:
                return s["p"]
    return None


def arms_for_variant(match, variant):
    """Arms a value of the given enum variant can reach, in order, stopping after the
    first arm that matches it unconditionally (no guard)."""
    out = []
    for arm in match["arms"]:
        names = pat_variant_names(arm["p"])
        if variant in names or WILD in names:
            out.append(arm)
            if "g" not in arm and not any(True for _ in pat_guards(arm["p"])):
                # a nested refutable sub-pattern may still fail; callers that care use
                # pat_is_total_for_variant
                if pat_total_for_variant(arm["p"], variant):
                    break
    return out


def pat_total_for_variant(p, variant):
    """True if the pattern matches *every* value of that variant (sub-patterns are all
    irrefutable)."""
    for q in pat_alternatives(p):
        k = q.get("k")
        if k in ("Wild", "Bind"):
            return True
        if k == "Variant" and q["v"] == variant:
            if all(pat_irrefutable_deep(s["p"]) for s in q["sub"]):
                return True
    return False


def pat_irrefutable_deep(p):
    q = pat_peel(p)
    k = q.get("k")
    if k in ("Wild", "Bind"):
        return True
    if k == "Leaf":
        return all(pat_irrefutable_deep(s["p"]) for s in q["sub"])
    return False


def find_matches(node, facts=None, adt_suffix=None, deep=False):
    """All `match` nodes (incl. if-let lowered forms are `Let`, not included) whose arms
    mention variants of the given ADT."""
    out = []
    for n in walk(node):
        if n.get("k") == "Match":
            if adt_suffix is None:
                out.append(n)
                continue
            for arm in n["arms"]:
                if any(q.get("k") == "Variant" and q["adt"].endswith(adt_suffix) for q in pat_alternatives(arm["p"])):
                    out.append(n)
                    break
            else:
                if deep and any(pat_mentions_adt(arm["p"], adt_suffix) for arm in n["arms"]):
                    out.append(n)
    return out


def pat_mentions_adt(p, adt_suffix):
    k = p.get("k")
    if k == "Variant":
        if p["adt"].endswith(adt_suffix):
            return True
        return any(pat_mentions_adt(s["p"], adt_suffix) for s in p["sub"])
    if k == "Leaf":
        return any(pat_mentions_adt(s["p"], adt_suffix) for s in p["sub"])
    if k in ("Deref", "Guard"):
        return pat_mentions_adt(p["p"], adt_suffix)
    if k == "Bind" and "sub" in p:
        return pat_mentions_adt(p["sub"], adt_suffix)
    if k == "Or":
        return any(pat_mentions_adt(q, adt_suffix) for q in p["ps"])
    if k == "Slice":
        return any(pat_mentions_adt(q, adt_suffix) for q in p["pre"] + p["suf"] + ([p["mid"]] if "mid" in p else []))
    return False


# ---------------------------------------------------------------- rendering

def show(node, facts=None, depth=0):
    """Compact source-like rendering of an expression for diagnostics and canonical
    comparison. Locals are rendered by name."""
    if depth > 12:
        return "…"
    k = node.get("k")
    d = depth + 1
    if k in ("Use", "NeverToAny", "Coerce"):
        return show(node["e"], facts, d)
    if k == "Borrow":
        return ("&mut " if node.get("m") else "&") + show(node["e"], facts, d)
    if k == "RawBorrow":
        return "&raw " + show(node["e"], facts, d)
    if k == "Deref":
        return "*" + show(node["e"], facts, d)
    if k in ("Var", "Upvar"):
        return node["n"]
    if k == "Lit":
        v = node.get("v")
        return repr(v) if isinstance(v, str) else str(v).lower() if isinstance(v, bool) else str(v)
    if k == "Field":
        return "%s.%s" % (show(node["e"], facts, d), node.get("fn", node.get("fi")))
    if k == "Call":
        args = ", ".join(show(a, facts, d) for a in node["a"])
        if "f" in node:
            return "%s(%s)" % (short_path(node["f"]), args)
        return "(%s)(%s)" % (show(node["fe"], facts, d), args)
    if k == "Binary":
        return "(%s %s %s)" % (show(node["l"], facts, d), node["o"], show(node["r"], facts, d))
    if k == "Logical":
        return "(%s %s %s)" % (show(node["l"], facts, d), "&&" if node["o"] == "And" else "||", show(node["r"], facts, d))
    if k == "Unary":
        return "%s(%s)" % (node["o"], show(node["e"], facts, d))
    if k == "Cast":
        return "(%s as _)" % show(node["e"], facts, d)
    if k == "If":
        s = "if %s {%s}" % (show(node["c"], facts, d), show(node["th"], facts, d))
        if "el" in node:
            s += " else {%s}" % show(node["el"], facts, d)
        return s
    if k == "Let":
        return "let %s = %s" % (show_pat(node["p"]), show(node["e"], facts, d))
    if k == "Match":
        return "match %s {%s}" % (show(node["e"], facts, d), "; ".join(
            "%s%s => %s" % (show_pat(a["p"]), (" if " + show(a["g"], facts, d)) if "g" in a else "", show(a["b"], facts, d)) for a in node["arms"]))
    if k == "Block":
        parts = [show(s, facts, d) for s in node["ss"]]
        if "e" in node:
            parts.append(show(node["e"], facts, d))
        return "{" + "; ".join(parts) + "}"
    if k == "LetStmt":
        s = "let %s" % show_pat(node["p"])
        if "i" in node:
            s += " = " + show(node["i"], facts, d)
        return s
    if k == "Assign":
        return "%s = %s" % (show(node["l"], facts, d), show(node["r"], facts, d))
    if k == "AssignOp":
        return "%s %s= %s" % (show(node["l"], facts, d), node["o"], show(node["r"], facts, d))
    if k == "Index":
        return "%s[%s]" % (show(node["l"], facts, d), show(node["r"], facts, d))
    if k == "Adt":
        return "%s::%s{%s}" % (short_path(node["adt"]), node["v"], ", ".join("%s: %s" % (f, show(e, facts, d)) for f, e in node["fs"].items()))
    if k in ("Tuple", "Array"):
        return ("(%s)" if k == "Tuple" else "[%s]") % ", ".join(show(e, facts, d) for e in node["es"])
    if k == "Return":
        return "return " + (show(node["e"], facts, d) if "e" in node else "")
    if k == "Break":
        return "break"
    if k == "Continue":
        return "continue"
    if k == "Loop":
        return "loop " + show(node["b"], facts, d)
    if k == "Closure":
        return "|..| <%s>" % short_path(node["d"])
    if k in ("Const", "Static", "ConstParam"):
        return short_path(node["d"])
    if k == "FnRef":
        return short_path(node["f"])
    if k == "Zst":
        return "()"
    return "<%s>" % k


def short_path(p):
    # keep the last two path segments, drop generic clutter
    p = re.sub(r"<impl [^>]*>", "", p)
    segs = [s for s in re.split(r"::", p) if s]
    return "::".join(segs[-2:]) if len(segs) >= 2 else p


def show_pat(p):
    k = p.get("k")
    if k == "Wild":
        return "_"
    if k == "Bind":
        s = p["n"]
        if "sub" in p:
            s += " @ " + show_pat(p["sub"])
        return s
    if k == "Variant":
        if not p["sub"]:
            return p["v"]
        return "%s{%s}" % (p["v"], ", ".join("%s: %s" % (s["f"], show_pat(s["p"])) for s in p["sub"]))
    if k == "Leaf":
        return "(%s)" % ", ".join(show_pat(s["p"]) for s in p["sub"])
    if k in ("Deref", "Guard"):
        return show_pat(p["p"])
    if k == "Or":
        return " | ".join(show_pat(q) for q in p["ps"])
    if k == "Const":
        return repr(p.get("v"))
    if k == "Slice":
        return "[..]"
    return "<%s>" % k


def walk_deep(facts, node, depth=2, _seen=None):
    """All nodes of `node`, of the closures created in it, and of the bodies of the crate-local functions it calls
    (transitively up to `depth` calls). For presence / absence questions ("is X ever done on this path?") that must not
    depend on whether the code was factored into helpers."""
    seen = _seen if _seen is not None else set()
    for n in walk(node):
        yield n
        if n.get("k") == "Closure":
            c = facts.by_path.get(n.get("d"))
            if c is not None and c["path"] not in seen:
                seen.add(c["path"])
                yield from walk_deep(facts, c["body"], depth, seen)
        elif depth > 0 and n.get("k") == "Call" and "f" in n:
            g = facts.by_path.get(n.get("r") or "") or facts.by_path.get(n.get("f") or "")
            if g is not None and g.get("dk") in ("Fn", "AssocFn") and g["path"] not in seen:
                seen.add(g["path"])
                yield from walk_deep(facts, g["body"], depth - 1, seen)
