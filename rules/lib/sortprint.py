"""Is the warning vector handed to print_all_messages sorted, after the last element was added, on every path to the print?

 analyse(C, main) -> dict(verdict='holds'|'violated'|'undecided', why=str, printed_is_var=bool, sort_site=node|None)
The vector is followed backwards from the print call: it is a local that is sorted in run_with_ghidra itself, or it is bound
(possibly by tuple destructuring) from a crate-local helper whose corresponding result component is a local that the helper
sorts unconditionally after its last append/extend/push and does not modify afterwards."""
from . import thir as T
from . import bindsrc as B

SORTS = ("sort", "sort_unstable")
GROW = ("append", "push", "extend", "insert", "extend_from_slice")
SHRINK = ("retain", "truncate", "clear", "dedup", "dedup_by_key", "dedup_by", "pop", "remove", "drain", "reverse", "swap_remove", "split_off")


def _cond_keys(c):
    return {(cd[0], id(cd[1]), id(cd[2]) if cd[0] == "arm" else cd[2]) for cd in c}


def _sorted_local(F, fn, vid, before_node=None, before_conds=()):
    """(verdict, why, sort node): local `vid` of fn is sorted unconditionally (relative to before_node), after its last
    growth, and untouched between the sort and before_node / the end"""
    body = fn["body"]
    order = list(T.walk(body))
    pos = {id(x): i for i, x in enumerate(order)}
    limit = pos.get(id(before_node), len(order)) if before_node is not None else len(order)
    sorts = [(x, c) for x, c in T.paths_to(body, lambda y: T.is_call(y, SORTS + ("sort_by", "sort_by_key", "sort_unstable_by", "sort_unstable_by_key")) and y.get("a") and T.root_var_id(y["a"][0]) == vid) if pos[id(x)] < limit]
    plain = [x for x, c in sorts if x["n"] in SORTS and _cond_keys([cd for cd in c if not (cd[0] == "if" and cd[2] is False and False)]) <= (_cond_keys(before_conds) | _guard_keys(fn, x))]
    if not plain:
        if sorts:
            return "violated", "the vector is sorted only conditionally or with a custom comparison", sorts[0][0]
        return None, "no sort of the vector", None
    last = plain[-1]
    grow = [x for x in T.walk_fn(F, fn) if T.is_call(x, GROW) and x.get("a") and T.root_var_id(x["a"][0]) == vid and id(x) in pos and pos[id(last)] < pos[id(x)] < limit]
    if grow:
        return "violated", "elements are added after the sort", grow[0]
    touched = [x for x in order if T.is_call(x, SHRINK) and x.get("a") and T.root_var_id(x["a"][0]) == vid and pos[id(last)] < pos[id(x)] < limit]
    if touched:
        return "violated", "the vector is modified between sorting and printing (%s)" % touched[0]["n"], touched[0]
    return "holds", "", last


def _guard_keys(fn, node):
    """conditions that merely reflect earlier guard clauses (`if c { return }` before the node) do not make the node conditional"""
    keys = set()
    for n_, conds in T.paths_to(fn["body"], lambda y: y is node):
        for cd in conds:
            if cd[0] == "if" and cd[2] is False:
                keys.add((cd[0], id(cd[1]), cd[2]))
            if cd[0] == "letelse" and cd[2] is True:
                keys.add((cd[0], id(cd[1]), cd[2]))
    return keys


def analyse(C, main):
    body = main["body"]
    prints = T.paths_to(body, lambda y: T.is_call(y, "print_all_messages"))
    if len(prints) != 1:
        return {"verdict": "undecided", "why": "print_all_messages is not called exactly once in run_with_ghidra", "printed_is_var": False, "sort_site": None}
    pc, pconds = prints[0]
    arg = pc["a"][1] if len(pc["a"]) > 1 else None
    is_var = arg is not None and T.peel(arg).get("k") in ("Var", "Upvar")
    if not is_var:
        return {"verdict": "undecided", "why": "the second argument of print_all_messages is not a local", "printed_is_var": False, "sort_site": None}
    vid = T.peel(arg)["id"]
    v, why, site = _sorted_local(C, main, vid, pc, pconds)
    if v is not None:
        return {"verdict": v, "why": why, "printed_is_var": True, "sort_site": site}
    # bound from a helper's result?
    src, how = B.binder(body, vid)
    call = T.peel(src) if src is not None else None
    g = None
    if call is not None and call.get("k") == "Call":
        g = C.by_path.get(call.get("r") or "") or C.by_path.get(call.get("f") or "")
    if g is None or g.get("dk") not in ("Fn", "AssocFn"):
        return {"verdict": "violated", "why": "the printed vector is never sorted", "printed_is_var": True, "sort_site": None}
    # which component of the helper's result?
    idx = None
    for x in T.walk(body):
        if x.get("k") == "LetStmt" and x.get("i") is src:
            p = x["p"]
            if p.get("k") == "Leaf" and "adt" not in p:
                for s_ in p.get("sub", []):
                    if any(i == vid for i, _h in B.pat_binds(s_["p"])):
                        idx = s_.get("fi", s_.get("f"))
    tail = T.peel(g["body"])
    while tail.get("k") == "Block" and tail.get("e") is not None:
        tail = T.peel(tail["e"])
    comp = tail
    if idx is not None:
        if tail.get("k") != "Tuple" or not isinstance(idx, int) or idx >= len(tail["es"]):
            return {"verdict": "undecided", "why": "result of %s is not a tuple expression" % g["name"], "printed_is_var": True, "sort_site": None}
        comp = T.peel(tail["es"][idx])
    if comp.get("k") not in ("Var", "Upvar"):
        return {"verdict": "undecided", "why": "result component of %s is not a local" % g["name"], "printed_is_var": True, "sort_site": None}
    if any(x.get("k") == "Return" and x.get("ds") != "QuestionMark" for x in T.walk(g["body"])):
        return {"verdict": "undecided", "why": "%s has early returns" % g["name"], "printed_is_var": True, "sort_site": None}
    v, why, site = _sorted_local(C, g, comp["id"])
    if v is None:
        return {"verdict": "violated", "why": "the printed vector comes from %s, which never sorts it" % g["name"], "printed_is_var": True, "sort_site": None}
    # nothing may touch it in run_with_ghidra between the helper call and the print
    order = list(T.walk(body))
    pos = {id(x): i for i, x in enumerate(order)}
    touched = [x for x in order if T.is_call(x, GROW + SHRINK) and x.get("a") and T.root_var_id(x["a"][0]) == vid and pos[id(x)] < pos[id(pc)]]
    if v == "holds" and touched:
        return {"verdict": "violated", "why": "the sorted vector is modified before printing (%s)" % touched[0]["n"], "printed_is_var": True, "sort_site": site}
    return {"verdict": v, "why": why + (" (sorted in %s)" % g["name"] if v == "holds" else ""), "printed_is_var": True, "sort_site": site}


def dedup_ordered(F, fn):
    """How does fn de-duplicate the warnings it drains from its channel?  (verdict, why)
    holds: they are stored in a BTreeMap (insert / extend / collect) -- ordered, last one per key wins;
    violated: stored in a hash map (iteration order depends on the hash seed) or only pushed to a vector (no de-duplication)."""
    stores = []
    for x in T.walk_fn(F, fn):
        if x.get("k") != "Call" or "f" not in x:
            continue
        if x["n"] in ("insert", "extend", "entry", "push", "append") and x.get("a"):
            ty = F.ty(T.peel(x["a"][0])) or F.ty(x["a"][0]) or ""
            if "CweWarning" in ty:
                stores.append((x["n"], ty, x))
        elif x["n"] == "collect":
            ty = F.ty(x) or ""
            if "CweWarning" in ty and ("Map<" in ty):
                stores.append(("collect", ty, x))
    maps = [s_ for s_ in stores if "Map<" in s_[1]]
    if any("HashMap" in s_[1] for s_ in maps):
        return "violated", "warnings are de-duplicated in a hash map", maps[0][2]
    if any("BTreeMap" in s_[1] for s_ in maps):
        return "holds", "", maps[0][2]
    if stores:
        return "violated", "warnings are only collected into %s, not de-duplicated per source address" % stores[0][1].split("<")[0], stores[0][2]
    return "undecided", "no container of warnings found", None
