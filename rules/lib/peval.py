"""Specialisation of THIR bodies for known enum / bool values ("what runs when op == IntSLess?").

 Spec(F).reach(node, env) -> list of THIR nodes that can execute when the variables in env (id -> constant) have the given
 values: branches of `if` / `match` whose condition or scrutinee evaluates to a constant under env are pruned; `let` bindings
 of constants (incl. tuple destructuring) extend env; calls of small crate-local functions with constant arguments are
 evaluated (e.g. a helper that classifies an operator into (is_signed, is_strict)).
 Constants: ('enum', VariantName) | ('bool', b) | ('tuple', [c | None, ...]).
Rules use it so that one table rule can be stated per enum value no matter whether the code dispatches with one match per
value, with merged arms and inner tests, or through a classifying helper."""
from . import thir as T


class Spec:
    def __init__(self, F, max_depth=3, assume=None, follow_calls=False, enter_closures=False, scope=None):
        self.F = F
        self.max_depth = max_depth
        # follow_calls: reach() also lists the nodes of crate-local callees at the position of the call (parameters bound to
        # the constant arguments), so that order and presence questions do not depend on helper extraction
        self.follow_calls = follow_calls
        self.foreign = set()   # ids of nodes that reach() listed from followed callees
        # enter_closures: a closure handed to a call is treated as executed at that call (`cond.then(|| ..)` only when cond is
        # not known to be false); its nodes are listed as foreign (their `return` leaves the closure, not the function)
        self.enter_closures = enter_closures
        # scope: bodies in which `let f = |..| ..` bindings are looked up, so that calls `f(x)` of local closures are evaluated;
        # arg_nodes[param id] = argument expression of the closure / helper call being evaluated (for hooks that need more than
        # constants, e.g. a table handed to a predicate closure)
        self.scope = scope or []
        self.arg_nodes = {}
        # assume(node) -> constant | None : lets a rule fix the value of an expression that is not a variable
        # (e.g. "the scrutinee `edge.weight()` is an Edge::Jump")
        self.assume = assume

    # ---- constants
    def cev(self, n, env, depth=0):
        if self.assume is not None:
            a = self.assume(n)
            if a is not None:
                return a
        n = T.peel(n)
        if self.assume is not None:
            a = self.assume(n)
            if a is not None:
                return a
        k = n.get("k")
        if k in ("Var", "Upvar"):
            return env.get(n["id"])
        if k == "Lit":
            v = n.get("v")
            if isinstance(v, bool) or str(v).lower() in ("true", "false"):
                return ("bool", str(v).lower() == "true")
            return None
        if k == "Adt" and not n.get("fs"):
            return ("enum", n.get("v"))
        if k == "Adt" and n.get("v") and "base" not in n and (self.F.adts.get(n.get("adt"), {}).get("variants") and len(self.F.adts[n["adt"]]["variants"]) > 1 or n.get("adt", "").endswith(("option::Option", "result::Result"))):
            # a variant with payload: only the variant is known (never compared with ==, see below)
            return ("enum", n.get("v"), "payload")
        if k == "Tuple":
            return ("tuple", [self.cev(e, env, depth) for e in n["es"]])
        if k == "Unary" and n.get("o") == "Not":
            c = self.cev(n["e"], env, depth)
            return ("bool", not c[1]) if c and c[0] == "bool" else None
        if k == "Logical":
            l, r = self.cev(n["l"], env, depth), self.cev(n["r"], env, depth)
            if n["o"] == "And":
                if (l and l == ("bool", False)) or (r and r == ("bool", False)):
                    return ("bool", False)
                if l == ("bool", True) and r == ("bool", True):
                    return ("bool", True)
            else:
                if l == ("bool", True) or r == ("bool", True):
                    return ("bool", True)
                if l == ("bool", False) and r == ("bool", False):
                    return ("bool", False)
            return None
        if (k == "Binary" and n.get("o") in ("Eq", "Ne")) or (k == "Call" and n.get("n") in ("eq", "ne") and len(n.get("a", [])) == 2):
            a, b = (n["l"], n["r"]) if k == "Binary" else (n["a"][0], n["a"][1])
            ca, cb = self.cev(a, env, depth), self.cev(b, env, depth)
            if ca and cb and ca[0] == cb[0] and ca[0] in ("enum", "bool") and len(ca) == 2 and len(cb) == 2:
                same = ca == cb
                is_eq = (n.get("o") == "Eq") if k == "Binary" else (n.get("n") == "eq")
                return ("bool", same == is_eq)
            return None
        if k == "Let":
            c = self.cev(n["e"], env, depth)
            if c is None:
                return None
            r = self.pat_matches(n["p"], c)
            return ("bool", r) if r is not None else None
        if k == "Field":
            c = self.cev(n["e"], env, depth)
            if c and c[0] == "tuple" and isinstance(n.get("fi"), int) and n["fi"] < len(c[1]):
                return c[1][n["fi"]]
            return None
        if k == "Block":
            env2 = dict(env)
            for s_ in n.get("ss", []):
                s0 = s_
                s_ = T.peel(s_)
                if s_.get("k") == "LetStmt" and "i" in s_:
                    if "els" in s_:
                        c0 = self.cev(s_["i"], env2, depth)
                        if c0 is None or self.pat_matches(s_["p"], c0) is not True:
                            return None     # the else block may leave: the value of the block is not its tail
                    self.bind(s_["p"], self.cev(s_["i"], env2, depth), env2)
                    if any(x.get("k") == "Return" for x in T.walk(s_["i"])):
                        return None
                elif any(x.get("k") in ("Return",) for x in T.walk(s0)):
                    # a statement that may return early (a loop with `return Some(..)`, an `if .. { return .. }`): the tail is
                    # the value only on some paths
                    scratch = []
                    d = self._reach(s0, dict(env2), scratch, depth)
                    if any(x.get("k") == "Return" for x in scratch):
                        return None
            return self.cev(n["e"], env2, depth) if n.get("e") is not None else None
        if k == "If":
            c = self.cev(n["c"], env, depth)
            if c and c[0] == "bool":
                br = n["th"] if c[1] else n.get("el")
                return self.cev(br, env, depth) if br is not None else None
            return None
        if k == "Match":
            c = self.cev(n["e"], env, depth)
            arm = self.select_arm(n, c, env, depth)
            if arm is not None:
                env2 = dict(env)
                self.bind(arm["p"], c, env2)
                return self.cev(arm["b"], env2, depth)
            return None
        if k == "Call" and n.get("n") in ("call", "call_mut", "call_once") and n.get("a") and self.scope and depth < self.max_depth:
            f0 = T.peel(n["a"][0])
            c = None
            if f0.get("k") in ("Var", "Upvar"):
                from . import bindsrc as B
                for r_ in self.scope:
                    src, how = B.binder(r_, f0["id"])
                    if src is not None:
                        sp_ = T.peel(src)
                        if sp_.get("k") == "Closure":
                            c = self.F.by_path.get(sp_.get("d"))
                        break
            if c is not None:
                args = T.peel(n["a"][1]).get("es", []) if len(n["a"]) > 1 and T.peel(n["a"][1]).get("k") == "Tuple" else n["a"][1:]
                params = [p_ for p_ in c["params"] if p_.get("p")]
                if len(params) == len(args) + 1:
                    params = params[1:]
                env2 = dict(env)
                if len(params) == len(args):
                    for p_, a_ in zip(params, args):
                        cc = self.cev(a_, env, depth)
                        q = p_["p"]
                        while q.get("k") == "Deref":
                            q = q["p"]
                        if q.get("k") == "Bind":
                            self.arg_nodes[(c["path"], q["id"])] = a_
                        if cc is not None:
                            self.bind(p_["p"], cc, env2)
                    return self.cev(c["body"], env2, depth + 1)
            return None
        if k == "Call" and n.get("n") in ("map", "cloned", "copied", "as_ref", "as_mut", "as_deref", "inspect", "as_deref_mut") and n.get("a") and ("option::Option" in (n.get("f") or "") or "result::Result" in (n.get("f") or "")):
            c = self.cev(n["a"][0], env, depth)
            if c and c[0] == "enum" and c[1] in ("Some", "None", "Ok", "Err"):
                return c        # these combinators keep the variant
            return None
        if k == "Call" and n.get("n") in ("is_some", "is_none", "is_ok", "is_err") and len(n.get("a", [])) == 1:
            c = self.cev(n["a"][0], env, depth)
            if c and c[0] == "enum" and c[1] in ("Some", "None", "Ok", "Err"):
                pos = {"is_some": "Some", "is_none": "None", "is_ok": "Ok", "is_err": "Err"}[n["n"]]
                if (c[1] in ("Some", "None")) == (pos in ("Some", "None")):
                    return ("bool", c[1] == pos)
            return None
        if k == "Call" and n.get("n") in ("any", "all") and len(n.get("a", [])) == 2 and T.peel(n["a"][1]).get("k") == "Closure":
            # a predicate that has the same constant value for every element (scenario: the collection is not empty)
            c = self.F.by_path.get(T.peel(n["a"][1]).get("d"))
            if c is not None:
                r = self.cev(c["body"], env, depth + 1)
                if r and r[0] == "bool":
                    return r
            return None
        if k == "Call" and depth < self.max_depth:
            g = self.F.by_path.get(n.get("r") or "") or self.F.by_path.get(n.get("f") or "")
            if g is not None and g.get("dk") in ("Fn", "AssocFn") and len(g["params"]) == len(n.get("a", [])):
                if sum(1 for _ in T.walk(g["body"])) > 200:
                    return None
                env2 = {}
                known = False
                for p_, a_ in zip(g["params"], n["a"]):
                    c = self.cev(a_, env, depth)
                    if c is not None and p_.get("p"):
                        self.bind(p_["p"], c, env2)
                        known = True
                if known or self.assume is not None:
                    return self.cev(g["body"], env2, depth + 1)
            return None
        return None

    def bind(self, pat, c, env):
        if c is None:
            return
        p = T.pat_peel(pat) if pat.get("k") != "Bind" else pat
        if pat.get("k") == "Bind":
            if pat.get("mut"):
                # a `let mut` local may be reassigned (also from inside a closure): its initial value is not its value
                env.pop(pat["id"], None)
                return
            env[pat["id"]] = c
            if "sub" in pat:
                self.bind(pat["sub"], c, env)
            return
        if p.get("k") == "Leaf" and c[0] == "tuple":
            for s_ in p.get("sub", []):
                i = s_.get("fi", s_.get("f"))
                if isinstance(i, int) and i < len(c[1]):
                    self.bind(s_["p"], c[1][i], env)
        elif p.get("k") in ("Deref",):
            self.bind(p["p"], c, env)

    def pat_matches(self, pat, c):
        """True / False / None (unknown) for constant c"""
        p = T.pat_peel(pat)
        k = p.get("k")
        if k in ("Wild", "Bind"):
            return True
        if c is None:
            return None
        if k == "Or":
            rs = [self.pat_matches(q, c) for q in p["ps"]]
            if any(r is True for r in rs):
                return True
            if all(r is False for r in rs):
                return False
            return None
        if k == "Variant":
            if c[0] == "enum":
                return p.get("v") == c[1]
            return None
        if k == "Const":
            if c[0] == "bool":
                v = str(p.get("v")).lower()
                if v in ("true", "1"):
                    return c[1] is True
                if v in ("false", "0"):
                    return c[1] is False
            return None
        if k == "Leaf" and c[0] == "tuple":
            res = True
            for s_ in p.get("sub", []):
                i = s_.get("fi", s_.get("f"))
                if isinstance(i, int) and i < len(c[1]):
                    r = self.pat_matches(s_["p"], c[1][i])
                    if r is False:
                        return False
                    if r is None:
                        res = None
            return res
        return None

    def select_arm(self, m, c, env, depth):
        """the arm taken for constant scrutinee c, or None if not determined"""
        if c is None:
            return None
        for arm in m["arms"]:
            r = self.pat_matches(arm["p"], c)
            if r is True:
                if "g" in arm:
                    env2 = dict(env)
                    self.bind(arm["p"], c, env2)
                    g = self.cev(arm["g"], env2, depth)
                    if g == ("bool", True):
                        return arm
                    if g == ("bool", False):
                        continue
                    return None
                return arm
            if r is None:
                return None
        return None

    # ---- reachable nodes
    def reach(self, n, env, depth=0):
        """nodes that can execute under env. Control flow is respected: code after a statement that certainly leaves
        (return / break / continue / panic on every remaining path) is not reachable."""
        out = []
        self._reach(n, dict(env), out, depth)
        return out

    def _reach(self, n, env, out, depth):
        """appends reachable nodes; returns True if evaluation of n certainly does not fall through"""
        out.append(n)
        k = n.get("k")
        if k in ("Break", "Continue", "Return"):
            for c in T.children(n):
                self._reach(c, env, out, depth)
            return True
        if k == "If":
            c = self.cev(n["c"], env, depth)
            self._reach(n["c"], env, out, depth)
            if c and c[0] == "bool":
                br = n["th"] if c[1] else n.get("el")
                if br is not None:
                    return self._reach(br, dict(env), out, depth)
                return False
            d1 = self._reach(n["th"], dict(env), out, depth)
            d2 = self._reach(n["el"], dict(env), out, depth) if n.get("el") is not None else False
            return d1 and d2
        if k == "Match":
            c = self.cev(n["e"], env, depth)
            self._reach(n["e"], env, out, depth)
            arm = self.select_arm(n, c, env, depth)
            arms = [arm] if arm is not None else [a for a in n["arms"] if self.pat_matches(a["p"], c) is not False]
            ds = []
            for a in arms:
                env2 = dict(env)
                self.bind(a["p"], c, env2)
                if "g" in a:
                    self._reach(a["g"], env2, out, depth)
                ds.append(self._reach(a["b"], env2, out, depth))
            # a guarded arm may fall to later arms: only a definite selection or all candidates diverging counts
            return bool(ds) and all(ds)
        if k == "Block":
            for s_ in n.get("ss", []):
                if self._reach(s_, env, out, depth):
                    return True
            if n.get("e") is not None:
                return self._reach(n["e"], env, out, depth)
            return False
        if k == "LetStmt":
            d = False
            if "i" in n:
                d = self._reach(n["i"], env, out, depth)
                self.bind(n["p"], self.cev(n["i"], env, depth), env)
            if "els" in n:
                # let-else: the else block runs (and diverges) exactly when the pattern does not match
                c = self.cev(n["i"], env, depth) if "i" in n else None
                r = self.pat_matches(n["p"], c) if c is not None else None
                if r is True:
                    return d
                de = self._reach(n["els"], dict(env), out, depth)
                if r is False:
                    return True
            return d
        if k == "Loop":
            self._reach(n["b"], dict(env), out, depth)
            return False
        if k == "Closure":
            return False
        d = False
        for c in T.children(n):
            if self._reach(c, env, out, depth):
                d = True
        if k == "Call" and T.diverges(n):
            return True
        if k == "Call" and self.enter_closures:
            skip = False
            if n.get("n") in ("then", "then_some") and n.get("a"):
                skip = self.cev(n["a"][0], env, depth) == ("bool", False)
            if not skip:
                for a_ in n.get("a", []):
                    ap = T.peel(a_)
                    if ap.get("k") == "Closure":
                        c = self.F.by_path.get(ap.get("d"))
                        if c is not None:
                            before = len(out)
                            self._reach(c["body"], dict(env), out, depth)
                            for x in out[before:]:
                                self.foreign.add(id(x))
        if k == "Call" and self.follow_calls and depth < self.max_depth:
            g = self.F.by_path.get(n.get("r") or "") or self.F.by_path.get(n.get("f") or "")
            if g is not None and g.get("dk") in ("Fn", "AssocFn") and len(g["params"]) == len(n.get("a", [])) and sum(1 for _ in T.walk(g["body"])) < 600:
                env2 = {}
                for p_, a_ in zip(g["params"], n["a"]):
                    c = self.cev(a_, env, depth)
                    if c is not None and p_.get("p"):
                        self.bind(p_["p"], c, env2)
                    if p_.get("p") and p_["p"].get("k") == "Bind":
                        self.arg_nodes[(g["path"], p_["p"]["id"])] = a_     # local ids are unique per function only
                before = len(out)
                self._reach(g["body"], env2, out, depth + 1)
                for x in out[before:]:
                    self.foreign.add(id(x))
        return d if k in T.WRAPPERS or k in ("Use", "NeverToAny", "Scope") else False

    # ---- results
    def results(self, body, env):
        """(result expressions, reachable nodes) of a function body under env: the operands of reachable `return e` and the
        reachable tail expressions (leaves of if / match / block in tail position)."""
        nodes = self.reach(body, env)
        rets = [n["e"] for n in nodes if n.get("k") == "Return" and n.get("e") is not None and id(n) not in self.foreign]
        leaves = []
        self._leaves(body, dict(env), leaves)
        return rets + leaves, nodes

    def _leaves(self, n, env, out):
        n0 = n
        n = T.peel(n) if n.get("k") in T.WRAPPERS else n
        k = n.get("k")
        if k in ("Use", "NeverToAny", "Scope") and "e" in n:
            return self._leaves(n["e"], env, out)
        if k == "Block":
            for s_ in n.get("ss", []):
                scratch = []
                if self._reach(s_, env, scratch, 0):
                    return
            if n.get("e") is not None:
                self._leaves(n["e"], env, out)
            return
        if k == "If":
            c = self.cev(n["c"], env)
            if c and c[0] == "bool":
                br = n["th"] if c[1] else n.get("el")
                if br is not None:
                    self._leaves(br, dict(env), out)
                return
            self._leaves(n["th"], dict(env), out)
            if n.get("el") is not None:
                self._leaves(n["el"], dict(env), out)
            return
        if k == "Match":
            c = self.cev(n["e"], env)
            arm = self.select_arm(n, c, env, 0)
            arms = [arm] if arm is not None else [a for a in n["arms"] if self.pat_matches(a["p"], c) is not False]
            for a in arms:
                env2 = dict(env)
                self.bind(a["p"], c, env2)
                self._leaves(a["b"], env2, out)
            return
        if k in ("Return", "Break", "Continue"):
            return
        out.append(n0)


def result_kind(n):
    """'Ok' | 'Err' | None for a Result-valued result expression (`?` residuals count as Err)"""
    n = T.peel(n)
    if n.get("k") == "Adt" and n.get("v") in ("Ok", "Err"):
        return n["v"]
    if n.get("k") == "Call" and n.get("n") == "from_residual":
        return "Err"
    return None


def option_kind(n):
    """'None' | ('Some', payload node) | None for an Option-valued result expression"""
    n = T.peel(n)
    while n.get("k") == "Block" and not n.get("ss") and n.get("e") is not None:
        n = T.peel(n["e"])
    if n.get("k") == "Adt" and n.get("adt", "").endswith("option::Option"):
        if n.get("v") == "None":
            return "None"
        if n.get("v") == "Some":
            fs = n.get("fs", {})
            return ("Some", list(fs.values())[0] if fs else None)
    if n.get("k") == "Call" and n.get("n") == "Some" and n.get("a"):
        return ("Some", n["a"][0])
    return None
