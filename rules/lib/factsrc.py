"""Fact generation and caching.

Facts are produced by tools/factgen (a rustc_private driver) run as RUSTC_WORKSPACE_WRAPPER
under `cargo +nightly check --offline` on a source tree (default /repo).  They are keyed
by a SHA-256 over the tree's sources and the driver binary; an unchanged key reuses the
cached JSON, a changed key forces a regeneration (cargo fingerprints of the workspace
members are deleted so that cargo cannot replay a cached compilation without calling the
driver, and the fact files are asserted to have been rewritten).
"""
import fcntl
import hashlib
import json
import os
import shutil
import subprocess
import sys
import time

VERIF = os.path.dirname(os.path.dirname(os.path.dirname(os.path.abspath(__file__))))
WORK = os.path.join(VERIF, ".work")
DRIVER = os.path.join(VERIF, "tools", "factgen", "target", "release", "factgen")
CRATES = ["cwe_checker_lib", "cwe_checker"]


class FactError(Exception):
    pass


def _tree_key(repo):
    h = hashlib.sha256()
    roots = [os.path.join(repo, "src")]
    files = []
    for root in roots:
        for dp, dns, fns in os.walk(root):
            dns[:] = sorted(d for d in dns if d not in ("target", ".git"))
            for fn in sorted(fns):
                if fn.endswith((".rs", ".toml", ".json", ".lock")):
                    files.append(os.path.join(dp, fn))
    for extra in ("Cargo.toml", "Cargo.lock", "test/Cargo.toml"):
        p = os.path.join(repo, extra)
        if os.path.exists(p):
            files.append(p)
    for p in files:
        h.update(os.path.relpath(p, repo).encode())
        h.update(b"\0")
        with open(p, "rb") as f:
            h.update(f.read())
        h.update(b"\0")
    if os.path.exists(DRIVER):
        with open(DRIVER, "rb") as f:
            h.update(hashlib.sha256(f.read()).digest())
    return h.hexdigest()


def _sysroot():
    return subprocess.check_output(["rustc", "+nightly", "--print", "sysroot"], text=True).strip()


def ensure_driver():
    if os.path.exists(DRIVER):
        return
    d = os.path.join(VERIF, "tools", "factgen")
    env = dict(os.environ, CARGO_NET_OFFLINE="true")
    r = subprocess.run(["cargo", "+nightly", "build", "--release", "--offline"], cwd=d, env=env,
                       stdout=subprocess.PIPE, stderr=subprocess.STDOUT, text=True)
    if r.returncode != 0 or not os.path.exists(DRIVER):
        raise FactError("factgen driver does not build:\n" + r.stdout[-4000:])


def slot_dir(slot):
    """facts directory of a slot. The `repo` slot (facts of /repo itself) is shared and keyed by the tree's hash; every
    other slot holds the facts of some scratch tree and is private to the process, so that self-tests / seed evaluations
    running at the same time cannot replace each other's facts."""
    if slot == "repo" or slot.startswith("shared-"):
        # `shared-<unique name>`: the caller runs several checks one after the other on ONE scratch tree and owns the name
        return os.path.join(WORK, "facts-" + slot)
    return os.path.join(WORK, "facts-%s-%d" % (slot, os.getpid()))


def generate(repo="/repo", slot="repo", force=False, quiet=False):
    """Return the directory holding <crate>.json for the current state of `repo`."""
    ensure_driver()
    os.makedirs(WORK, exist_ok=True)
    out = slot_dir(slot)
    target = os.path.join(WORK, "target-" + ("repo" if slot == "repo" else "scratch"))
    os.makedirs(out, exist_ok=True)
    lock = open(os.path.join(WORK, "lock-" + os.path.basename(target)), "w")
    fcntl.flock(lock, fcntl.LOCK_EX)
    try:
        key = _tree_key(repo)
        keyfile = os.path.join(out, "KEY")
        have = all(os.path.exists(os.path.join(out, c + ".json")) for c in CRATES)
        if not force and have and os.path.exists(keyfile) and open(keyfile).read().strip() == key:
            return out
        t0 = time.time()
        for c in CRATES:
            p = os.path.join(out, c + ".json")
            if os.path.exists(p):
                os.remove(p)
        if os.path.exists(keyfile):
            os.remove(keyfile)
        fp = os.path.join(target, "debug", ".fingerprint")
        if os.path.isdir(fp):
            for d in os.listdir(fp):
                if d.startswith("cwe_checker"):
                    shutil.rmtree(os.path.join(fp, d), ignore_errors=True)
        env = dict(os.environ)
        env.update({
            "LD_LIBRARY_PATH": _sysroot() + "/lib",
            "RUSTFLAGS": "-Zmir-opt-level=0 -Awarnings",
            "RUSTC_WORKSPACE_WRAPPER": DRIVER,
            "FACTGEN_OUT": out,
            "FACTGEN_CRATES": ",".join(CRATES),
            "CARGO_TARGET_DIR": target,
            "CARGO_NET_OFFLINE": "true",
        })
        cmd = ["cargo", "+nightly", "check", "--offline", "-p", "cwe_checker_lib", "-p", "cwe_checker"]
        r = subprocess.run(cmd, cwd=repo, env=env, stdout=subprocess.PIPE, stderr=subprocess.STDOUT, text=True)
        if r.returncode != 0 and "error[E" not in r.stdout and "error: expected" not in r.stdout:
            # not a compile error of the analysed tree (e.g. a transient cargo/lock problem): try once more
            time.sleep(1)
            r = subprocess.run(cmd, cwd=repo, env=env, stdout=subprocess.PIPE, stderr=subprocess.STDOUT, text=True)
        if r.returncode != 0:
            raise FactError("the tree at %s does not compile under `cargo +nightly check`:\n%s" % (repo, r.stdout[-6000:]))
        for c in CRATES:
            p = os.path.join(out, c + ".json")
            if not os.path.exists(p) or os.path.getmtime(p) < t0 - 1:
                raise FactError("fact file %s was not rewritten by the driver (cargo replayed a cached run?)" % p)
        with open(keyfile, "w") as f:
            f.write(key)
        if not quiet:
            print("[facts] regenerated for %s in %.1fs" % (repo, time.time() - t0), file=sys.stderr)
        return out
    finally:
        fcntl.flock(lock, fcntl.LOCK_UN)
        lock.close()


def load(outdir, crate):
    with open(os.path.join(outdir, crate + ".json")) as f:
        return json.load(f)
