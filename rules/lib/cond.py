"""Path conditions on normalised terms (rules/lib/sym.py).

 conds_to(t, pred)  : [(subterm, [(cond_term, True|False|None)])] for every subterm satisfying pred;
                      closures are opaque; match arms contribute an opaque condition (None)
 literals(c, val, expand=None) : the set of (atom_text, polarity) implied by `c == val`, or None when c is not a
                      conjunction of literals under that value. `expand(call_term)` may return the literal set a
                      predicate call stands for (e.g. DataDomain::is_empty -> its three conjuncts).
"""
from .sym import fmt


def conds_to(t, pred):
    out = []

    def rec(x, conds):
        if isinstance(x, list) or (isinstance(x, tuple) and (not x or not isinstance(x[0], str))):
            for y in x:
                rec(y, conds)
            return
        if not isinstance(x, tuple):
            return
        if pred(x):
            out.append((x, list(conds)))
        if x[0] == "ite":
            rec(x[1], conds)
            rec(x[2], conds + [(x[1], True)])
            rec(x[3], conds + [(x[1], False)])
            return
        if x[0] == "match":
            rec(x[1], conds)
            for arm in x[2]:
                rec(arm[2], conds + [(("matcharm", x[1], arm[0]), None)])
            return
        if x[0] in ("and", "or"):
            rec(x[1], conds)
            rec(x[2], conds + [(x[1], x[0] == "and")])
            return
        if x[0] == "seq":
            # guard clauses: after `if c { return/continue/break }` the rest runs under !c
            cur = list(conds)
            for s in list(x[1]) + [x[2]]:
                rec(s, cur)
                g = s
                if isinstance(g, tuple) and g and g[0] == "ite":
                    if diverges(g[2]) and not diverges(g[3]):
                        cur = cur + [(g[1], False)]
                    elif diverges(g[3]) and not diverges(g[2]):
                        cur = cur + [(g[1], True)]
            return
        for y in x[1:]:
            rec(y, conds)

    rec(t, [])
    return out


def diverges(t):
    if not isinstance(t, tuple) or not t:
        return False
    if t[0] == "return" or (t[0] == "call" and t[1] in ("panic", "unreachable", "panic_fmt", "begin_panic")):
        return True
    if t[0] == "seq":
        return any(diverges(s) for s in t[1]) or diverges(t[2])
    if t[0] == "ite":
        return diverges(t[2]) and diverges(t[3])
    return False


def literals(c, val, expand=None):
    if val is None or not isinstance(c, tuple):
        return None
    if c[0] == "not":
        return literals(c[1], not val, expand)
    if (c[0] == "and" and val) or (c[0] == "or" and not val):
        a, b = literals(c[1], val, expand), literals(c[2], val, expand)
        return None if a is None or b is None else a | b
    if c[0] in ("and", "or"):
        return None
    if c[0] == "call" and expand is not None:
        e = expand(c)
        if e is not None:
            return set(e) if val else None
    if c[0] == "call" and c[1] == "is_some" and c[2]:
        return {("is_none(%s)" % fmt(c[2][0]), not val)}
    if c[0] == "call" and c[1] == "ne" and len(c[2]) == 2:
        return {("eq(%s, %s)" % tuple(sorted((fmt(c[2][0]), fmt(c[2][1])))), not val)}
    if c[0] == "call" and c[1] == "eq" and len(c[2]) == 2:
        return {("eq(%s, %s)" % tuple(sorted((fmt(c[2][0]), fmt(c[2][1])))), val)}
    if c[0] == "call" and c[1] == "unwrap" and len(c[2]) == 1:
        return literals(c[2][0], val, expand)
    return {(fmt(c), val)}


def path_literals(conds, expand=None):
    """(literal set, opaque?) of a list of path conditions."""
    lits, opaque = set(), False
    for c, v in conds:
        l = literals(c, v, expand)
        if l is None:
            opaque = True
        else:
            lits |= l
    return lits, opaque


def dnf(c, val, expand=None):
    """Disjunctive normal form of `c == val`: list of literal sets (each a conjunction); None when a part is opaque."""
    if val is None or not isinstance(c, tuple):
        return None
    if c[0] == "not":
        return dnf(c[1], not val, expand)
    if c[0] in ("and", "or"):
        a, b = dnf(c[1], val, expand), dnf(c[2], val, expand)
        if a is None or b is None:
            return None
        if (c[0] == "and") == bool(val):
            return [x | y for x in a for y in b][:64]
        return (a + b)[:64]
    l = literals(c, val, expand)
    return None if l is None else [l]


def path_dnf(conds, expand=None):
    """(list of conjunctions, opaque?) for a list of path conditions (their conjunction)."""
    cur, opaque = [set()], False
    for c, v in conds:
        d = dnf(c, v, expand)
        if d is None:
            opaque = True
            continue
        cur = [x | y for x in cur for y in d][:64]
    return cur, opaque
