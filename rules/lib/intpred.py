"""Exact accepted sets of integer predicates on normalised terms: unions of closed integer intervals.

 sat(t, is_subject, F) -> interval list of the integers x for which the boolean term t holds when the subject is x.
Vocabulary: and / or / not, comparisons of the subject with integer constants, `range.contains(&subject)` for Range /
RangeInclusive / RangeFrom / RangeTo / RangeToInclusive literals, and calls of local closures with the subject as argument
(the closure body is read with its parameter as the subject). Anything else raises Unknown."""
from . import sym as S
from .sym import fmt

INF = 1 << 80


class Unknown(Exception):
    pass


def norm(ivs):
    ivs = sorted((a, b) for a, b in ivs if a <= b)
    out = []
    for a, b in ivs:
        if out and a <= out[-1][1] + 1:
            out[-1] = (out[-1][0], max(out[-1][1], b))
        else:
            out.append((a, b))
    return out


def inter(x, y):
    return norm([(max(a, c), min(b, d)) for a, b in x for c, d in y if max(a, c) <= min(b, d)])


def compl(x):
    out, cur = [], -INF
    for a, b in norm(x):
        if a > cur:
            out.append((cur, a - 1))
        cur = b + 1
    if cur <= INF:
        out.append((cur, INF))
    return out


def show(ivs):
    f = lambda v: "-inf" if v <= -INF else "+inf" if v >= INF else str(v)
    return " U ".join("[%s, %s]" % (f(a), f(b)) for a, b in ivs) or "{}"


def const_of(t):
    t = S.value(t)
    while t[0] == "cast":
        t = S.value(t[1])
    if t[0] == "lit" and isinstance(t[1], int) and not isinstance(t[1], bool):
        return t[1]
    if t[0] == "neg":
        c = const_of(t[1])
        return None if c is None else -c
    return None


def sat(t, is_subject, F, depth=0):
    t = S.value(t)
    if depth > 8:
        raise Unknown("too deep")
    if t[0] == "and":
        return inter(sat(t[1], is_subject, F, depth), sat(t[2], is_subject, F, depth))
    if t[0] == "or":
        return norm(sat(t[1], is_subject, F, depth) + sat(t[2], is_subject, F, depth))
    if t[0] == "not":
        return compl(sat(t[1], is_subject, F, depth))
    if t[0] == "bin" and t[1] in ("Gt", "Ge", "Lt", "Le", "Eq", "Ne"):
        op, l, r = t[1], t[2], t[3]
        if is_subject(S.value(r)) and const_of(l) is not None:
            l, r = r, l
            op = {"Gt": "Lt", "Lt": "Gt", "Ge": "Le", "Le": "Ge"}.get(op, op)
        if is_subject(S.value(l)) and const_of(r) is not None:
            c = const_of(r)
            return norm({"Gt": [(c + 1, INF)], "Ge": [(c, INF)], "Lt": [(-INF, c - 1)], "Le": [(-INF, c)], "Eq": [(c, c)], "Ne": [(-INF, c - 1), (c + 1, INF)]}[op])
        raise Unknown(fmt(t)[:80])
    if t[0] == "call" and t[1] == "contains" and len(t[2]) == 2 and is_subject(S.value(t[2][1])):
        rg = S.value(t[2][0])
        if rg[0] == "adt":
            fs = {k: const_of(v) for k, v in rg[3]}
            nm = rg[1].split("::")[-1]
            if nm == "Range" and fs.get("start") is not None and fs.get("end") is not None:
                return norm([(fs["start"], fs["end"] - 1)])
            if nm == "RangeFrom" and fs.get("start") is not None:
                return norm([(fs["start"], INF)])
            if nm == "RangeTo" and fs.get("end") is not None:
                return norm([(-INF, fs["end"] - 1)])
            if nm == "RangeToInclusive" and fs.get("end") is not None:
                return norm([(-INF, fs["end"])])
        if rg[0] == "call" and rg[1] == "new" and "RangeInclusive" in rg[3] and len(rg[2]) == 2:
            a, b = const_of(rg[2][0]), const_of(rg[2][1])
            if a is not None and b is not None:
                return norm([(a, b)])
        raise Unknown(fmt(t)[:80])
    if t[0] in ("call", "callind") and t[1] in ("call", "call_once", "call_mut") and len(t[2]) == 2:
        clo = S.value(t[2][0])
        args = S.value(t[2][1])
        arg = S.value(args[1][0]) if args[0] == "tuple" and len(args[1]) == 1 else args
        if clo[0] == "closure" and is_subject(arg):
            c = F.closure_by_path(clo[1])
            params = [p["p"] for p in c["params"] if p.get("p") and p["p"].get("k") == "Bind"]
            if len(params) == 1:
                pid = params[0]["id"]
                body = S.Sym(F).term(c["body"])
                return sat(body, lambda z: z[0] == "var" and len(z) > 2 and z[2] == pid, F, depth + 1)
        raise Unknown(fmt(t)[:80])
    if t[0] == "lit" and isinstance(t[1], bool):
        return [(-INF, INF)] if t[1] else []
    raise Unknown(fmt(t)[:80])
