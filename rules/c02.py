"""C02 Interval transfer functions are sound -- structural clauses only.

The statement quantifies over interval members x operations; whether the bounds computed by an
arithmetic rule contain every concrete result is a numeric fact and is NOT decided. Decided are
the clauses whose truth is in the shape of the code and whose failure is an unsound or
ill-formed result for some operand:
 R1 dispatch: each precisely modelled operation (IntAdd, IntSub, IntMult, IntLeft, Piece) reaches the
    bit-vector primitives of ITS mnemonic (followed through the resolved call graph); reaching
    exactly the primitive set of a different operation is a swapped handler
 R2 generic arm (all other BinOpTypes): the constant fold happens only if BOTH operands are single
    values, with (self, rhs) operand order and the same op; every other path is Top of
    bin_op_bytesize(op, rhs) (not of the operand width: comparisons are 1 byte wide)
 R3 corner pairing by monotonicity: Interval::add pairs start+start / end+end, Interval::sub pairs
    start-end / end-start, Interval::signed_mul takes min (max) over ALL FOUR corner products for
    start (end) on every path (a special case for a constant factor still needs both remaining corners:
    the sign of the constant decides which one is extreme); the helper used for start computes a minimum, the one for end a maximum; every
    product that reaches a bound has its overflow flag tested on the way; overflow-checked results
    are the only source of bounds
 R4 negation: Interval::int_2_comp crosses the bounds (start=-end, end=-start) and is guarded
    against the signed minimum; un_op(Int2Comp) crosses the widening hints
 R5 un_op table: BoolNegate folds only single values and with the right polarity; float
    operations give Top of the operand width, FloatNaN Top of width 1; IntNegate reaches bit-not
 R6 cast table: IntZExt/IntSExt reach the zero/sign extension primitive with the target width;
    Float2Float/Int2Float/Trunc give Top of the TARGET width; PopCount/LzCount results are
    built at the target width
 R7 subpiece: higher bytes are cut with low_byte, lower bytes with size (both are ByteSize, a swap
    compiles); subpiece_lower returns the truncated bounds only under its two guards
    (length fits / truncated start <= end), otherwise Top of the target size
 R8 singleton stride: a result whose bounds come from a non-injective primitive (multiplication:
    a zero factor collapses the product interval to one value) must not take its stride from the
    operand strides without a start==end test -- "stride 0 exactly for singletons"
 R9 overflow detection idiom: the signed multiplication helper detects overflow by dividing the product back
    (`(a*b) sdiv a != b`); in two's complement that misses a = -1, b = MIN (product and quotient both wrap), so the
    pair must be treated separately (or the product computed in wider arithmetic)
"""
from .lib import cond as C
from .lib import sym as S
from .lib import thir as T
from .lib.sym import fmt

PRIM_KIND = {
    "signed_add_overflow_checked": "add", "into_checked_add": "add", "checked_add_assign": "add", "into_wrapping_add": "add", "wrapping_add_assign": "add",
    "signed_sub_overflow_checked": "sub", "into_checked_sub": "sub", "checked_sub_assign": "sub", "into_wrapping_sub": "sub", "wrapping_sub_assign": "sub",
    "signed_mult_with_overflow_flag": "mul", "into_checked_mul": "mul", "into_wrapping_mul": "mul", "checked_mul_assign": "mul",
    "into_checked_shl": "shl", "checked_shl_assign": "shl", "into_wrapping_shl": "shl",
    "into_zero_extend": "zext", "into_sign_extend": "sext", "into_bitnot": "not",
}
EXPECT = {"IntAdd": {"add"}, "IntSub": {"sub"}, "IntMult": {"mul"}, "IntLeft": {"shl", "mul"}, "Piece": {"piece"}}
ARITH = {"add", "sub", "mul", "shl", "piece"}
MODFILES = ("abstract_domain/interval.rs", "abstract_domain/interval/simple_interval.rs", "abstract_domain/interval/bin_ops.rs")


def is_call(t, name=None):
    return isinstance(t, tuple) and t and t[0] == "call" and (name is None or t[1] == name or (not isinstance(name, str) and t[1] in name))


def sub(t):
    return list(S.subterms(t))


def corner(t):
    """'L.start' / 'L.end' / 'R.start' / 'R.end' for a bound of the receiver (L) / the other operand (R), through `.interval`."""
    t = S.value(t)
    if not (isinstance(t, tuple) and t[0] == "field" and t[2] in ("start", "end")):
        return None
    b = t[1]
    if isinstance(b, tuple) and b[0] == "field" and b[2] == "interval":
        b = b[1]
    if isinstance(b, tuple) and b[0] == "var":
        return ("L" if b[1] == "self" else "R") + "." + t[2]
    return None


def run(run):
    F = run.facts()
    run.explanation = (
        "Structural analysis of the interval transfer functions on normalised THIR terms: resolved call graph from each dispatch arm down to the bit-vector primitives; "
        "path-condition literal sets of every constant fold / truncated-bounds result; corner provenance of every constructed bound against the monotonicity table of the "
        "primitive (add: (+,+), sub: (+,-), mul: min/max over the four corner products); overflow-flag coverage; hint/bound crossing under negation; width arguments of every "
        "Top result; stride provenance of results built from non-injective primitives. Does NOT decide that the computed bounds contain every concrete result.")
    for rid, text in (("R1", "each modelled BinOpType reaches the primitives of its mnemonic"), ("R2", "generic arm: fold only single values, else Top of the result width"),
                      ("R3", "corner pairing by monotonicity; overflow flags tested"), ("R4", "negation crosses bounds and hints; guarded against MIN"),
                      ("R5", "un_op table"), ("R6", "cast table"), ("R7", "subpiece composition and guards"), ("R8", "singleton results of non-injective primitives get stride 0")):
        run.rule(rid, text)

    sym = lambda fn: S.Sym(F).term(fn["body"])
    binop = F.fn("bin_op", adt="IntervalDomain", trait="RegisterDomain")
    unop = F.fn("un_op", adt="IntervalDomain", trait="RegisterDomain")
    cast = F.fn("cast", adt="IntervalDomain", trait="RegisterDomain")
    subpiece = F.fn("subpiece", adt="IntervalDomain", trait="RegisterDomain")
    I = lambda name: F.fn(name, adt="Interval", file="simple_interval.rs")

    # ------------------------------------------------------------------ call graph to primitives
    def callee_fn(c):
        for key in (c.get("r"), c.get("f")):
            if key and key in F.by_path:
                f = F.by_path[key]
                if any(F.file_of(f).endswith(m) for m in MODFILES):
                    return f
        return None

    def kinds_reached(fn, seen=None):
        seen = seen if seen is not None else set()
        if fn["path"] in seen:
            return set()
        seen.add(fn["path"])
        out = set()
        for n in T.walk_fn(F, fn):
            if not T.is_call(n):
                continue
            nm = n.get("n")
            if nm in PRIM_KIND:
                out.add(PRIM_KIND[nm])
            elif nm == "bin_op" and n.get("tr", "").endswith("BitvectorExtended"):
                a = T.peel(n["a"][1]) if len(n.get("a", [])) > 1 else {}
                out.add("piece" if a.get("k") == "Adt" and a.get("v") == "Piece" else "generic-fold")
            else:
                g = callee_fn(n)
                if g is not None:
                    out |= kinds_reached(g, seen)
        return out

    def arm_of(fn, variant):
        ms = T.find_matches(fn["body"], adt_suffix=None) if False else [m for m in T.walk(fn["body"]) if m.get("k") == "Match"]
        for m in ms:
            for arm in m["arms"]:
                if variant in T.pat_variant_names(arm["p"]):
                    return m, arm
        raise T.AnchorMissing("no match arm for %s in %s" % (variant, fn["path"]))

    def r1():
        for op, want in EXPECT.items():
            m, arm = arm_of(binop, op)
            calls = [n for n in T.walk(arm["b"]) if T.is_call(n) and callee_fn(n) is not None]
            site = F.loc(arm["b"])
            if len(T.pat_variant_names(arm["p"])) > 1:
                run.violated("R1", "%s|own-arm" % op, "%s shares its arm with %s: it has no precise handler of its own but is listed as modelled" % (op, T.pat_variant_names(arm["p"])[:4]), site) if False else run.undecided("R1", "%s|own-arm" % op, "%s shares an arm with other operations" % op, site)
                continue
            got = set()
            for c in calls:
                got |= kinds_reached(callee_fn(c))
            got &= ARITH
            others = [o for o, w in EXPECT.items() if o != op and w == got]
            if got == want:
                run.holds("R1", "%s|primitives" % op, "reaches %s" % sorted(got), site)
            elif others:
                run.violated("R1", "%s|primitives" % op, "the arm for %s reaches the bit-vector primitives %s, which is the primitive set of %s: swapped handler" % (op, sorted(got), others[0]), site)
            else:
                run.undecided("R1", "%s|primitives" % op, "reaches %s, expected %s" % (sorted(got), sorted(want)), site)
        # Add/Sub/Neg operator impls delegate to the right op
        for tr, want in (("Add", "IntAdd"), ("Sub", "IntSub")):
            fns = [f for f in F.find_fns(name=tr.lower(), adt="IntervalDomain") if (f.get("impl_trait") or "").endswith("ops::" + tr) or (f.get("impl_trait") or "").endswith("::" + tr)]
            for f in fns:
                ops = [x for x in sub(sym(f)) if isinstance(x, tuple) and x[0] == "adt" and x[1].endswith("BinOpType")]
                if ops:
                    run.check("R1", "operator|%s" % tr, all(o[2] == want for o in ops), "`impl %s for IntervalDomain` evaluates %s instead of %s" % (tr, [o[2] for o in ops], want), F.loc(f["body"]))

    run.guarded("R1", r1)

    # ------------------------------------------------------------------ R2 generic arm
    def r2():
        m, arm = arm_of(binop, "IntEqual")
        names = T.pat_variant_names(arm["p"])
        site = F.loc(arm["b"])
        bo = F.adt("intermediate_representation::expression::BinOpType") if False else None
        t = S.Sym(F).term(arm["b"])
        S1 = ("eq(self.interval.end, self.interval.start)", True)
        S2 = ("eq(rhs.interval.end, rhs.interval.start)", True)
        folds = C.conds_to(t, lambda x: is_call(x, "bin_op") and "BitvectorExtended" in x[3])
        # only folds whose value is used as a result (not the scrutinee of the if-let) matter; both share the conditions anyway
        if not folds:
            run.undecided("R2", "fold|present", "no constant fold found in the generic arm", site)
        seen = set()
        for f, conds in folds:
            alts, opaque = C.path_dnf(conds)
            other = ([q["p"]["n"] for q in binop["params"] if q.get("p", {}).get("k") == "Bind" and q["p"]["n"] not in ("self", "op")] + ["rhs"])[0]
            norm = lambda L: {(a.replace(other + ".", "rhs."), v) for a, v in L}
            alts = [norm(L) for L in alts]
            key = "fold|both-single-values"
            if key in seen:
                continue
            seen.add(key)
            weak = [L for L in alts if not (S1 in L and S2 in L)]
            if not weak and not opaque:
                run.holds("R2", key, "", site)
            elif not weak:
                run.holds("R2", key, "additional unrecognised conditions", site)
            elif not opaque and all(a.startswith("eq(") or a.startswith("is_none") for L in weak for a, _ in L):
                run.violated("R2", key, "the generic arm folds `self.start op rhs.start` already under %s: for an operand with more than one value the result is a single value that misses the results of the other members" % (sorted(weak[0]) or "no condition"), site)
            else:
                run.undecided("R2", key, "fold under unrecognised conditions %s" % [sorted(L) for L in weak][:2], site)
            a0, a1, a2 = f[2][0], f[2][1], f[2][2]
            c0, c2 = corner(a0), corner(a2)
            if c0 and c2:
                run.check("R2", "fold|operand-order", c0.startswith("L.") and c2.startswith("R."), "the fold evaluates `%s`: operands swapped (wrong for every non-commutative operation in the arm)" % fmt(f)[:100], site)
            else:
                run.undecided("R2", "fold|operand-order", "operands %s / %s" % (fmt(a0), fmt(a2)), site)
            if a1[0] == "var":
                run.holds("R2", "fold|same-op", "", site)
            elif a1[0] == "adt":
                run.violated("R2", "fold|same-op", "the fold evaluates the fixed operation %s for all %d operations of the arm" % (a1[2], len(names)), site)
            else:
                run.undecided("R2", "fold|same-op", fmt(a1), site)
        tops = [x for x in sub(t) if is_call(x, "new_top")]
        run.floor("R2 Top results in the generic arm", len(tops), 1)
        for i, x in enumerate(tops):
            a = S.value(x[2][0])
            key = "top-width|%d" % i
            if is_call(a, "bin_op_bytesize") and a[2][1][0] == "var":
                run.holds("R2", key, "", site)
            elif is_call(a, "bytesize") and len(names) > 1 and any(n in names for n in ("IntEqual", "IntLess", "IntCarry")):
                run.violated("R2", key, "Top of the OPERAND width `%s` for an arm that contains comparison/flag operations whose result is one byte wide: ill-sized result" % fmt(a), site)
            else:
                run.undecided("R2", key, "Top width %s" % fmt(a), site)

    run.guarded("R2", r2)

    # ------------------------------------------------------------------ R3 corners
    def interval_lits(t):
        return [x for x in sub(t) if isinstance(x, tuple) and x and x[0] == "adt" and x[1].endswith("simple_interval::Interval") and x[1].split("::")[-1] == "Interval"]

    def minmax_kind(helper_name):
        try:
            fn = F.fn(helper_name, file="simple_interval.rs")
        except T.AnchorMissing:
            return None
        t = S.value(sym(fn))
        if t[0] != "ite":
            return None
        c = t[1]
        while is_call(c, "unwrap"):
            c = c[2][0]
        if not is_call(c) or len(c[2]) != 2:
            return None
        p0 = [p.get("p", {}).get("n") for p in fn["params"]] if False else None
        a, b = fmt(c[2][0]), fmt(c[2][1])
        th, el = fmt(S.value(t[2])), fmt(S.value(t[3]))
        lt = c[1] in ("checked_sle", "checked_slt", "le", "lt")
        gt = c[1] in ("checked_sge", "checked_sgt", "ge", "gt")
        if not (lt or gt) or {th, el} != {a, b}:
            return None
        first = th == a
        return "min" if (lt and first) or (gt and not first) else "max"

    def r3():
        for name, second in (("add", "+"), ("sub", "-")):
            fn = I(name)
            t = sym(fn)
            site = F.loc(fn["body"])
            lits = interval_lits(t)
            if not lits:
                run.undecided("R3", "%s|shape" % name, "no Interval literal", site)
                continue
            for lit in lits:
                fs = dict(lit[3])
                for fld in ("start", "end"):
                    v = fs.get(fld)
                    prims = [x for x in sub(v) if is_call(x) and PRIM_KIND.get(x[1]) in ("add", "sub")] + [x for x in sub(v) if isinstance(x, tuple) and x[0] == "bin" and x[1] in ("Add", "Sub")]
                    key = "%s|%s" % (name, fld)
                    if len(prims) != 1 or prims[0][0] != "call":
                        if any(x[0] == "bin" for x in prims) or any(x[1].startswith("into_wrapping") for x in prims if x[0] == "call"):
                            run.violated("R3", key, "bound `%s` of Interval::%s is computed with unchecked/wrapping arithmetic `%s`: on overflow start > end" % (fld, name, fmt(v)[:80]), site)
                        else:
                            run.undecided("R3", key, "bound computed as %s" % fmt(v)[:100], site)
                        continue
                    p = prims[0]
                    a, b = corner(p[2][0]), corner(p[2][1])
                    want = ("L." + fld, "R." + (fld if second == "+" else ("end" if fld == "start" else "start")))
                    if a is None or b is None:
                        run.undecided("R3", key, "operands %s" % fmt(p)[:100], site)
                    elif PRIM_KIND[p[1]] != name:
                        run.violated("R3", key, "Interval::%s computes its %s with `%s`" % (name, fld, p[1]), site)
                    elif not p[1].startswith("signed_"):
                        run.violated("R3", key, "Interval::%s computes its %s with `%s`, which does not detect signed overflow: the bounds wrap around (start > end)" % (name, fld, p[1]), site)
                    else:
                        run.check("R3", key, (a, b) == want, "Interval::%s: %s = %s(%s, %s); %s is %s in its second operand, so the %s bound pairs %s with %s" % (name, fld, p[1], a, b, "addition" if second == "+" else "subtraction", "increasing" if second == "+" else "decreasing", "lower" if fld == "start" else "upper", want[0], want[1]), site)
            tops = [x for x in sub(t) if is_call(x, "new_top")]
            run.check("R3", "%s|overflow-gives-top" % name, len(tops) >= 1, "Interval::%s has no Top fallback for overflowing bounds" % name, site)
        # multiplication
        fn = I("signed_mul")
        t = sym(fn)
        site = F.loc(fn["body"])
        lits = interval_lits(t)
        prods_all = {fmt(x): x for x in sub(t) if is_call(x, "signed_mult_with_overflow_flag")}
        def leaves(t, conds=()):
            """alternatives of a value: descends if-then-else and pushes tuple projections through them"""
            t = S.value(t)
            if t[0] == "ite":
                return leaves(t[2], conds + ((t[1], True),)) + leaves(t[3], conds + ((t[1], False),))
            if t[0] == "field" and isinstance(t[2], str) and t[2].isdigit():
                out = []
                for c2, b in leaves(t[1], conds):
                    if b[0] == "tuple" and int(t[2]) < len(b[1]):
                        out.extend(leaves(b[1][int(t[2])], c2))
                    else:
                        out.append((c2, ("field", b, t[2])))
                return out
            return [(conds, t)]

        for lit in lits:
            fs = dict(lit[3])
            used = {}
            for fld, wantk in (("start", "min"), ("end", "max")):
                alts = leaves(fs.get(fld))
                for ai, (conds, v) in enumerate(alts):
                    sfx = "" if len(alts) == 1 else "|alt%d" % ai
                    lits_, opaque = C.path_literals(list(conds))
                    single_rhs = any(a.startswith("eq(") and a.count(".start") == 1 and a.count(".end") == 1 and "self" not in a and val for a, val in lits_)
                    single_lhs = any(a.startswith("eq(self.") and "self.end" in a and "self.start" in a and val for a, val in lits_)
                    other_conds = [a for a, val in lits_ if not (a.startswith("eq(") and ".start" in a and ".end" in a)]
                    prods = {fmt(x): x for x in sub(v) if is_call(x, "signed_mult_with_overflow_flag")}
                    used.update(prods)
                    pairs = {(corner(x[2][0]), corner(x[2][1])) for x in prods.values()}
                    want = {("L.start", "R.start"), ("L.start", "R.end"), ("L.end", "R.start"), ("L.end", "R.end")}
                    key = "signed_mul|%s%s" % (fld, sfx)
                    if None in {c for p in pairs for c in p} or not pairs:
                        run.undecided("R3", key + "|corners", "products %s" % sorted(prods)[:2], site)
                        continue
                    norm = {(a, b) if a.startswith("L.") else (b, a) for a, b in pairs}
                    fix = lambda c: ("R.start" if single_rhs and c == "R.end" else "L.start" if single_lhs and c == "L.end" else c)
                    norm = {(fix(a), fix(b)) for a, b in norm}
                    want_n = {(fix(a), fix(b)) for a, b in want}
                    if norm == want_n:
                        run.holds("R3", key + "|corners", "", site)
                    elif opaque or other_conds:
                        run.undecided("R3", key + "|corners", "corner products %s under conditions %s" % (sorted(norm), sorted(other_conds)[:3]), site)
                    else:
                        run.violated("R3", key + "|corners", "the %s bound of the product is taken from the corner products %s only (conditions: %s); missing %s: which corner is extreme depends on the SIGNS of the factors (a negative constant factor reverses the order), which nothing on this path tests" % (fld, sorted(norm), sorted(a for a, _ in lits_) or "none", sorted(want_n - norm)), site)
                        continue
                    helpers = {x[1] for x in sub(v) if is_call(x) and x[1] not in ("signed_mult_with_overflow_flag", "unwrap") and len(x[2]) == 2}
                    kinds = {h: minmax_kind(h) for h in helpers}
                    if len(norm) == 1:
                        run.holds("R3", key + "|fold", "single corner", site)
                    elif len(helpers) == 1 and None not in kinds.values():
                        k = list(kinds.values())[0]
                        run.check("R3", key + "|fold", k == wantk, "the %s bound of the product is the %s of the corner products (helper `%s` computes a %s)" % (fld, k, list(helpers)[0], k), site)
                    else:
                        run.undecided("R3", key + "|fold", "fold helpers %s" % kinds, site)
            # overflow flags
            flags = C.conds_to(t, lambda x: isinstance(x, tuple) and x[0] == "ite" and C.diverges(x[2]) and any(is_call(y, "new_top") for y in sub(x[2])))
            tested = set()
            for ite, _ in flags:
                for y in sub(ite[1]):
                    if isinstance(y, tuple) and y[0] == "field" and y[2] == "1" and any(is_call(z, "signed_mult_with_overflow_flag") for z in sub(y[1])):
                        tested |= {fmt(z) for z in sub(y[1]) if is_call(z, "signed_mult_with_overflow_flag")}
            missing = sorted(set(used) - tested)
            run.check("R3", "signed_mul|overflow-flags", not missing, "corner product(s) %s reach the bounds but their overflow flag is not tested before: a wrapped product becomes a bound" % [m[:70] for m in missing], site)

    run.guarded("R3", r3)

    # ------------------------------------------------------------------ R4 negation
    def r4():
        fn = I("int_2_comp")
        t = sym(fn)
        site = F.loc(fn["body"])
        found = C.conds_to(t, lambda x: x in interval_lits(t))
        for lit, conds in found:
            fs = dict(lit[3])
            s, e = S.value(fs["start"]), S.value(fs["end"])
            unneg = lambda q: ("neg", q[2][0]) if is_call(q, "neg") and len(q[2]) == 1 else q
            s, e = unneg(s), unneg(e)
            if s[0] == "neg" and e[0] == "neg" and corner(s[1]) and corner(e[1]):
                run.check("R4", "int_2_comp|crossed", corner(s[1]) == "L.end" and corner(e[1]) == "L.start", "negation reverses the order: start must be -end and end -start; found start=%s end=%s" % (fmt(s), fmt(e)), site)
            else:
                run.undecided("R4", "int_2_comp|crossed", "start=%s end=%s" % (fmt(s), fmt(e)), site)
            lits_, opaque = C.path_literals(conds)
            guard = any("signed_min_value" in a and "self.start" in a for a, v in lits_)
            if guard:
                run.holds("R4", "int_2_comp|min-guard", "", site)
            elif not conds:
                run.violated("R4", "int_2_comp|min-guard", "the negated interval is built unconditionally: -MIN == MIN, so an interval that contains the signed minimum gets start > end", site)
            else:
                run.undecided("R4", "int_2_comp|min-guard", "guard %s" % sorted(lits_), site)
        # hints in un_op
        m, arm = arm_of(unop, "Int2Comp")
        t = S.Sym(F).term(arm["b"])
        dl = [x for x in sub(t) if isinstance(x, tuple) and x[0] == "adt" and x[1].endswith("IntervalDomain")]
        site = F.loc(arm["b"])
        for lit in dl:
            fs = dict(lit[3])

            def prov(v):
                out = set()
                for y in sub(v):
                    if isinstance(y, tuple) and y[0] == "field" and y[2] in ("widening_lower_bound", "widening_upper_bound"):
                        out.add(y[2])
                    if isinstance(y, tuple) and y[0] == "var":
                        # mutated local: look at its assignments in the arm
                        for z in sub(t):
                            if isinstance(z, tuple) and z[0] == "assign" and fmt(z[1]) == fmt(y):
                                out |= {w[2] for w in sub(z[2]) if isinstance(w, tuple) and w[0] == "field" and w[2] in ("widening_lower_bound", "widening_upper_bound")}
                                # assignment under a condition on a hint
                        for z, conds in C.conds_to(t, lambda q: isinstance(q, tuple) and q[0] == "assign" and fmt(q[1]) == fmt(y)):
                            for c, _ in conds:
                                out |= {w[2] for w in sub(c) if isinstance(w, tuple) and w[0] == "field" and w[2] in ("widening_lower_bound", "widening_upper_bound")}
                return out
            for fld, want in (("widening_lower_bound", "widening_upper_bound"), ("widening_upper_bound", "widening_lower_bound")):
                p = prov(fs.get(fld))
                key = "un_op|Int2Comp|%s" % fld
                if p == {want}:
                    run.holds("R4", key, "", site)
                elif p == {fld}:
                    run.violated("R4", key, "the new %s of -x is derived from the old %s: negation turns the upper hint into the lower one and vice versa" % (fld, fld), site)
                elif not p and S.value(fs.get(fld))[0] == "adt":
                    run.holds("R4", key, "hint dropped", site)
                else:
                    run.undecided("R4", key, "provenance %s" % sorted(p), site)

    run.guarded("R4", r4)

    # ------------------------------------------------------------------ R5 un_op table
    def r5():
        site = F.loc(unop["body"])
        for v in ("FloatAbs", "FloatCeil", "FloatFloor", "FloatNegate", "FloatRound", "FloatSqrt", "FloatNaN"):
            m, arm = arm_of(unop, v)
            t = S.value(S.Sym(F).term(arm["b"]))
            key = "un_op|%s|top-width" % v
            if is_call(t, "new_top"):
                a = S.value(t[2][0])
                one = is_call(a, "new") and a[2] and fmt(a[2][0]) in ("1", "'1'")
                opw = is_call(a, "bytesize") and fmt(a[2][0]) in ("self", "&self")
                if v == "FloatNaN":
                    (run.holds if one else run.violated if opw else run.undecided)("R5", key, "FloatNaN yields a one-byte flag; Top of %s" % fmt(a), F.loc(arm["b"]))
                else:
                    (run.holds if opw else run.violated if one else run.undecided)("R5", key, "%s keeps the operand width; Top of %s" % (v, fmt(a)), F.loc(arm["b"]))
            else:
                run.undecided("R5", key, "result %s" % fmt(t)[:80], F.loc(arm["b"]))
        m, arm = arm_of(unop, "BoolNegate")
        t = S.Sym(F).term(arm["b"])
        consts = C.conds_to(t, lambda x: is_call(x, ("one", "zero")) and True)
        results = C.conds_to(t, lambda x: is_call(x, "into") and x[2] and is_call(S.value(x[2][0]), ("one", "zero")))
        SINGLE = ("eq(self.interval.end, self.interval.start)", True)
        ok_single, pol = True, []
        for r, conds in results:
            lits, opaque = C.path_literals(conds)
            if SINGLE not in lits:
                ok_single = False if not opaque else None
            val = S.value(r[2][0])[1]
            z = [v for a, v in lits if a.startswith("eq(") and "zero(" in a and "self.interval.start" in a]
            if z:
                pol.append((val, z[0]))
        if results:
            (run.holds if ok_single else run.violated if ok_single is False else run.undecided)("R5", "un_op|BoolNegate|single-values-only", "BoolNegate yields a constant although the operand has more than one value", F.loc(arm["b"]))
            if pol:
                run.check("R5", "un_op|BoolNegate|polarity", all((v == "one") == is_zero for v, is_zero in pol), "BoolNegate: a zero operand must give one and a non-zero operand zero; found %s" % pol, F.loc(arm["b"]))
            else:
                run.undecided("R5", "un_op|BoolNegate|polarity", "no zero test recognised", F.loc(arm["b"]))
        else:
            run.undecided("R5", "un_op|BoolNegate|single-values-only", "shape", F.loc(arm["b"]))
        m, arm = arm_of(unop, "IntNegate")
        got = set()
        for c in T.walk(arm["b"]):
            if T.is_call(c) and callee_fn(c) is not None:
                got |= kinds_reached(callee_fn(c))
        (run.holds if "not" in got else run.undecided)("R5", "un_op|IntNegate|bitnot", "reaches %s" % sorted(got), F.loc(arm["b"]))
        bn = I("bitwise_not")
        t = sym(bn)
        res = C.conds_to(t, lambda x: is_call(x, "into_bitnot"))
        for r, conds in res:
            lits, opaque = C.path_literals(conds)
            ok = ("eq(self.end, self.start)", True) in lits
            (run.holds if ok else run.violated if not opaque and not lits else run.undecided)("R5", "bitwise_not|single-values-only", "bitwise not of the start is returned for an interval with several values", F.loc(bn["body"]))

    run.guarded("R5", r5)

    # ------------------------------------------------------------------ R6 cast table
    def r6():
        for v, want, bad in (("IntZExt", "zext", "sext"), ("IntSExt", "sext", "zext")):
            m, arm = arm_of(cast, v)
            got = set()
            wargs = []
            for c in T.walk(arm["b"]):
                if T.is_call(c) and callee_fn(c) is not None and c.get("n") not in ("bytesize", "clone"):
                    got |= kinds_reached(callee_fn(c))
                    wargs.append(c)
            got &= {"zext", "sext"}
            key = "cast|%s|extension" % v
            if got == {want}:
                run.holds("R6", key, "", F.loc(arm["b"]))
            elif got == {bad}:
                run.violated("R6", key, "%s reaches only the %s-extension primitive" % (v, "sign" if bad == "sext" else "zero"), F.loc(arm["b"]))
            else:
                run.undecided("R6", key, "reaches %s" % sorted(got), F.loc(arm["b"]))
            for c in wargs:
                if len(c["a"]) >= 2:
                    a = T.peel(c["a"][-1])
                    run.check("R6", "cast|%s|target-width" % v, a.get("k") in ("Var", "Upvar") and a.get("n") == "width", "the extension is asked for `%s` instead of the target width" % T.show(a)[:60], F.loc(c))
        m, arm = arm_of(cast, "Trunc")
        t = S.value(S.Sym(F).term(arm["b"]))
        key = "cast|float-and-trunc|top-of-target-width"
        if is_call(t, "new_top"):
            a = S.value(t[2][0])
            (run.holds if a[0] == "var" and a[1] == "width" else run.violated if is_call(a, "bytesize") else run.undecided)("R6", key, "Float2Float/Int2Float/Trunc change the width: Top must have the target width, found %s" % fmt(a), F.loc(arm["b"]))
        else:
            run.undecided("R6", key, fmt(t)[:80], F.loc(arm["b"]))
        for v in ("PopCount", "LzCount"):
            m, arm = arm_of(cast, v)
            t = S.Sym(F).term(arm["b"])
            news = [x for x in sub(t) if is_call(x, "new") and x[3].endswith("IntervalDomain::new")]
            run.floor("R6 %s interval results" % v, len(news), 1)
            for i, x in enumerate(news):
                widths = []
                for b in x[2]:
                    b = S.value(b)
                    if is_call(b, ("into_zero_resize", "into_resize_unsigned", "into_zero_extend")):
                        widths.append(fmt(S.value(b[2][1])))
                    elif is_call(b, ("zero", "one")):
                        w = S.value(b[2][0])
                        widths.append(fmt(w[2][0]) if is_call(w, "into") else fmt(w))
                    else:
                        widths.append("?" + fmt(b)[:40])
                key = "cast|%s|result-width|%d" % (v, i)
                if all(w == "width" for w in widths):
                    run.holds("R6", key, "", F.loc(arm["b"]))
                elif any("bytesize(self)" in w for w in widths):
                    run.violated("R6", key, "a bound of the %s result is built at the operand width (%s) instead of the target width" % (v, widths), F.loc(arm["b"]))
                else:
                    run.undecided("R6", key, "widths %s" % widths, F.loc(arm["b"]))

    run.guarded("R6", r6)

    # ------------------------------------------------------------------ R7 subpiece
    def r7():
        for fn, who in ((subpiece, "IntervalDomain::subpiece"), (I("subpiece"), "Interval::subpiece")):
            hi = [c for c in T.walk_fn(F, fn) if T.is_call(c, "subpiece_higher")]
            lo = [c for c in T.walk_fn(F, fn) if T.is_call(c, "subpiece_lower")]
            site = F.loc(fn["body"])
            run.check("R7", "%s|both-steps" % who, bool(hi) and bool(lo), "%s must cut the lower bytes (subpiece_higher) and the higher bytes (subpiece_lower)" % who, site)
            for c, want in [(x, "low_byte") for x in hi] + [(x, "size") for x in lo]:
                a = T.peel(c["a"][1])
                nm = a.get("n") if a.get("k") in ("Var", "Upvar") else None
                key = "%s|%s|argument" % (who, c["n"])
                if nm == want:
                    run.holds("R7", key, "", F.loc(c))
                elif nm in ("low_byte", "size"):
                    run.violated("R7", key, "%s is called with `%s` instead of `%s` (both are ByteSize)" % (c["n"], nm, want), F.loc(c))
                else:
                    run.undecided("R7", key, T.show(a)[:60], F.loc(c))
            if hi and lo:
                run.check("R7", "%s|order" % who, hi[0]["sp"][1:3] < lo[0]["sp"][1:3], "the low bytes must be removed before the result is truncated to `size` (size counts bytes of the shifted value)", site)
        fn = I("subpiece_lower")
        t = sym(fn)
        site = F.loc(fn["body"])
        found = C.conds_to(t, lambda x: isinstance(x, tuple) and x and x[0] == "adt" and x[1].endswith("simple_interval::Interval"))
        for lit, conds in found:
            lits, opaque = C.path_literals(conds)
            atoms = {a for a, v in lits if v}
            g_len = any(a.startswith("checked_ule(") and "sub(self.end, self.start)" in a and "unsigned_max_value" in a for a in atoms)
            g_ord = any(a.startswith("checked_sle(") and a.count("into_truncate") == 2 for a in atoms)
            for key, ok, what in (("subpiece_lower|length-guard", g_len, "the interval is not longer than the truncated value range (otherwise truncation is not injective on it)"),
                                  ("subpiece_lower|order-guard", g_ord, "the truncated start is <= the truncated end (otherwise the truncated interval wraps around)")):
                if ok:
                    run.holds("R7", key, "", site)
                elif not opaque and all(a.startswith("checked_") for a in atoms):
                    run.violated("R7", key, "the truncated bounds are returned without testing that %s; conditions on the path: %s" % (what, sorted(atoms) or "none"), site)
                else:
                    run.undecided("R7", key, "conditions %s" % sorted(atoms), site)
            fs = dict(lit[3])
            for fld in ("start", "end"):
                v = S.value(fs[fld])
                while is_call(v, "unwrap"):
                    v = S.value(v[2][0])
                if is_call(v, "into_truncate"):
                    run.check("R7", "subpiece_lower|%s" % fld, corner(v[2][0]) == "L." + fld and fmt(S.value(v[2][1])) == "size", "%s of the truncated interval is %s" % (fld, fmt(v)), site)
        tops = [x for x in sub(t) if is_call(x, "new_top")]
        for i, x in enumerate(tops):
            a = S.value(x[2][0])
            (run.holds if a[0] == "var" and a[1] == "size" else run.violated if is_call(a, "bytesize") else run.undecided)("R7", "subpiece_lower|top-width|%d" % i, "the fallback must be Top of the target size, found %s" % fmt(a), site)

    run.guarded("R7", r7)

    # ------------------------------------------------------------------ R8 singleton stride
    def r8():
        NONINJ = ("signed_mult_with_overflow_flag", "into_checked_mul", "into_wrapping_mul")
        n = 0
        for fn in [f for f in F.raw["fns"] if f.get("dk") in ("Fn", "AssocFn") and not f.get("expn") and any(F.file_of(f).endswith(m) for m in MODFILES)]:
            t = sym(fn)
            for lit, conds in C.conds_to(t, lambda x: isinstance(x, tuple) and x and x[0] == "adt" and x[1].endswith("simple_interval::Interval") and x[2] in ("Interval", "")):
                fs = dict(lit[3])
                if "stride" not in fs or "start" not in fs:
                    continue
                noninj = [x for fld in ("start", "end") for x in sub(fs[fld]) if is_call(x, NONINJ)]
                if not noninj:
                    continue
                n += 1
                st = fs["stride"]
                key = "%s|stride-of-collapsing-product" % fn["name"]
                site = F.loc(fn["body"])
                mentions_operand_stride = any(isinstance(y, tuple) and y[0] == "field" and y[2] == "stride" for y in sub(st))
                tests_singleton = any(isinstance(y, tuple) and y[0] == "ite" and is_call(y[1], ("eq", "ne")) for y in sub(st)) or any(a.startswith("eq(") for a, v in C.path_literals(conds)[0])
                if tests_singleton:
                    run.holds("R8", key, "", site)
                elif mentions_operand_stride:
                    run.violated("R8", key, "the bounds of this result are corner products (a zero factor collapses them to a single value) but its stride `%s` is taken from the operand strides without a start==end test: e.g. {2,4} (stride 2) * {0} gives the single value 0 with stride 2, violating 'stride 0 exactly for singletons'" % fmt(st)[:60], site)
                else:
                    run.undecided("R8", key, "stride %s" % fmt(st)[:60], site)
        run.floor("R8 results built from non-injective primitives", n, 1)

    run.guarded("R8", r8)


_run_r1_r8 = run


def run(run):  # noqa: F811
    _run_r1_r8(run)
    F = run.facts()
    run.rule("R9", "signed multiplication overflow detection handles -1 * MIN (division-back idiom)")

    def r9():
        fn = F.fn("signed_mult_with_overflow_flag", file="intermediate_representation/bitvector.rs", trait="BitvectorExtended")
        t = S.Sym(F).term(fn["body"])
        site = F.loc(fn["body"])
        MUL = ("into_checked_mul", "into_wrapping_mul", "checked_mul_assign", "mul")
        DIV = ("into_checked_sdiv", "into_wrapping_sdiv", "checked_sdiv_assign")
        backs = []
        for x in sub(t):
            if is_call(x, ("ne", "eq")) and len(x[2]) == 2:
                for a in x[2]:
                    divs = [d for d in sub(a) if is_call(d, DIV)]
                    if divs and any(is_call(m, MUL) for d in divs for m in sub(d[2][0])):
                        backs.append(x)
        if not backs:
            run.holds("R9", "signed_mult_with_overflow_flag|division-back", "overflow is not detected by dividing the product back (no such idiom found)", site)
            return
        # the idiom `(a * b) / a != b` misses a = -1, b = MIN: the product wraps to MIN and MIN / -1 wraps to MIN == b.
        guards = [x for x in sub(t) if is_call(x, ("signed_min_value", "is_signed_min", "is_min"))]
        wide = [x for x in sub(t) if is_call(x, ("into_sign_extend", "into_sign_resize", "try_to_i128", "try_to_i64"))]
        if guards or wide:
            run.holds("R9", "signed_mult_with_overflow_flag|division-back", "the -1 * MIN case is treated separately (%s)" % ("guard on the signed minimum" if guards else "wider arithmetic"), site)
        else:
            run.violated("R9", "signed_mult_with_overflow_flag|division-back", "overflow of a signed multiplication is detected only by `(self * rhs) sdiv self != rhs`; for self = -1 and rhs = MIN the product wraps to MIN and `MIN sdiv -1` wraps to MIN as well, so the flag stays false: "
                         "Interval::signed_mul then takes the wrapped corner product as a bound (e.g. 1-byte [-1,1] * [-128] = {-128}, which misses 0 * -128 = 0)", site)

    run.guarded("R9", r9)
