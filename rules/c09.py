"""C09 Basic normalisation establishes the IR invariants -- slot agreement and pass order.

 R1 block-target slots agree (sibling cross-check): the universe is derived from the
    definition of Jmp (every Tid / Option<Tid> field except Call.target) plus
    Blk.indirect_jmp_targets; every function that retargets / follows / re-suffixes block
    targets must treat exactly that universe
 R2 unique ids: remove_duplicate_tids records the tid of every term level in one set and
    drops / aborts on a duplicate; cloning re-suffixes block, def and jmp tids
 R3 pass order in normalize_basic: all five passes run unconditionally and the four
    necessary orderings hold (each with its reason in the rule table)
 R4 non-returning calls return to the artificial sink of the enclosing function, and the
    sink block is added when a call was retargeted
How: R1 by may-flow from each slot binding (also in helpers that hand the slot back) to an assignment through it; the
first-match analysis by specialisation per set of dangling slots.
 R1+ (added after seed C09c) the per-function block search starts from ALL blocks listed in the Sub
"""
from .lib import slots as SL
from .lib import sym as S
from .lib import thir as T
from .lib.sym import fmt


def is_call(t, name=None):
    return isinstance(t, tuple) and t and t[0] == "call" and (name is None or t[1] == name or (isinstance(name, (set, tuple, frozenset)) and t[1] in name))


def stmts_of(t):
    return list(t[1]) + [t[2]] if t[0] == "seq" else [t]


def run(run):
    F = run.facts()
    run.explanation = (
        "Static sibling cross-check of the passes that make up basic normalisation: the set of block-target slots is derived from the "
        "type definition of Jmp (fields of type Tid / Option<Tid>, minus the callee slot) and every pass that checks, follows or "
        "renames block targets is required to bind and use every slot of that set (pattern bindings resolved by the compiler, so "
        "or-patterns, field shorthand and renamed locals do not matter); the duplicate-tid pass is checked for one insertion per term "
        "level into the same set; pass order is decided on the statement sequence of normalize_basic. Decides slot agreement and order, "
        "not the joint behaviour on arbitrary irregular inputs.")
    run.rule("R1", "every pass over block targets covers every block-target slot of Jmp and Blk.indirect_jmp_targets")
    run.rule("R2", "duplicate-tid removal covers all five term levels; block cloning re-suffixes block, def and jmp tids")
    run.rule("R3", "normalize_basic runs all passes; dedup, sink creation and reference repair precede block duplication")
    run.rule("R4", "non-returning calls are retargeted to the enclosing function's sink and the sink block is added")

    tid_slots = sorted(set(SL.fields_of_type(F, "intermediate_representation::jmp::Jmp", SL.is_tid_ty)) - {("Call", "target")})
    run.floor("block-target slots of Jmp", len(tid_slots), 5)

    def walk_pat(p):
        yield p
        if isinstance(p.get("sub"), dict):
            yield from walk_pat(p["sub"])
        elif isinstance(p.get("sub"), list):
            for s_ in p["sub"]:
                yield from walk_pat(s_["p"] if "p" in s_ else s_)
        if isinstance(p.get("p"), dict):
            yield from walk_pat(p["p"])
        for q in p.get("ps", []):
            yield from walk_pat(q)

    def r1():
        group = [
            ("retarget_nonexisting_jump_targets_to_artificial_sink", F.fn("retarget_nonexisting_jump_targets_to_artificial_sink", mod="intermediate_representation::project"), "assigned"),
            ("get_intraprocedural_target_or_return_block_tid", F.fn("get_intraprocedural_target_or_return_block_tid", mod="block_duplication_normalization"), "used"),
            ("append_jump_targets_with_sub_suffix_when_target_block_was_duplicated", F.fn("append_jump_targets_with_sub_suffix_when_target_block_was_duplicated", mod="block_duplication_normalization"), "assigned"),
            ("propagate_control_flow::retarget_jumps", F.fn("retarget_jumps", mod="propagate_control_flow"), "assigned"),
        ]
        from .lib import mayflow as MF
        from .lib import peval as PE

        def local_callees(fn, depth=2, _seen=None):
            seen = _seen if _seen is not None else {fn["path"]}
            out = []
            for n in T.walk_fn(F, fn):
                if n.get("k") == "Call":
                    g = F.by_path.get(n.get("r") or "") or F.by_path.get(n.get("f") or "")
                    if g is not None and g.get("dk") in ("Fn", "AssocFn") and g["path"] not in seen and sum(1 for _ in T.walk(g["body"])) < 400:
                        seen.add(g["path"])
                        out.append(g)
                        if depth > 1:
                            out.extend(local_callees(g, depth - 1, seen))
            return out

        def slot_is_assigned(fn, v, f):
            """may a value bound from the slot (in fn or a helper it calls) be assigned through?"""
            mf = MF.MayFlow(F)
            mf.add(fn, set())
            nb = 0
            for g in [fn] + local_callees(fn):
                for b in SL.slot_bindings(F, g, "jmp::Jmp", v, f):
                    mf.add(g, {b[0]})
                    nb += 1
            if not nb:
                return False, "never bound"
            mf.solve()
            return bool(mf.assigned()), "bound but never assigned through"

        for label, fn, how in group:
            for (v, f) in tid_slots:
                if how == "used":
                    binds = SL.slot_bindings(F, fn, "jmp::Jmp", v, f)
                    ok, why = bool([b for b in binds if SL.uses(F, fn, b[0])]), ""
                else:
                    ok, why = slot_is_assigned(fn, v, f)
                # a binding of the whole Option and a nested Some(..) binding both count
                run.check("R1", "%s|Jmp::%s.%s" % (label, v, f), ok,
                          "%s does not %s the block target Jmp::%s.%s (%s), which the sibling passes treat as a block target: such a target is left dangling / not followed / not renamed" % (label, "rewrite" if how == "assigned" else "return", v, f, why), F.loc(fn["body"]))
        # the callee slot must be checked for existence too
        fn = group[0][1]
        binds = SL.slot_bindings(F, fn, "jmp::Jmp", "Call", "target")
        assigned = {T.root_var_id(n["l"]) for n in T.walk_fn(F, fn) if n.get("k") == "Assign"}
        run.check("R1", "retarget_nonexisting|Jmp::Call.target", any(b[0] in assigned for b in binds), "calls to non-existing callees are not redirected to the artificial sink sub", F.loc(fn["body"]))
        # when several slots of one jump dangle, whatever code runs first must repair all of them (match arms are first-match):
        # decided per variant and per set of dangling slots by specialising the function
        jmp_adt = F.adt("intermediate_representation::jmp::Jmp")
        import itertools
        all_tid = SL.fields_of_type(F, "intermediate_representation::jmp::Jmp", SL.is_tid_ty)
        for v in F.variants(jmp_adt):
            vslots = [f for (vv, f) in all_tid if vv == v]
            if len(vslots) < 2:
                continue
            bind = {}
            for f in vslots:
                for b in SL.slot_bindings(F, fn, "jmp::Jmp", v, f):
                    bind[b[0]] = f
            for k in range(1, len(vslots) + 1):
                for D in itertools.combinations(vslots, k):
                    Dset = set(D)
                    hits = {"scr": 0, "contains": 0}

                    def assume(n, Dset=Dset, hits=hits):
                        kk = n.get("k")
                        ty = (F.ty(n) or "").replace("&", "").replace("mut ", "").strip()
                        if ty.endswith("jmp::Jmp") and kk in ("Field", "Deref", "Borrow"):
                            hits["scr"] += 1
                            return ("enum", v)
                        if kk == "Call" and n.get("n") in ("contains", "contains_key") and len(n.get("a", [])) == 2:
                            r = T.root_var_id(n["a"][1])
                            if r in bind:
                                hits["contains"] += 1
                                return ("bool", bind[r] not in Dset)
                        return None
                    nodes = PE.Spec(F, assume=assume).reach(fn["body"], {})
                    fixes = set()
                    for y in nodes:
                        if y.get("k") == "Assign":
                            r = T.root_var_id(y["l"])
                            if r in bind:
                                fixes.add(bind[r])
                    key = "retarget_nonexisting|%s|dangling:%s" % (v, "+".join(D))
                    if not hits["scr"] or not hits["contains"]:
                        run.undecided("R1", key, "no existence test of the slots of Jmp::%s recognised" % v, F.loc(fn["body"]))
                    else:
                        run.check("R1", key, Dset <= fixes, "for a Jmp::%s whose %s do not exist only %s are repaired: the other reference stays dangling (match arms are first-match; order matters)" % (v, list(D), sorted(fixes)), F.loc(fn["body"]))
        f_all = F.fn("find_all_jump_targets", adt="Project")
        t = S.Sym(F).term(f_all["body"])
        ins = [x for x in S.subterms(t) if is_call(x, "insert")]
        srcs = set()
        for x in ins:
            a = x[2][1]
            s = fmt(a)
            if "extern_symbols" in s:
                srcs.add("extern")
            elif "blocks" in s:
                srcs.add("block")
            elif "subs" in s:
                srcs.add("sub")
        run.check("R1", "find_all_jump_targets|subs-blocks-externs", srcs == {"extern", "block", "sub"}, "the set of existing targets must contain all subs, all blocks and all extern symbols; found %s" % sorted(srcs), F.loc(f_all["body"]))
        # indirect jump targets
        for label, fn in (("remove_nonexisting_indirect_jump_targets", F.fn("remove_nonexisting_indirect_jump_targets", adt="Term")),
                          ("generate_sub_tid_to_contained_block_tids_map", F.fn("generate_sub_tid_to_contained_block_tids_map", adt="Project")),
                          ("append_jump_targets_with_sub_suffix_when_target_block_was_duplicated", group[2][1])):
            hit = any(n.get("k") == "Field" and n.get("fn") == "indirect_jmp_targets" for n in T.walk_deep(F, fn["body"], 2)) or any(
                isinstance(q.get("sub"), list) and any(s_.get("f") == "indirect_jmp_targets" and T.pat_peel(s_["p"]).get("k") != "Wild" for s_ in q["sub"])
                for pat, scrut, owner in SL.fn_patterns(F, fn) for q in walk_pat(pat))
            run.check("R1", "%s|Blk.indirect_jmp_targets" % label, hit, "%s ignores Blk.indirect_jmp_targets, which the sibling passes treat as block targets" % label, F.loc(fn["body"]))
        # the block set of a function is the closure of ALL blocks listed in the Sub (a block that is not reachable from the
        # entry block can still jump into another function's block, which must then be duplicated too)
        from .lib import bindsrc as B
        from .lib import iterctx as IC
        f_map = F.fn("generate_sub_tid_to_contained_block_tids_map", adt="Project")
        pops = [x for x in T.walk_fn(F, f_map) if T.is_call(x, ("pop", "pop_front", "pop_back", "pop_last")) and x.get("a")]
        key = "generate_sub_tid_to_contained_block_tids_map|search-starts-from-all-blocks"
        if not pops:
            run.undecided("R1", key, "no worklist found", F.loc(f_map["body"]))
        else:
            wid = T.root_var_id(pops[0]["a"][0])
            src, how = B.binder(f_map["body"], wid)
            if src is None:
                run.undecided("R1", key, "initialisation of the worklist not found", F.loc(f_map["body"]))
            else:
                srcs = B.sources(F, B.bodies(F, f_map), src)
                reads_blocks = any(x.get("k") == "Field" and x.get("fn") == "blocks" for e_, h_ in srcs for x in B.walk_with_closures(F, e_))
                cut = [x["n"] for e_, h_ in srcs for x in B.walk_with_closures(F, e_) if T.is_call(x, IC.RESTRICT) or (x.get("k") == "Index") or T.is_call(x, ("index", "get"))]
                # blocks pushed onto an initially empty worklist in a loop over sub.term.blocks also count
                seeded_in_loop = any(T.is_call(x, ("push", "extend", "push_back")) and x.get("a") and T.root_var_id(x["a"][0]) == wid and any(y.get("k") == "Field" and y.get("fn") == "blocks" for c_ in IC.contexts(F, f_map, x) for y in T.walk(c_)) for x in T.walk_fn(F, f_map))
                if (reads_blocks and not cut) or seeded_in_loop:
                    run.holds("R1", key, "", F.loc(src))
                elif reads_blocks and cut:
                    run.violated("R1", key, "the search for the blocks of a function must start from every block listed in the Sub; it starts from a restricted selection (%s): a listed block that is not reachable from there is not followed, and a block of another function it jumps into is renamed but never duplicated" % cut, F.loc(src))
                else:
                    run.undecided("R1", key, "the worklist is not initialised from sub.term.blocks", F.loc(src))
        # remove_references_to_nonexisting_tids applies both repairs to every block / jump
        fn = F.fn("remove_references_to_nonexisting_tids", adt="Project")
        t = S.Sym(F).term(fn["body"])
        for callee in ("remove_nonexisting_indirect_jump_targets", "retarget_nonexisting_jump_targets_to_artificial_sink"):
            run.check("R1", "remove_references|calls|%s" % callee, any(T.is_call(x, callee) for x in T.walk_fn(F, fn)), "remove_references_to_nonexisting_tids no longer calls %s" % callee, F.loc(fn["body"]))
        exits = [n for n in T.walk(fn["body"]) if n.get("k") in ("Break", "Continue", "Return") and n.get("ds") != "ForLoop"]
        filt = [x for x in S.subterms(t) if is_call(x, ("filter", "take", "skip", "take_while", "skip_while", "step_by"))]
        run.check("R1", "remove_references|visits-everything", not exits and not filt, "the repair loops must visit every jump of every block of every sub", F.loc(fn["body"]))

    run.guarded("R1", r1)

    def r2():
        fn = F.fn("remove_duplicate_tids", adt="Project")
        levels = {}
        sy = S.Sym(F)
        env = {}
        sy.term(fn["body"], env)
        def level_of(expr):
            for y in T.walk(expr):
                if y.get("k") == "Field" and y.get("fn") == "tid":
                    ty = F.ty(T.peel(y["e"]))
                    return ty.split("<")[-1].rstrip(">").split("::")[-1] if "Term<" in ty else ty.split("::")[-1]
            return None
        # recording sites: a direct `set.insert(x.tid)` or a call of a local helper that inserts its tid parameter into a set
        # (the helper may also report the duplicate)
        recorders = {}
        for g in F.fns:
            if g.get("dk") not in ("Fn", "AssocFn") or g is fn:
                continue
            if not (g["path"].startswith(fn["path"]) or g.get("mod") == fn.get("mod")):
                continue
            pids = [[b[0] for b in T.pat_bindings(p_["p"])] if p_.get("p") else [] for p_ in g["params"]]
            for x in T.walk(g["body"]):
                if T.is_call(x, "insert") and "HashSet" in x["f"] and len(x["a"]) == 2:
                    ids = {y["id"] for y in T.walk(x["a"][1]) if y.get("k") in ("Var", "Upvar")}
                    sid = T.root_var_id(x["a"][0])
                    ti = [i for i, ps in enumerate(pids) if set(ps) & ids]
                    si = [i for i, ps in enumerate(pids) if sid in ps]
                    if ti:
                        recorders[g["path"]] = (ti[0], si[0] if si else None)
        sites = []   # (node, level, set name, kind)
        for n in T.walk_fn(F, fn):
            if T.is_call(n, "insert") and "HashSet" in n["f"] and len(n["a"]) == 2:
                lvl = level_of(n["a"][1])
                if lvl:
                    sites.append((n, lvl, T.show(n["a"][0]).replace("&mut ", "").replace("*", ""), "insert"))
            elif n.get("k") == "Call" and (n.get("r") in recorders or n.get("f") in recorders):
                ti, si = recorders.get(n.get("r")) or recorders.get(n.get("f"))
                if ti < len(n["a"]):
                    lvl = level_of(n["a"][ti])
                    if lvl:
                        sites.append((n, lvl, T.show(n["a"][si]).replace("&mut ", "").replace("*", "") if si is not None and si < len(n["a"]) else "?", "helper"))
        for n, lvl, set_name, kind in sites:
            levels.setdefault(lvl, []).append((n, set_name))
        want = ["Program", "Sub", "Blk", "Def", "Jmp"]
        for lvl in want:
            run.check("R2", "remove_duplicate_tids|level|%s" % lvl, lvl in levels, "the tid of term level %s is not recorded in the set of known tids (neither directly nor through a helper): a duplicate at that level goes unnoticed" % lvl, F.loc(fn["body"]))
        sets = {s_ for v in levels.values() for _, s_ in v if s_ != "?"}
        (run.holds if len(sets) == 1 else run.violated if len(sets) > 1 else run.undecided)("R2", "remove_duplicate_tids|one-set", "tids of different term levels are recorded in different sets %s: an id shared across levels is not detected" % sorted(sets), F.loc(fn["body"]))
        # a failed insert must lead to drop or abort: the result of the recording is used as a condition (if / retain predicate)
        unused = []
        all_nodes = list(T.walk_fn(F, fn))
        for lvl, lst in levels.items():
            for n, _ in lst:
                if lvl == "Program":
                    continue
                cond_use = any(x.get("k") == "If" and any(y is n for y in T.walk(x["c"])) for x in all_nodes)
                # tail of a closure passed to retain / filter
                for c_ in F.closures(fn):
                    body = T.peel(c_["body"])
                    tail = body
                    while tail.get("k") == "Block" and tail.get("e") is not None:
                        tail = T.peel(tail["e"])
                    if any(y is n for y in T.walk(tail)) and any(T.is_call(x, ("retain", "filter", "retain_mut")) and any(T.peel(a).get("k") == "Closure" and T.peel(a)["d"] == c_["path"] for a in x["a"]) for x in all_nodes):
                        cond_use = True
                # bound to a local that is then tested
                for x in all_nodes:
                    if x.get("k") == "LetStmt" and "i" in x and any(y is n for y in T.walk(x["i"])):
                        ids = {b[0] for b in T.pat_bindings(x["p"])}
                        if any(z.get("k") == "If" and any(w.get("k") == "Var" and w["id"] in ids for w in T.walk(z["c"])) for z in all_nodes):
                            cond_use = True
                if not cond_use:
                    unused.append(lvl)
        run.check("R2", "remove_duplicate_tids|duplicate-is-acted-on", not unused, "the result of recording a tid is ignored for level(s) %s: duplicates are kept" % unused, F.loc(fn["body"]))
        fn = F.fn("clone_with_tid_suffix", mod="block_duplication_normalization")
        lv = set()
        for n in T.walk(fn["body"]):
            if n.get("k") == "Assign":
                l = T.peel(n["l"])
                if l.get("k") == "Field" and l.get("fn") == "tid" and any(T.is_call(y, "with_id_suffix") for y in T.walk(n["r"])):
                    ty = F.ty(T.peel(l["e"]))
                    lv.add(ty.split("<")[-1].rstrip(">").split("::")[-1])
        for lvl in ("Blk", "Def", "Jmp"):
            run.check("R2", "clone_with_tid_suffix|%s" % lvl, lvl in lv, "a cloned block keeps the original %s tid(s): term identifiers are no longer unique after block duplication" % lvl, F.loc(fn["body"]))

    run.guarded("R2", r2)

    def r3():
        fn = F.fn("normalize_basic", adt="Project")
        t = S.Sym(F).term(fn["body"])
        st = stmts_of(t)
        passes = ["remove_duplicate_tids", "add_artifical_sink", "remove_references_to_nonexisting_tids", "make_block_to_sub_mapping_unique", "retarget_non_returning_calls_to_artificial_sink"]
        pos = {}
        for i, s in enumerate(st):
            for p in passes:
                if any(is_call(x, p) for x in S.subterms(s)) and p not in pos:
                    pos[p] = i
                    if s[0] == "ite":
                        run.violated("R3", "unconditional|%s" % p, "%s runs only conditionally" % p, F.loc(fn["body"]))
        for p in passes:
            run.check("R3", "runs|%s" % p, p in pos, "normalize_basic no longer runs %s" % p, F.loc(fn["body"]))
        if all(p in pos for p in passes):
            for a, why in (("remove_duplicate_tids", "its maps are keyed by tid and would conflate duplicates"),
                           ("add_artifical_sink", "retargeted references point at the global sink block, which must exist to be duplicated into the function"),
                           ("remove_references_to_nonexisting_tids", "the duplication pass looks up every reachable target and fails on a dangling one")):
                run.check("R3", "order|%s<make_block_to_sub_mapping_unique" % a, pos[a] < pos["make_block_to_sub_mapping_unique"], "%s must run before make_block_to_sub_mapping_unique (%s)" % (a, why), F.loc(fn["body"]))
            # the retarget pass states its precondition itself ("INVARIANT: A unique block-to-sub mapping is preserved"): it adds a
            # per-function sink block `artificial_sink_block(sub suffix)`; the duplication pass gives exactly that tid to its clone of the
            # global sink block, so a function with a dangling jump AND a non-returning call would get the same block tid twice
            run.check("R3", "order|make_block_to_sub_mapping_unique<retarget_non_returning_calls_to_artificial_sink",
                      pos["make_block_to_sub_mapping_unique"] < pos["retarget_non_returning_calls_to_artificial_sink"],
                      "make_block_to_sub_mapping_unique must run before retarget_non_returning_calls_to_artificial_sink: the retarget pass adds the per-function block `Artificial Sink Block_<sub>`, "
                      "and a later duplication pass clones the global sink block (target of repaired dangling jumps) into the same function under the identical tid -> duplicate tids", F.loc(fn["body"]))

    run.guarded("R3", r3)

    def r4():
        fn = F.fn("retarget_non_returning_calls_to_artificial_sink", adt="Project")
        sy = S.Sym(F)
        env = {}
        sy.term(fn["body"], env)
        rid = {b[0] for b in SL.slot_bindings(F, fn, "jmp::Jmp", "Call", "return_")}
        assigns = [(n, c) for n, c in T.paths_to(fn["body"], lambda x: x.get("k") == "Assign" and T.root_var_id(x["l"]) in rid)]
        run.floor("retarget assignments", len(assigns), 1)
        sink_recv = None
        for n2 in T.walk(fn["body"]):
            if T.is_call(n2, "add_artifical_sink"):
                sink_recv = sy.ev(n2["a"][0], env)
        for i, (n, conds) in enumerate(assigns):
            rhs = sy.ev(n["r"], env)
            good = is_call(rhs, "artificial_sink_block") and is_call(rhs[2][0], "id_suffix") and rhs[2][0][2][0] == sink_recv
            run.check("R4", "retarget|to-own-sink|%d" % i, good, "a non-returning call must return to Tid::artificial_sink_block(<suffix of the enclosing sub>); found %s" % fmt(rhs), F.loc(n))
            # flag set on the same path
            blk_flag = False
            for m, c2 in T.paths_to(fn["body"], lambda x: x.get("k") == "Assign" and T.peel(x["r"]).get("k") == "Lit" and T.peel(x["r"]).get("v") is True):
                if [id(c[1]) for c in c2] == [id(c[1]) for c in conds]:
                    blk_flag = True
                    flag_id = T.root_var_id(m["l"])
            run.check("R4", "retarget|sets-flag|%d" % i, blk_flag, "retargeting a call must record that the function needs its sink block", F.loc(n))
        # after the loops: if flag { sub.add_artifical_sink() }
        ok = False
        for n, conds in T.paths_to(fn["body"], lambda x: T.is_call(x, "add_artifical_sink")):
            for cd in conds:
                if cd[0] == "if" and cd[2] is True and T.peel(cd[1]).get("k") == "Var":
                    ok = True
        run.check("R4", "sink-added-when-retargeted", ok, "the function's artificial sink block must be added when a call was retargeted to it (otherwise the return target does not exist)", F.loc(fn["body"]))
        # the target test: extern symbol no_return, or internal non-returning sub
        fn2 = F.fn("add_artifical_sink", adt="Term", mod="intermediate_representation::sub")
        t2 = S.Sym(F).term(fn2["body"])
        pushes = [x for x in S.subterms(t2) if is_call(x, "push")]
        good = bool(pushes) and any(is_call(y, "artificial_sink") and is_call(y[2][0], "id_suffix") for y in S.subterms(pushes[0]))
        run.check("R4", "Sub::add_artifical_sink|own-suffix", good, "the sink block added to a function must carry that function's id suffix", F.loc(fn2["body"]))

    run.guarded("R4", r4)
