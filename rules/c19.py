"""C19 Global memory queries agree with the loaded image -- boundary / flag / byte-order clauses.

 R1 containment predicates over memory segments: a point compared `>= base` must be
    compared strictly `< base+len` (sibling cross-check / one-sided comparison)
 R2 flag agreement: read() yields unknown content under write_flag; *_writeable return
    write_flag, *_readable read_flag; ro-data pointer errors under write_flag
 R3 byte order: bytes reversed iff little endian; accumulated most significant first
 R4 MemorySegment constructors fill each flag from the accessor/mask of the same permission
 R2+ (added after seed C19c) a single-address flag query (is_address_writeable) does not go through a ranged query (read)
"""
from .lib import sym as S
from .lib import thir as T
from .lib.sym import fmt


def is_call(t, name=None):
    return isinstance(t, tuple) and t and t[0] == "call" and (name is None or t[1] == name or (isinstance(name, (set, tuple, frozenset)) and t[1] in name))


def strip(t):
    while True:
        if is_call(t, ("unwrap", "expect")) and t[2]:
            t = t[2][0]
        elif t[0] == "try":
            t = t[1]
        elif t[0] == "cast":
            t = t[1]
        elif is_call(t, ("from", "into", "try_to_u64", "try_into")) and len(t[2]) == 1:
            t = t[2][0]
        else:
            return t


def seg_base(t):
    """segment term if t is `<seg>.base_address`"""
    t = strip(t)
    if t[0] == "field" and t[2] == "base_address":
        return t[1]
    return None


def seg_end(t):
    """segment term if t is `<seg>.base_address + <seg>.bytes.len()` (either order)"""
    t = strip(t)
    if t[0] == "bin" and t[1] == "Add":
        for a, b in ((t[2], t[3]), (t[3], t[2])):
            sa = seg_base(a)
            b = strip(b)
            if sa is not None and is_call(b, "len") and len(b[2]) == 1:
                x = strip(b[2][0])
                if x[0] == "field" and x[2] == "bytes" and x[1] == sa:
                    return sa
    return None


def conjuncts(t):
    if t[0] == "and":
        return conjuncts(t[1]) + conjuncts(t[2])
    return [t]


def rel(t):
    """normalise an ordering comparison to (small, strict?, big)"""
    if t[0] != "bin" or t[1] not in ("Lt", "Le", "Gt", "Ge"):
        return None
    op, l, r = t[1], t[2], t[3]
    if op in ("Gt", "Ge"):
        l, r = r, l
    return (l, op in ("Lt", "Gt"), r)


def run(run):
    F = run.facts()
    run.explanation = (
        "Static analysis of RuntimeMemoryImage and MemorySegment: every condition that compares a value against a segment's base "
        "address is normalised (let-inlined, casts removed) and its boundary comparisons classified (point vs. range end, strict vs. "
        "inclusive); flag reads and the byte-order branch are matched against the query names. Decides boundary/flag/byte-order "
        "agreement of the query code, not the byte contents returned for a given image.")
    run.assumptions = ["segments are half-open ranges [base_address, base_address + bytes.len()) (MemorySegment definition)",
                       "adjacent segments occur (kernel modules: from_elf_sections packs sections back to back)"]
    run.rule("R1", "a point compared >= segment base must be compared strictly < segment end (base+len)")
    run.rule("R2", "flag agreement between query name and MemorySegment flag field; writable => unknown content / error")
    run.rule("R3", "read(): bytes reversed iff little endian, accumulated with Piece(acc, next)")
    run.rule("R4", "MemorySegment constructors fill *_flag from the same permission's accessor/mask")
    run.rule("R5", "segment scans visit every segment: early exits only from inside a successful containment test")

    def r1():
        nconds = 0
        fns = [f for f in F.fns if f["dk"] != "Closure" and "expn" not in f]
        for fn in fns:
            # cheap pre-filter: function (or its closures) mentions field base_address
            nodes = list(T.walk_fn(F, fn))
            if not any(n.get("k") == "Field" and n.get("fn") == "base_address" and n.get("adt", "").endswith("MemorySegment") for n in nodes):
                continue
            sy = S.Sym(F)
            env = {}
            sy.term(fn["body"], env)
            for c in F.closures(fn):
                sy.scan(c["body"])
                sy.ev(c["body"], env)
            conds = []
            for n in nodes:
                if n.get("k") == "If":
                    conds.append(n["c"])
                elif n.get("k") == "Match":
                    for arm in n["arms"]:
                        if "g" in arm:
                            conds.append(arm["g"])
            # closure bodies of boolean type (filter/find/any predicates)
            for c in F.closures(fn):
                if F.ty(c["body"]) == "bool":
                    conds.append(c["body"])
            seen = set()
            for cnode in conds:
                term = sy.ev(cnode, env)
                cj = conjuncts(term)
                rels = [r for r in (rel(x) for x in cj) if r]
                lower = []  # (segment, point, strict)
                for small, strict, big in rels:
                    sb = seg_base(small)
                    if sb is not None and seg_base(big) is None and seg_end(big) is None:
                        lower.append((sb, strip(big), strict))
                if not lower:
                    continue
                nconds += 1
                for seg, point, strict in lower:
                    pk = "%s|%s" % (fn["path"], fmt(point))
                    if pk in seen:
                        continue
                    seen.add(pk)
                    site = F.loc(cnode)
                    if strict:
                        run.violated("R1", pk + "|lower", "point `%s` is compared strictly greater than the segment base: the first byte of the segment is excluded" % fmt(point), site)
                    ups = []
                    for small, st, big in rels:
                        if strip(small) == point:
                            if seg_end(big) == seg:
                                ups.append(("end", st))
                            elif strip(big)[0] == "bin" and strip(big)[1] == "Sub" and seg_end(strip(big)[2]) == seg:
                                ups.append(("end-minus", st))
                        # point + size <= end
                        s2 = strip(small)
                        if s2[0] == "bin" and s2[1] == "Add" and point in (strip(s2[2]), strip(s2[3])) and seg_end(big) == seg:
                            ups.append(("plus-size", st))
                    if not ups:
                        run.violated("R1", pk + "|upper", "point `%s` is bounded below by the segment base but has no upper bound against the segment end in the same condition (one-sided containment test)" % fmt(point), site)
                        continue
                    bad = [u for u in ups if u == ("end", False)]
                    if bad and not any(u[0] != "end" or u[1] for u in ups):
                        run.violated("R1", pk + "|upper", "point `%s` is compared `<=` against the segment end base+len; with adjacent segments the first byte of the next segment is attributed to this one (sibling queries use `<`)" % fmt(point), site)
                    else:
                        run.holds("R1", pk + "|upper", "upper bound forms: %s" % ups, site)
        run.floor("segment containment conditions", nconds, 3)

    run.guarded("R1", r1)

    def r5():
        """segment scans are order independent: a loop over memory_segments is left early
        only from inside a successful containment test"""
        n = 0
        for fn in F.find_fns(adt="RuntimeMemoryImage", trait=""):
            sy = S.Sym(F)
            env = {}
            sy.term(fn["body"], env)
            for (node, pat, it, body) in T.for_loops(fn["body"]):
                itt = sy.ev(it, env)
                if not any(isinstance(x, tuple) and x and x[0] == "field" and x[2] == "memory_segments" for x in S.subterms(itt)):
                    continue
                if any(is_call(x, ("iter_mut",)) for x in S.subterms(itt)):
                    continue
                n += 1
                bad = []
                for ex, conds in T.paths_to(body, lambda y: y.get("k") in ("Break", "Return", "Continue")):
                    # exits of inner loops do not leave the scan
                    inner_loop = any(c[0] == "arm" and c[1].get("ms", "").startswith("ForLoopDesugar") for c in conds)
                    if inner_loop and ex.get("k") != "Return":
                        continue
                    inside = False
                    for cd in conds:
                        if cd[0] != "if":
                            continue
                        ct = sy.ev(cd[1], env)
                        for cj in conjuncts(ct):
                            r = rel(cj)
                            if r and seg_base(r[0]) is not None and cd[2] is True:
                                inside = True
                    if not inside:
                        bad.append(ex)
                key = "%s|scan-exits-only-on-hit" % fn["name"]
                run.check("R5", key, not bad, "the scan over memory_segments is left (%s) outside a successful containment test: the result depends on the order of the segments (nothing sorts them; bare-metal images list flash before RAM)" % ", ".join(sorted({b["k"] for b in bad})), F.loc(node))
        run.floor("segment scans", n, 1)

    run.guarded("R5", r5)

    def find_ites(t):
        return [x for x in S.subterms(t) if isinstance(x, tuple) and x and x[0] == "ite"]

    def flag_cond(c):
        """(flag name, polarity) if the condition is `<seg>.X_flag` or its negation"""
        pol = True
        while c[0] == "not":
            c, pol = c[1], not pol
        if c[0] == "field" and c[2].endswith("_flag"):
            return c[2], pol
        if c[0] == "bin" and c[1] in ("Eq", "Ne") and c[3][0] == "lit" and isinstance(c[3][1], bool) and c[2][0] == "field" and c[2][2].endswith("_flag"):
            p = c[3][1] if c[1] == "Eq" else (not c[3][1])
            return c[2][2], p if pol else (not p)
        return None

    def returns(t):
        return [x[1] for x in S.subterms(t) if isinstance(x, tuple) and x and x[0] == "return"]

    def r2():
        # read(): writable => Ok(None)
        fn = F.fn("read", adt="RuntimeMemoryImage")
        sy = S.Sym(F)
        term = sy.term(fn["body"])
        site = F.loc(fn["body"])
        found = False
        for ite in find_ites(term):
            fc = flag_cond(ite[1])
            if not fc:
                continue
            found = True
            flag, pol = fc
            tb, eb = (ite[2], ite[3]) if pol else (ite[3], ite[2])
            rs = returns(tb)
            none_ret = any(r[0] == "adt" and r[2] == "Ok" and dict(r[3])["0"][0] == "adt" and dict(r[3])["0"][2] == "None" for r in rs)
            run.check("R2", "read|writable-yields-unknown", flag == "write_flag" and none_ret,
                      "read() must return Ok(None) exactly when the containing segment has write_flag set; found flag `%s` (polarity %s), returns %s" % (flag, pol, [fmt(r) for r in rs]), site)
        if not found:
            run.violated("R2", "read|writable-yields-unknown", "read() no longer tests the segment's write flag before returning bytes", site)
        # flag-returning queries
        for name, want in (("is_address_writeable", "write_flag"), ("is_interval_writeable", "write_flag"), ("is_interval_readable", "read_flag")):
            fn = F.fn(name, adt="RuntimeMemoryImage")
            sy = S.Sym(F)
            term = sy.term(fn["body"])
            site = F.loc(fn["body"])
            flags = []
            for r in returns(term):
                if r[0] == "adt" and r[2] == "Ok":
                    p = dict(r[3])["0"]
                    pol = True
                    while p[0] == "not":
                        p, pol = p[1], not pol
                    if p[0] == "field" and p[2].endswith("_flag"):
                        flags.append((p[2], pol))
                    else:
                        flags.append((fmt(p), pol))
            if not flags:
                run.undecided("R2", "%s|returns-flag" % name, "no `return Ok(<flag>)` found", site)
            else:
                run.check("R2", "%s|returns-flag" % name, all(f == (want, True) for f in flags), "%s must report the segment's %s; found %s" % (name, want, flags), site)
        # a query about ONE address looks at the segment containing that address; read(addr, size) demands that the whole range
        # [addr, addr + size) lies inside one segment, so deciding the flag through read() fails near the end of a segment
        for qname in ("is_address_writeable",):
            q = F.fn(qname, adt="RuntimeMemoryImage")
            ranged = [x for x in T.walk_deep(F, q["body"], 1) if T.is_call(x, ("read", "is_interval_writeable", "is_interval_readable")) and "RuntimeMemoryImage" in (x.get("f") or "") + (x.get("r") or "")]
            run.check("R2", "%s|single-address-query" % qname, not ranged, "%s must decide on the segment that contains the address itself; it goes through %s, which requires a whole multi-byte range inside one segment" % (qname, [x["n"] for x in ranged]), F.loc(q["body"]))
        fn = F.fn("get_ro_data_pointer_at_address", adt="RuntimeMemoryImage")
        site = F.loc(fn["body"])
        from .lib import peval as PE

        def ro_case(writable):
            hits = {"n": 0}

            def assume(n):
                if n.get("k") == "Field" and n.get("fn") == "write_flag":
                    hits["n"] += 1
                    return ("bool", writable)
                return None
            res, nodes = PE.Spec(F, assume=assume, follow_calls=True).results(fn["body"], {})
            return [PE.result_kind(r) for r in res], hits["n"]
        kinds_w, h1 = ro_case(True)
        kinds_r, h2 = ro_case(False)
        key = "get_ro_data_pointer_at_address|writable-is-error"
        reads_flag = any(x.get("k") == "Field" and x.get("fn") == "write_flag" for x in T.walk_deep(F, fn["body"], 2))
        if not reads_flag:
            run.violated("R2", key, "no test of the segment's write flag", site)
        elif not (h1 and h2):
            run.undecided("R2", key, "the write flag is read but not as a condition this rule can specialise", site)
        elif "Ok" in kinds_w:
            run.violated("R2", key, "must fail exactly for segments with write_flag set; a pointer is returned for a writable segment", site)
        elif "Ok" not in kinds_r:
            if None in kinds_r:
                run.undecided("R2", key, "results for a read-only segment not recognised: %s" % kinds_r, site)
            else:
                run.violated("R2", key, "must fail exactly for segments with write_flag set; no pointer is returned for a read-only segment", site)
        else:
            run.holds("R2", key, "", site)

    run.guarded("R2", r2)

    def r3():
        fn = F.fn("read", adt="RuntimeMemoryImage")
        site = F.loc(fn["body"])
        sy = S.Sym(F)
        env = {}
        sy.term(fn["body"], env)
        hit = False
        for n in T.walk(fn["body"]):
            if n.get("k") != "If":
                continue
            c = sy.ev(n["c"], env)
            pol = True
            while c[0] == "not":
                c, pol = c[1], not pol
            if c[0] == "bin" and c[1] in ("Eq", "Ne") and c[3][0] == "lit":
                pol = pol if (c[3][1] is True) == (c[1] == "Eq") else not pol
                c = c[2]
            if c[0] == "field" and c[2] == "is_little_endian":
                hit = True
                rev_then = any(T.is_call(x, "rev") or T.is_call(x, "reverse") for x in T.walk(n["th"]))
                rev_else = "el" in n and any(T.is_call(x, "rev") or T.is_call(x, "reverse") for x in T.walk(n["el"]))
                good = (rev_then and not rev_else) if pol else (rev_else and not rev_then)
                run.check("R3", "read|reverse-iff-little-endian", good, "bytes must be reversed exactly when is_little_endian (polarity %s, rev in then=%s else=%s)" % (pol, rev_then, rev_else), F.loc(n))
        if not hit:
            run.undecided("R3", "read|reverse-iff-little-endian", "no branch on is_little_endian found in read()", site)
        # accumulation order
        pcs = [x for x in T.walk(fn["body"]) if T.is_call(x, "bin_op")]
        ok = None
        for c in pcs:
            args = c["a"]
            if len(args) == 3 and T.peel(args[1]).get("k") == "Adt" and T.peel(args[1]).get("v") == "Piece":
                a0 = T.peel(args[0])
                a2 = sy.ev(args[2], env)
                # acc must be the variable that is re-assigned with the result
                acc_id = a0.get("id") if a0.get("k") == "Var" else None
                assigned = [n for n in T.walk(fn["body"]) if n.get("k") == "Assign" and T.var_id(n["l"]) == acc_id and any(y is c for y in T.walk(n["r"]))]
                new_from_loop = any(isinstance(x, tuple) and x and x[0] == "elem" for x in S.subterms(a2))
                ok = bool(acc_id is not None and assigned and new_from_loop)
                run.check("R3", "read|piece-accumulator-is-most-significant", ok, "Piece(acc, next_byte): the accumulator (bytes read so far) must be the most significant operand; found bin_op(%s, Piece, %s)" % (T.show(args[0]), fmt(a2)), F.loc(c))
        if ok is None:
            run.undecided("R3", "read|piece-accumulator-is-most-significant", "no Piece accumulation found", site)

    run.guarded("R3", r3)

    PERM = {
        "read_flag": ({"is_read", "is_readable"}, {0x40000000}),
        "write_flag": ({"is_write", "is_writable", "is_writeable"}, {0x80000000}),
        "execute_flag": ({"is_executable", "is_exec"}, {0x20000000}),
    }

    def r4():
        n = 0
        for fn in F.find_fns(adt="MemorySegment", trait=""):
            sy = S.Sym(F)
            env = {}
            sy.term(fn["body"], env)
            for node in T.walk(fn["body"]):
                if node.get("k") == "Adt" and node["adt"].endswith("MemorySegment"):
                    for field in ("read_flag", "write_flag", "execute_flag"):
                        if field not in node["fs"]:
                            continue
                        n += 1
                        t = sy.ev(node["fs"][field], env)
                        key = "%s|%s" % (fn["name"], field)
                        site = F.loc(node["fs"][field])
                        callnames = {x[1] for x in S.subterms(t) if is_call(x)}
                        lits = {x[1] for x in S.subterms(t) if isinstance(x, tuple) and x and x[0] == "lit" and isinstance(x[1], int) and not isinstance(x[1], bool)}
                        own_calls, own_masks = PERM[field]
                        foreign = []
                        for other, (oc, om) in PERM.items():
                            if other != field:
                                foreign += sorted(callnames & oc) + ["0x%x" % m for m in sorted(lits & om)]
                        if foreign:
                            run.violated("R4", key, "%s is filled from another permission's source: %s (term %s)" % (field, foreign, fmt(t)), site)
                            continue
                        if t[0] == "lit" and isinstance(t[1], bool):
                            if fn["name"] == "new_bare_metal_ram_segment" and field == "write_flag":
                                run.check("R4", key, t[1] is True, "the bare-metal RAM segment must be writable", site)
                            else:
                                run.holds("R4", key, "constant %s" % t[1], site)
                            continue
                        if callnames & own_calls:
                            pol = True
                            tt = t
                            while tt[0] == "not":
                                tt, pol = tt[1], not pol
                            run.check("R4", key, pol, "%s must be the (un-negated) %s accessor; found %s" % (field, sorted(own_calls), fmt(t)), site)
                            continue
                        if lits & own_masks:
                            # (characteristics & MASK) != 0
                            good = t[0] == "bin" and ((t[1] == "Ne" and t[3] == ("lit", 0)) or (t[1] == "Gt" and t[3] == ("lit", 0)) or (t[1] == "Eq" and t[3][0] == "lit" and t[3][1] in own_masks))
                            run.check("R4", key, good, "%s must be `(characteristics & mask) != 0`; found %s" % (field, fmt(t)), site)
                            continue
                        run.undecided("R4", key, "flag source outside the vocabulary: %s" % fmt(t), site)
        run.floor("MemorySegment flag initialisers", n, 8)

    run.guarded("R4", r4)
