"""C16 Call-site checkers report exactly the specified call sites -- enumeration and decision shape.

 R1 exhaustive enumeration: the call enumerators iterate all subs x blocks x jumps without
    early exit, match exactly Jmp::Call by membership of the target in the symbol map, and
    emit one record per call; every checker produces one warning per enumerated record
 R2 decision truth tables: CWE332 warns <=> generator present and initializer absent, with
    (initializer, generator) = (first, second) component of the configured pair; CWE426 warns
    for a function <=> it calls system and a privileged function (both on the same function);
    the fixed symbols are "ioctl" / "system"
 R3 the configured list is used
 R1+ (added after seed C16c) CWE332 examines every configured pair (no take_while / early exit over config.pairs)
"""
import itertools

from .lib import slots as SL
from .lib import sym as S
from .lib import thir as T
from .lib.sym import fmt


def is_call(t, name=None):
    return isinstance(t, tuple) and t and t[0] == "call" and (name is None or t[1] == name or (isinstance(name, (set, tuple, frozenset)) and t[1] in name))


EARLY = ("take", "skip", "step_by", "take_while", "skip_while", "find", "first", "last", "nth", "next", "position", "find_map", "min", "max", "dedup", "truncate", "pop")


def run(run):
    F = run.facts()
    run.explanation = (
        "Static enumeration-shape and decision-table analysis of the syntactic call-site checkers: the shared enumerators are checked "
        "for complete nested iteration (loop shape, no early exit, no restricting iterator adaptor), the exact match on Jmp::Call with "
        "a membership test on the symbol map, and one emitted record per match; each checker is checked for one warning per record; the "
        "decisions of CWE332/CWE426 are evaluated as truth tables over their atoms with the provenance of the looked-up symbol traced to "
        "the configuration component / literal. Decides the enumeration and decision shape, not the warning multiset of a program.")
    run.rule("R1", "enumerators visit every jump of every block (of every sub), match Jmp::Call by map membership, one record per call; one warning per record")
    run.rule("R2", "decision truth tables and symbol provenance of CWE332 / CWE426 / CWE782")
    run.rule("R3", "the configured symbol list drives CWE676 / CWE426")

    def enumerator(fn, label, want_loops):
        sy = S.Sym(F)
        env = {}
        t = sy.term(fn["body"], env)
        site = F.loc(fn["body"])
        # the iteration may be written as nested for-loops or as an iterator chain (flat_map / filter_map / collect): what counts
        # is which containers are iterated, whether anything truncates the iteration, and whether it is left early
        deep = list(T.walk_deep(F, fn["body"], depth=1))
        over = set()
        for y in deep:
            if y.get("k") == "Call" and y.get("n") in ("iter", "iter_mut", "into_iter", "values", "values_mut") and y.get("a"):
                for z in T.walk(y["a"][0]):
                    if z.get("k") == "Field" and z.get("fn") in ("blocks", "jmps", "subs"):
                        over.add(z["fn"])
        bad_adapt = sorted({y["n"] for y in deep if T.is_call(y, EARLY + ("rev",)) and not y.get("ds") and not (y["n"] == "next" and y.get("x"))})
        # filters: a plain `filter` drops elements; filter_map is how a chain expresses `if let .. { push }`
        filters = sorted({y["n"] for y in deep if T.is_call(y, ("filter",))})
        exits = [n for n in T.walk(fn["body"]) if n.get("k") in ("Break", "Return") and n.get("ds") != "ForLoop"]
        key = "%s|complete-iteration" % label
        missing = [w for w in want_loops if w not in over]
        if not missing and not bad_adapt and not exits and not filters:
            run.holds("R1", key, "iterates %s" % sorted(over), site)
        elif bad_adapt or exits:
            run.violated("R1", key, "%s must visit every %s; the iteration is truncated (%s%s)" % (label, " x ".join(want_loops), ", ".join(bad_adapt), (", %d early exits" % len(exits)) if exits else ""), site)
        elif missing and over:
            run.violated("R1", key, "%s must iterate every %s; it iterates %s only" % (label, " x ".join(want_loops), sorted(over)), site)
        else:
            run.undecided("R1", key, "iteration not recognised (over %s, filters %s)" % (sorted(over), filters), site)
        # the match: if let Jmp::Call{target} = jmp.term  and membership test, one push
        pushes = T.paths_to(fn["body"], lambda x: T.is_call(x, "push"))
        collects = [y for y in T.walk(fn["body"]) if T.is_call(y, "collect")]
        if len(pushes) == 1 or (not pushes and len(collects) == 1):
            run.holds("R1", "%s|one-record-per-call" % label, "", site)
        else:
            run.undecided("R1", "%s|one-record-per-call" % label, "%d push sites, %d collect calls" % (len(pushes), len(collects)), site)
        if pushes:
            n, conds = pushes[0]
            is_callpat = False
            member = False
            others = []
            for cd in conds:
                if cd[0] == "if":
                    c = sy.ev(cd[1], env)
                    if c[0] == "let" and c[1].startswith("Call{") and cd[2]:
                        # every alternative of the pattern must be Jmp::Call
                        is_callpat = T.pat_variant_names(cd[1]["p"]) == {"Call"}
                        if not is_callpat:
                            others.append("pattern " + c[1][:80])
                    elif (is_call(c, ("contains_key", "contains")) and cd[2]) or (c[0] == "let" and c[1].startswith("Some") and is_call(S.value(c[2]), "get") and cd[2]):
                        inner = c if c[0] == "call" else S.value(c[2])
                        member = any(isinstance(y, tuple) and y and y[0] == "field" and y[2] == "Call.target" for y in S.subterms(inner))
                    else:
                        others.append(fmt(c)[:80])
                elif cd[0] == "arm" and not cd[1].get("ms", "").startswith("ForLoop"):
                    names = T.pat_variant_names(cd[2]["p"])
                    if names == {"Call"}:
                        is_callpat = True
                    else:
                        others.append("arm " + T.show_pat(cd[2]["p"]))
            run.check("R1", "%s|matches-direct-calls-by-target-membership" % label, is_callpat and member and not others,
                      "%s must record a jump iff it is a direct call (Jmp::Call) whose target is a key of the symbol map; extra conditions: %s" % (label, others), F.loc(n))

    def r1():
        f = F.fn("get_calls_to_symbols", mod="utils::symbol_utils")
        enumerator(f, "get_calls_to_symbols", ["blocks", "jmps"])
        f = F.fn("get_callsites", mod="utils::symbol_utils")
        enumerator(f, "get_callsites", ["blocks", "jmps"])
        from .lib import iterctx as IC

        def iteration_of(f, pred, need_field=None):
            """(verdict, detail): the single site satisfying pred in f (or a helper it calls) runs once per element of an
            unrestricted iteration (over a collection read from field `need_field`), unconditionally, without early exits"""
            found = [x for x in T.walk_deep(F, f["body"], 2) if pred(x)]
            if len(found) != 1:
                return None, "expected one site, found %d" % len(found)
            site_ = found[0]
            ctx = IC.contexts(F, f, site_)
            if not ctx:
                return None, "the site is not inside an iteration"
            fields, adapt = IC.summary(F, f, ctx)
            adapt = [a for a in adapt if a != "rev"]
            own, chain = IC.owner(F, f, site_)
            conds = []
            for holder_fn, node in [(own, site_)] + ([(IC.owner(F, f, chain[0])[0], chain[0])] if chain else []):
                for n_, cds in T.paths_to(holder_fn["body"], lambda y, node=node: y is node):
                    conds += [cd for cd in cds if cd[0] in ("if", "letelse") or (cd[0] == "arm" and not (cd[1].get("ms", "").startswith("ForLoop") or T.is_call(T.peel(cd[1]["e"]), "next")))]
            exits = [x for x in T.walk(own["body"]) if x.get("k") in ("Break", "Continue", "Return") and x.get("ds") not in ("ForLoop", "WhileLoop")]
            if need_field is not None and need_field not in fields:
                # or over a parameter that holds the functions (a map / slice of Term<Sub>)
                from .lib import bindsrc as B
                over_subs = any(x.get("k") in ("Var", "Upvar") and "Sub>" in (F.ty(x) or "") and ("BTreeMap" in (F.ty(x) or "") or "Vec" in (F.ty(x) or "") or "[" in (F.ty(x) or ""))
                                for e_ in ctx for src, how in B.sources(F, B.bodies(F, f), e_) for x in T.walk(src))
                if not over_subs:
                    return False, "the iteration does not run over `%s` (fields read: %s)" % (need_field, sorted(fields)[:6])
            if adapt:
                return False, "the iteration is restricted by %s" % adapt
            if conds:
                return False, "the site is conditional"
            if exits:
                return False, "the iteration can be left early"
            return True, ""

        # CWE676: all subs, one warning per call
        f = F.fn("get_calls", mod="checkers::cwe_676")
        v, why = iteration_of(f, lambda x: T.is_call(x, "get_calls_to_symbols"), "subs")
        if v is None:
            run.undecided("R1", "cwe676|all-functions", why, F.loc(f["body"]))
        else:
            run.check("R1", "cwe676|all-functions", v, "CWE676 must collect the dangerous calls of every function (%s)" % why, F.loc(f["body"]))
        for mod, fname in (("checkers::cwe_676", "generate_cwe_warnings"), ("checkers::cwe_782", "generate_cwe_warning")):
            f = F.fn(fname, mod=mod)
            v, why = iteration_of(f, lambda x: T.is_call(x, "new") and ("CweWarning" in (x.get("f") or "") or (x.get("is") or "").endswith("CweWarning")))
            key = "%s|one-warning-per-call" % mod.split("::")[-1]
            if v is None:
                run.undecided("R1", key, why, F.loc(f["body"]))
            else:
                run.check("R1", key, v, "one warning must be generated for every recorded call (iteration over all records, unconditional) -- %s" % why, F.loc(f["body"]))
        # CWE332: every configured (initializer, generator) pair is examined -- a filter is a condition, but an adaptor that
        # ends the iteration early (take_while, take, ...) silently drops the later pairs
        f332 = F.fn("check_cwe", mod="checkers::cwe_332")
        from .lib import bindsrc as B332
        gen_sites = [x for x in T.walk_deep(F, f332["body"], 1) if T.is_call(x, "generate_cwe_warning") or (T.is_call(x, "new") and "CweWarning" in (x.get("f") or ""))]
        key = "cwe332|all-pairs-examined"
        if not gen_sites:
            run.undecided("R1", key, "no warning construction found in cwe_332::check_cwe", F.loc(f332["body"]))
        else:
            ctx = IC.contexts(F, f332, gen_sites[0])
            roots = B332.bodies(F, f332)
            pairs = any(y.get("k") == "Field" and y.get("fn") == "pairs" for e_ in ctx for src, how in B332.sources(F, roots, e_) for y in B332.walk_with_closures(F, src))
            cut = [y["n"] for e_ in ctx for src, how in B332.sources(F, roots, e_) for y in T.walk(src) if T.is_call(y, ("take_while", "take", "skip", "skip_while", "step_by", "nth", "last", "first", "find", "map_while", "position"))]
            own, _ch = IC.owner(F, f332, gen_sites[0])
            exits = [y for y in T.walk(own["body"]) if y.get("k") in ("Break", "Return") and y.get("ds") not in ("ForLoop", "WhileLoop")]
            if not pairs:
                run.undecided("R1", key, "the warning is not generated inside an iteration over config.pairs", F.loc(f332["body"]))
            else:
                run.check("R1", key, not cut and not exits, "every configured pair must be examined; the iteration over the pairs is ended early by %s" % (cut or "break/return"), F.loc(gen_sites[0]))
        # CWE782: every sub handled, all calls of a sub passed on
        f = F.fn("check_cwe", mod="checkers::cwe_782")
        v782, why782 = iteration_of(f, lambda x: T.is_call(x, "handle_sub") or (x.get("k") == "FnRef" and (x.get("f") or "").endswith("::handle_sub")), "subs")
        if v782 is None:
            run.undecided("R1", "cwe782|all-functions", why782, F.loc(f["body"]))
        else:
            run.check("R1", "cwe782|all-functions", v782, "CWE782 must look at every function (%s)" % why782, F.loc(f["body"]))
        f = F.fn("handle_sub", mod="checkers::cwe_782")
        t = S.Sym(F).term(f["body"])
        gen = [x for x in S.subterms(t) if is_call(x, "generate_cwe_warning")]
        ok = bool(gen) and any(is_call(y, "get_calls_to_symbols") for y in S.subterms(gen[0][2][0])) and not any(is_call(y, EARLY + ("filter", "index", "get", "split_at", "split_first", "chunks")) or (isinstance(y, tuple) and y and y[0] == "index") for y in S.subterms(gen[0][2][0]))
        run.check("R1", "cwe782|all-calls-of-a-function", ok, "all ioctl calls of a function must be passed to the warning generator (not only the first)", F.loc(f["body"]))

    run.guarded("R1", r1)

    def r2():
        # CWE332
        f = F.fn("check_cwe", mod="checkers::cwe_332")
        sy = S.Sym(F)
        env = {}
        sy.term(f["body"], env)
        site = F.loc(f["body"])
        pushes = T.paths_to(f["body"], lambda x: T.is_call(x, "push"))
        if len(pushes) != 1:
            run.undecided("R2", "cwe332|decision", "expected one warning site, found %d" % len(pushes), site)
        else:
            n, conds = pushes[0]
            lits = []

            def comp_of(t):
                for y in S.subterms(t):
                    if isinstance(y, tuple) and y and y[0] == "field" and y[2] in ("0", "1") and y[1][0] == "elem":
                        return int(y[2])
                return None

            def atoms(c, pol):
                if c[0] == "and" and pol:
                    atoms(c[1], True); atoms(c[2], True)
                    return
                if c[0] == "not":
                    atoms(c[1], not pol)
                    return
                if is_call(c, ("is_some", "is_none")) and is_call(c[2][0], "find_symbol"):
                    present = (c[1] == "is_some") == pol
                    lits.append((comp_of(c[2][0][2][1]), present))
                    return
                lits.append(("?", fmt(c)))
            for cd in conds:
                if cd[0] == "if":
                    atoms(sy.ev(cd[1], env), cd[2])
            want = [(0, False), (1, True)]
            if any(l[0] == "?" or l[0] is None for l in lits):
                run.undecided("R2", "cwe332|decision", "condition outside vocabulary: %s" % lits, site)
            else:
                run.check("R2", "cwe332|decision", sorted(lits) == want, "CWE332 must warn exactly when the generator (second component of the configured pair) is imported and the initializer (first component) is not; found requirements %s (component, must be present)" % sorted(lits), F.loc(n))
            # iterate all pairs
            fors = T.for_loops(f["body"])
            itt = sy.ev(fors[0][2], env) if fors else None
            ok = itt is not None and any(isinstance(y, tuple) and y and y[0] == "field" and y[2] == "pairs" for y in S.subterms(itt)) and not any(is_call(y, EARLY + ("filter",)) for y in S.subterms(itt))
            run.check("R2", "cwe332|all-pairs", ok, "every configured pair must be examined", site)
        # find_symbol: equality on the full name
        f = F.fn("find_symbol", mod="utils::symbol_utils")
        cmps = []
        for c in [f] + F.closures(f):
            ct = S.Sym(F).term(c["body"])
            for y in S.subterms(ct):
                if is_call(y, ("eq", "ne", "starts_with", "ends_with", "contains", "eq_ignore_ascii_case", "cmp")) and len(y[2]) == 2:
                    sides = [S.value(a) for a in y[2]]
                    if any(a[0] == "var" and a[1] == "name" for a in sides) and any(a[0] == "field" and a[2] == "name" for a in sides):
                        cmps.append(y[1])
                if isinstance(y, tuple) and y and y[0] == "bin" and y[1] in ("Eq", "Ne"):
                    sides = [S.value(y[2]), S.value(y[3])]
                    if any(a[0] == "var" and a[1] == "name" for a in sides) and any(a[0] == "field" and a[2] == "name" for a in sides):
                        cmps.append(y[1].lower())
        if cmps and all(c_ == "eq" for c_ in cmps):
            run.holds("R2", "find_symbol|name-equality", "", F.loc(f["body"]))
        elif cmps:
            run.violated("R2", "find_symbol|name-equality", "find_symbol must select the extern symbol whose name EQUALS the requested name; it compares them with %s" % sorted(set(cmps)), F.loc(f["body"]))
        else:
            run.undecided("R2", "find_symbol|name-equality", "no comparison of the requested name with a symbol name found", F.loc(f["body"]))
        # CWE426
        f = F.fn("check_cwe", mod="checkers::cwe_426")
        sy = S.Sym(F)
        env = {}
        sy.term(f["body"], env)
        site = F.loc(f["body"])
        pushes = [(n, c) for n, c in T.paths_to(f["body"], lambda x: T.is_call(x, "push")) if any(T.is_call(y, "generate_cwe_warning") for y in T.walk(n))]
        if len(pushes) != 1:
            run.undecided("R2", "cwe426|decision", "expected one warning site, found %d" % len(pushes), site)
        else:
            n, conds = pushes[0]
            req = []

            def atoms2(c, pol):
                if c[0] == "and" and pol:
                    atoms2(c[1], True); atoms2(c[2], True)
                    return
                if c[0] == "not":
                    atoms2(c[1], not pol)
                    return
                if is_call(c, "is_empty"):
                    inner = c[2][0]
                    if is_call(inner, "get_calls_to_symbols"):
                        subt = inner[2][0]
                        which = inner[2][1]
                        req.append(("calls", fmt(which), fmt(subt), not pol))
                    else:
                        req.append(("map-nonempty", fmt(inner), None, not pol))
                    return
                if c[0] == "or" and pol:
                    req.append(("or", fmt(c), None, pol))
                    return
                if is_call(c, ("insert", "contains", "contains_key")) and len(c[2]) >= 2:
                    # a de-duplication of the reported functions: harmless iff keyed by the function's identity (tid)
                    keyt = c[2][1]
                    by_tid = any(isinstance(y, tuple) and y and y[0] == "field" and y[2] == "tid" for y in S.subterms(keyt))
                    by_name = any(isinstance(y, tuple) and y and y[0] == "field" and y[2] == "name" for y in S.subterms(keyt))
                    if by_name and not by_tid:
                        req.append(("dedup-by-name", fmt(c), None, pol))
                        return
                    if by_tid:
                        return
                # a call-set test hidden in a closure (any/all/filter over other functions)?
                foreign = False
                for y in S.subterms(c):
                    if isinstance(y, tuple) and y and y[0] == "closure":
                        try:
                            cb = S.Sym(F).term(F.closure_by_path(y[1])["body"])
                        except T.AnchorMissing:
                            continue
                        if any(is_call(z, "get_calls_to_symbols") for z in S.subterms(cb)):
                            foreign = True
                if foreign:
                    req.append(("foreign-calls", fmt(c), None, pol))
                    return
                req.append(("?", fmt(c), None, pol))
            for cd in conds:
                if cd[0] == "if":
                    atoms2(sy.ev(cd[1], env), cd[2])
            calls = [r for r in req if r[0] == "calls"]
            unknown = [r for r in req if r[0] == "?"]
            wrong = [r for r in req if r[0] in ("or", "foreign-calls", "dedup-by-name")]
            if wrong:
                run.violated("R2", "cwe426|decision", "CWE426 must report EACH function that calls system AND a privilege-changing function (the same function for both); found %s%s" % ([(r[0], r[1][:120]) for r in wrong], " - distinct functions may share a name (static helpers of different compilation units); de-duplicating by name drops all but one of them" if any(r[0] == "dedup-by-name" for r in wrong) else ""), F.loc(n))
            elif unknown:
                run.undecided("R2", "cwe426|decision", "condition outside vocabulary: %s" % unknown, site)
            else:
                same_sub = len({r[2] for r in calls}) == 1
                maps = {r[1] for r in calls}
                both = len(calls) == 2 and all(r[3] for r in calls) and len(maps) == 2
                run.check("R2", "cwe426|decision", both and same_sub, "CWE426 must report a function exactly when that same function calls system AND a privilege-changing function; found %s" % [(r[1], r[2], "non-empty" if r[3] else "empty") for r in calls], F.loc(n))
            fors = T.for_loops(f["body"])
            subs_loop = [fl for fl in fors if any(isinstance(y, tuple) and y and y[0] == "field" and y[2] == "subs" for y in S.subterms(sy.ev(fl[2], env)))]
            ok = bool(subs_loop) and not any(is_call(y, EARLY + ("filter",)) for y in S.subterms(sy.ev(subs_loop[0][2], env)))
            exits = [x for x in T.walk(f["body"]) if x.get("k") in ("Break", "Continue", "Return") and x.get("ds") != "ForLoop"]
            run.check("R2", "cwe426|all-functions", ok and not exits, "every function must be examined", site)
        # fixed symbols
        for mod, lit in (("checkers::cwe_426", "system"), ("checkers::cwe_782", "ioctl")):
            f = F.fn("check_cwe", mod=mod)
            t = S.Sym(F).term(f["body"])
            lits = [c[2][1][1] for c in S.subterms(t) if is_call(c, "find_symbol") and len(c[2]) == 2 and c[2][1][0] == "lit"]
            run.check("R2", "%s|fixed-symbol" % mod.split("::")[-1], lit in lits, "%s must look up the symbol %r; literal lookups found: %s" % (mod.split("::")[-1], lit, lits), F.loc(f["body"]))

    run.guarded("R2", r2)

    def r3():
        f = F.fn("check_cwe", mod="checkers::cwe_676")
        t = S.Sym(F).term(f["body"])
        rs = [x for x in S.subterms(t) if is_call(x, "resolve_symbols")]
        ok = bool(rs) and any(isinstance(y, tuple) and y and y[0] == "field" and y[2] == "symbols" for y in S.subterms(rs[0][2][1])) and any(isinstance(y, tuple) and y and y[0] == "field" and y[2] == "extern_symbols" for y in S.subterms(rs[0][2][0]))
        run.check("R3", "cwe676|configured-symbols", ok, "the dangerous symbols must be the configured list resolved against the program's extern symbols", F.loc(f["body"]))
        gc = [x for x in S.subterms(t) if is_call(x, "get_calls")]
        ok = bool(gc) and any(is_call(y, "resolve_symbols") for y in S.subterms(gc[0][2][1]))
        run.check("R3", "cwe676|calls-to-resolved-symbols", ok, "the calls must be enumerated against the resolved symbol map", F.loc(f["body"]))
        f = F.fn("resolve_symbols", mod="checkers::cwe_676")
        t = S.Sym(F).term(f["body"])
        ok = any(is_call(y, "filter_map") for y in S.subterms(t))
        cl = F.closures(f)
        good = False
        for c in cl:
            ct = S.Sym(F).term(c["body"])
            if any(is_call(y, ("get", "contains")) and any(isinstance(z, tuple) and z and z[0] == "field" and z[2] == "name" for z in S.subterms(y)) for y in S.subterms(ct)):
                good = True
        run.check("R3", "cwe676|resolve-by-name-membership", ok and good, "an extern symbol is dangerous iff its name is in the configured set", F.loc(f["body"]))
        f = F.fn("check_cwe", mod="checkers::cwe_426")
        sy = S.Sym(F)
        env = {}
        sy.term(f["body"], env)
        fors = T.for_loops(f["body"])
        ok = any(any(isinstance(y, tuple) and y and y[0] == "field" and y[2] == "symbols" for y in S.subterms(sy.ev(fl[2], env))) and any(T.is_call(x, "find_symbol") for x in T.walk(fl[3])) and any(T.is_call(x, "insert") for x in T.walk(fl[3])) for fl in fors)
        if not ok:
            # iterator-chain form: config.symbols.iter().filter_map(|s| find_symbol(.., s)).collect()
            for y in T.walk(f["body"]):
                if T.is_call(y, ("filter_map", "map", "flat_map")) and y.get("a") and any(z.get("k") == "Field" and z.get("fn") == "symbols" for z in T.walk(y["a"][0])):
                    cl = [T.peel(a) for a in y["a"][1:] if T.peel(a).get("k") == "Closure"]
                    if any(any(T.is_call(z, "find_symbol") for z in T.walk(F.closure_by_path(c_["d"])["body"])) for c_ in cl):
                        ok = True
        lit_only = [x for x in T.walk_deep(F, f["body"], depth=0) if T.is_call(x, "find_symbol")]
        if ok:
            run.holds("R3", "cwe426|configured-symbols", "", F.loc(f["body"]))
        elif lit_only and all(T.peel(x["a"][-1]).get("k") == "Lit" or any(z.get("k") == "Lit" for z in T.walk(x["a"][-1])) for x in lit_only):
            run.violated("R3", "cwe426|configured-symbols", "the privilege-changing functions must be the configured list; find_symbol is only called with literal names", F.loc(f["body"]))
        else:
            run.undecided("R3", "cwe426|configured-symbols", "use of the configured symbol list not recognised", F.loc(f["body"]))

    run.guarded("R3", r3)
