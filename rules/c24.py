"""C24 Call-sequence queries return exactly the calls on source-to-target paths.

 R1 graph construction: one node per key of `subs`; an edge for every Jmp::Call whose target
    is a key of `subs` (loops over all subs x blocks x jumps, no early exit / extra filter);
    edges are added with add_edge (two calls to the same callee are two edges)
 R2 direction agreement (contradiction rule): each traversal uses ONE direction for the
    neighbours it follows and the edges it collects; the two traversals use opposite
    directions; forward starts at the source, backward at the target; a node is expanded only
    when newly inserted into its visited set
 R3 intersection: the result iterates one edge set, keeps an edge iff the other contains it,
    and maps it to the call's tid
"""
from .lib import sym as S
from .lib import thir as T
from .lib.sym import fmt


def is_call(t, name=None):
    return isinstance(t, tuple) and t and t[0] == "call" and (name is None or t[1] == name or (isinstance(name, (set, tuple, frozenset)) and t[1] in name))


def run(run):
    F = run.facts()
    run.explanation = (
        "Static construction/direction analysis of analysis::callgraph: loop shape and edge condition of get_program_callgraph; for "
        "each of the two worklist traversals the Direction constants passed to neighbors_directed and edges_directed (resolved enum "
        "variants) are compared with each other and with the start node; the result expression is normalised to (iterated set, "
        "membership test, mapping). Decides construction and direction agreement, not exactness on a given graph.")
    run.rule("R1", "call graph has every function as node and every direct internal call as its own edge")
    run.rule("R2", "each traversal follows and collects in one direction; forward from the source, backward from the target; expand on first visit")
    run.rule("R3", "result = edges in both sets, mapped to the tid of the call")

    def r1():
        f = F.fn("get_program_callgraph", mod="analysis::callgraph")
        sy = S.Sym(F)
        env = {}
        t = sy.term(f["body"], env)
        site = F.loc(f["body"])
        fors = [x for x in S.subterms(t) if isinstance(x, tuple) and x and x[0] == "for"]
        node_loop = [x for x in fors if any(is_call(y, "add_node") for y in S.subterms(x[3]))]
        ok = len(node_loop) == 1 and is_call(node_loop[0][2], ("keys", "values", "iter")) and any(isinstance(y, tuple) and y and y[0] == "field" and y[2] == "subs" for y in S.subterms(node_loop[0][2])) and not any(is_call(y, ("filter", "take", "skip", "step_by", "filter_map")) for y in S.subterms(node_loop[0][2]))
        run.check("R1", "nodes|one-per-function", ok, "every function (key of subs) must become a node of the call graph", site)
        exits = [n for n in T.walk(f["body"]) if n.get("k") in ("Break", "Continue", "Return") and n.get("ds") != "ForLoop"]
        over = [y[2] for x in fors for y in S.subterms(x[2]) if isinstance(y, tuple) and y and y[0] == "field" and y[2] in ("subs", "blocks", "jmps")]
        adapt = [y[1] for x in fors for y in S.subterms(x[2]) if is_call(y, ("filter", "take", "skip", "step_by", "filter_map", "rev", "take_while", "skip_while"))]
        run.check("R1", "edges|all-subs-blocks-jumps", {"subs", "blocks", "jmps"} <= set(over) and not exits and not adapt, "the edge construction must visit every jump of every block of every function (loops over %s, adaptors %s, exits %d)" % (over, adapt, len(exits)), site)
        adds = T.paths_to(f["body"], lambda x: T.is_call(x, ("add_edge", "update_edge")))
        if len(adds) != 1:
            run.violated("R1", "edges|single-construction-site", "expected one edge construction site, found %d" % len(adds), site)
            return
        n, conds = adds[0]
        run.check("R1", "edges|parallel-calls-kept", n["n"] == "add_edge", "two calls from f to g are two calls: edges must be added with add_edge (update_edge merges them)", F.loc(n))
        callpat = member = False
        others = []
        for cd in conds:
            if cd[0] == "if":
                c = sy.ev(cd[1], env)
                if c[0] == "let" and cd[2] and c[1].startswith("Call{"):
                    callpat = T.pat_variant_names(cd[1]["p"]) == {"Call"}
                elif c[0] == "let" and cd[2] and c[1].startswith("Some") and is_call(S.value(c[2]), "get") and any(isinstance(y, tuple) and y and y[0] == "field" and y[2] == "Call.target" for y in S.subterms(c[2])):
                    member = True
                else:
                    others.append(fmt(c)[:80])
        run.check("R1", "edges|iff-direct-call-to-internal-function", callpat and member and not others, "an edge exists iff the jump is a direct call whose target is a function of the program (self-calls included); extra conditions %s" % others, F.loc(n))
        a = [sy.ev(x, env) for x in n["a"]]
        src_ok = any(isinstance(y, tuple) and y and y[0] == "field" and y[2] == "tid" and y[1][0] == "elem" for y in S.subterms(a[1]))
        tgt_ok = any(isinstance(y, tuple) and y and y[0] == "field" and y[2] == "Call.target" for y in S.subterms(a[2]))
        w_ok = a[3][0] == "elem" or any(isinstance(y, tuple) and y and y[0] == "elem" for y in S.subterms(a[3]))
        run.check("R1", "edges|from-caller-to-callee", src_ok and tgt_ok and w_ok, "the edge must lead from the calling function's node to the callee's node and carry the call; found (%s -> %s)" % (fmt(a[1])[:60], fmt(a[2])[:60]), F.loc(n))

    run.guarded("R1", r1)

    def traversals(f):
        """[(start term, visited-set name, dir of neighbors, dir of edges, guarded?, edge-set name)] in source order"""
        sy = S.Sym(F)
        env = {}
        sy.term(f["body"], env)
        out = []
        loops = [n for n in T.walk(f["body"]) if n.get("k") == "Loop"]
        for lp in loops:
            nb = [c for c in T.calls(lp, name="neighbors_directed")] + [c for c in T.calls(lp, name="neighbors")]
            ed = [c for c in T.calls(lp, name="edges_directed")] + [c for c in T.calls(lp, name="edges")]
            if not nb and not ed:
                continue

            def dir_of(c):
                if c["n"] in ("neighbors", "edges"):
                    return "Outgoing"
                d = T.peel(c["a"][2])
                return d.get("v") if d.get("k") == "Adt" else None
            # the popped stack and its initialisation
            pops = [c for c in T.calls(lp, name="pop")]
            stack_id = T.root_var_id(pops[0]["a"][0]) if pops else None
            start = None
            for n in T.walk(f["body"]):
                if n.get("k") == "LetStmt" and "i" in n and T.pat_peel(n["p"]).get("k") == "Bind" and T.pat_peel(n["p"])["id"] == stack_id:
                    start = sy.ev(n["i"], env)
            # guard: insert into visited as the condition of expansion
            guarded = False
            visited = None
            for x, conds in T.paths_to(lp, lambda y: T.is_call(y, "push")):
                for cd in conds:
                    if cd[0] == "if":
                        c = sy.ev(cd[1], env)
                        pol = cd[2]
                        while c[0] == "not":
                            c, pol = c[1], not pol
                        if is_call(c, "insert") and pol:
                            guarded = True
                            visited = fmt(c[2][0])
                        if is_call(c, "contains") and not pol:
                            guarded = True
                            visited = fmt(c[2][0])
            esets = [T.show(c["a"][0]).replace("&mut ", "") for c in T.calls(lp, name="insert") if any(T.is_call(y, "id") for y in T.walk(c))]
            out.append({"start": start, "nb": [dir_of(c) for c in nb], "ed": [dir_of(c) for c in ed], "guarded": guarded, "visited": visited, "eset": esets[0] if esets else None, "loop": lp})
        return out

    def r2():
        f = F.fn("find_call_sequences_from_node_to_target", mod="analysis::callgraph")
        tr = traversals(f)
        site = F.loc(f["body"])
        if len(tr) != 2:
            run.undecided("R2", "two-traversals", "expected two traversals, found %d" % len(tr), site)
            return
        dirs = []
        for i, t in enumerate(tr):
            ds = set(t["nb"]) | set(t["ed"])
            run.check("R2", "traversal%d|one-direction" % i, len(ds) == 1 and None not in ds and t["nb"] and t["ed"], "a traversal must follow neighbours and collect edges in the SAME direction; it follows %s and collects %s" % (t["nb"], t["ed"]), F.loc(t["loop"]))
            run.check("R2", "traversal%d|expand-on-first-visit" % i, t["guarded"], "a node must be expanded only when it is newly inserted into the visited set (termination on cycles, and every reachable node expanded once)", F.loc(t["loop"]))
            dirs.append(next(iter(ds)) if len(ds) == 1 else None)
        run.check("R2", "opposite-directions", set(dirs) == {"Outgoing", "Incoming"}, "one traversal must go forward (Outgoing) and the other backward (Incoming); found %s" % dirs, site)
        for i, t in enumerate(tr):
            st = fmt(t["start"]) if t["start"] else ""
            want = "source_node" if dirs[i] == "Outgoing" else "target_node" if dirs[i] == "Incoming" else None
            run.check("R2", "traversal%d|start-node" % i, want is not None and want in st and ("target_node" if want == "source_node" else "source_node") not in st, "the %s traversal must start at the %s; it starts at %s" % ("forward" if dirs[i] == "Outgoing" else "backward", want, st), F.loc(t["loop"]))
        vs = [t["visited"] for t in tr]
        run.check("R2", "separate-visited-sets", vs[0] != vs[1] and None not in vs, "the two traversals need separate visited sets; found %s" % vs, site)
        es = [t["eset"] for t in tr]
        run.check("R2", "separate-edge-sets", es[0] != es[1] and None not in es, "the two traversals must collect into separate edge sets; found %s" % es, site)

    run.guarded("R2", r2)

    def r3():
        f = F.fn("find_call_sequences_from_node_to_target", mod="analysis::callgraph")
        tr = traversals(f)
        sy = S.Sym(F)
        env = {}
        t = sy.term(f["body"], env)
        res = S.value(t)
        site = F.loc(f["body"])
        esets = {x["eset"] for x in tr}
        iterated = [y for y in S.subterms(res) if is_call(y, ("iter", "into_iter")) and y[2] and y[2][0][0] == "var"]
        it_name = iterated[0][2][0][1] if iterated else None
        unions = [y[1] for y in S.subterms(res) if is_call(y, ("union", "chain", "extend", "symmetric_difference", "difference"))]
        contains = None
        mapped_tid = False
        for c in F.closures(f):
            ct = S.Sym(F).scan(c["body"]).ev(c["body"], env)
            for y in S.subterms(ct):
                if isinstance(y, tuple) and y and y[0] == "ite" and is_call(y[1], "contains"):
                    contains = (y[1][2][0][1] if y[1][2][0][0] == "var" else fmt(y[1][2][0]), S.value(y[2]), S.value(y[3]))
        inter = any(is_call(y, "intersection") for y in S.subterms(res))
        if inter:
            run.holds("R3", "intersection", "uses set intersection", site)
        elif contains is None or it_name is None:
            run.check("R3", "intersection", False, "the result must be the intersection of the forward and the backward edge set; found %s (set operations: %s)" % (fmt(res)[:120], unions), site)
        else:
            other, then, els = contains
            good = it_name in esets and other in esets and other != it_name and then[0] == "adt" and then[2] == "Some" and els[0] == "adt" and els[2] == "None" and not unions
            run.check("R3", "intersection", good, "the result must keep an edge of one set iff the OTHER set contains it; iterates %s, tests membership in %s" % (it_name, other), site)
            tid = then[0] == "adt" and any(isinstance(z, tuple) and z and z[0] == "field" and z[2] == "tid" for z in S.subterms(then)) and any(is_call(z, "index") for z in S.subterms(then))
            run.check("R3", "mapped-to-call-tid", tid, "each kept edge must be reported as the tid of the call it stands for (edge weight .tid)", site)
        f2 = F.fn("find_call_sequences_to_target", mod="analysis::callgraph")
        t2 = S.Sym(F).term(f2["body"])
        cs = [y for y in S.subterms(t2) if is_call(y, "find_call_sequences_from_node_to_target")]
        ok = False
        if cs:
            a = cs[0][2]
            src_cl = [z for z in S.subterms(a[1]) if isinstance(z, tuple) and z and z[0] == "closure"]
            tgt_cl = [z for z in S.subterms(a[2]) if isinstance(z, tuple) and z and z[0] == "closure"]
            ok = bool(src_cl) and bool(tgt_cl) and any(u[0] == "var" and u[1] == "source_sub_tid" for u in src_cl[0][2]) and any(u[0] == "var" and u[1] == "target_sub_tid" for u in tgt_cl[0][2])
        run.check("R3", "entry|source-and-target-not-swapped", ok, "the public query must pass the node of the SOURCE function as source and the node of the TARGET function as target", F.loc(f2["body"]))

    run.guarded("R3", r3)
