"""C24 Call-sequence queries return exactly the calls on source-to-target paths.

 R1 graph construction: one node per key of `subs`; an edge for every Jmp::Call whose target
    is a key of `subs` (iteration over all subs x blocks x jumps, no early exit / extra filter);
    edges are added with add_edge (two calls to the same callee are two edges)
 R2 traversals: a traversal never follows neighbours in one direction and collects edges in
    the other (contradiction rule); a traversal is either forward from the source or
    backward from the target; a node is expanded only when newly inserted into its own
    visited set
 R3 evidence for the result: every returned call must be known to have its caller reachable
    from the source (edge collected as outgoing edge of a forward-visited node, or tested for
    membership in such a set) AND its callee reaching the target (incoming edge of a
    backward-visited node / membership); the call's tid is reported

The rules are stated over *traversal instances*: a worklist loop together with the constant values of the enclosing
function's parameters. A loop written twice in the query function gives two instances; one loop in a helper that is called
with Direction::Outgoing and Direction::Incoming gives two instances of the same loop, each specialised (lib/peval) for its
direction. Iteration contexts (for loops, closures handed to iterator adaptors) are treated alike.
"""
from .lib import sym as S
from .lib import thir as T
from .lib import peval as PE
from .lib import bindsrc as B
from .lib import slots as SL
from .lib.sym import fmt


def is_call(t, name=None):
    return isinstance(t, tuple) and t and t[0] == "call" and (name is None or t[1] == name or (isinstance(name, (set, tuple, frozenset)) and t[1] in name))


RESTRICT = ("filter", "take", "skip", "step_by", "filter_map", "take_while", "skip_while", "map_while", "nth", "last", "find", "find_map", "position", "peekable")
CLOSURE_ITER = ("map", "for_each", "flat_map", "inspect", "fold", "try_for_each", "for_each_mut", "filter", "filter_map", "flatten", "any", "all", "find", "take_while", "skip_while")


def run(run):
    F = run.facts()
    run.explanation = (
        "Static construction/direction analysis of analysis::callgraph: the iteration context (for loops and closures of iterator "
        "chains, resolved through local bindings) and the path condition of the add_node / add_edge sites of get_program_callgraph; "
        "for each worklist-traversal instance (loop + constant parameters of the enclosing helper, specialised per call site) the "
        "Direction constants used for following neighbours and for collecting edges are compared with each other and with the start "
        "node; the result expression is normalised to (iterated set, membership test, mapping). Decides construction and direction "
        "agreement, not exactness on a given graph.")
    run.rule("R1", "call graph has every function as node and every direct internal call as its own edge")
    run.rule("R2", "each traversal follows and collects in one direction; forward from the source, backward from the target; expand on first visit")
    run.rule("R3", "result = edges in both sets, mapped to the tid of the call")

    def owner_of(fn, node):
        """the body (fn or one of its closures) that contains node"""
        for b in [fn] + F.closures(fn):
            if any(x is node for x in T.walk(b["body"])):
                return b
        return None

    def iter_contexts(fn, node):
        """iterable expressions of all iterations `node` runs in: enclosing for loops and, across closure boundaries, the
        receiver of the iterator adaptor the closure is handed to"""
        out = []
        b = owner_of(fn, node)
        target = node
        while b is not None:
            for (n_, pat, it, body) in T.for_loops(b["body"]):
                if any(x is target for x in T.walk(body)):
                    out.append(it)
            if b is fn or b.get("dk") != "Closure":
                break
            parent = F.by_path.get(b.get("parent"))
            if parent is None:
                break
            taker = None
            for x in T.walk(parent["body"]):
                if x.get("k") == "Call" and any(T.peel(a).get("k") == "Closure" and T.peel(a).get("d") == b["path"] for a in x.get("a", [])):
                    taker = x
            if taker is None:
                break
            if taker.get("n") in CLOSURE_ITER and taker.get("a"):
                out.append(taker["a"][0])
            target = taker
            b = parent
        return out

    def call_filter(x):
        """a filter / filter_map whose closure keeps an element exactly when it is a Jmp::Call (the direct-call test written
        as an iterator adaptor)"""
        if not (T.is_call(x, ("filter_map", "filter")) and len(x.get("a", [])) == 2 and T.peel(x["a"][1]).get("k") == "Closure"):
            return False
        c = F.by_path.get(T.peel(x["a"][1])["d"])
        if c is None:
            return False
        keeps = T.paths_to(c["body"], lambda y: (y.get("k") == "Adt" and y.get("adt", "").endswith("option::Option") and y.get("v") == "Some") or (y.get("k") == "Lit" and str(y.get("v")).lower() == "true"))
        if not keeps:
            return False
        for n_, conds in keeps:
            ok_ = False
            rest = []
            for cd in conds:
                if cd[0] == "arm" and T.pat_variant_names(cd[2]["p"]) == {"Call"} and (F.ty(cd[1]["e"]) or "").replace("&", "").strip().endswith("jmp::Jmp"):
                    ok_ = True
                elif cd[0] == "if" and T.peel(cd[1]).get("k") == "Let" and T.pat_variant_names(T.peel(cd[1])["p"]) == {"Call"} and cd[2] is True:
                    ok_ = True
                else:
                    rest.append(cd)
            if not ok_ or rest:
                return False
        return True

    def fields_and_adaptors(fn, exprs):
        roots = B.bodies(F, fn)
        fields, adapt, callfilters = set(), [], []
        for e in exprs:
            for src, how in B.sources(F, roots, e, follow_calls=True):
                for x in B.walk_with_closures(F, src):
                    if x.get("k") == "Field" and x.get("fn"):
                        fields.add(x["fn"])
                    if T.is_call(x, RESTRICT):
                        if call_filter(x):
                            callfilters.append(x)
                        else:
                            adapt.append(x["n"])
        fields_and_adaptors.callfilters = callfilters
        return fields, adapt

    def is_desugar_cond(cd):
        if cd[0] != "arm":
            return False
        m = cd[1]
        if m.get("ms", "").startswith("ForLoopDesugar"):
            return True
        scr = T.peel(m["e"])
        return T.is_call(scr, "next") and bool(m.get("x") or scr.get("x"))

    def r1():
        f = F.fn("get_program_callgraph", mod="analysis::callgraph")
        site = F.loc(f["body"])
        roots = B.bodies(F, f)
        nodes = [x for x in T.walk_fn(F, f) if T.is_call(x, "add_node")]
        if len(nodes) != 1:
            run.undecided("R1", "nodes|one-per-function", "expected one add_node site, found %d" % len(nodes), site)
        else:
            ctx = iter_contexts(f, nodes[0])
            fields, adapt = fields_and_adaptors(f, ctx)
            own = owner_of(f, nodes[0])
            conds = [cd for n_, cds in T.paths_to(own["body"], lambda y: y is nodes[0]) for cd in cds if not is_desugar_cond(cd)]
            run.check("R1", "nodes|one-per-function", "subs" in fields and not adapt and not conds, "every function (key of subs) must become a node of the call graph (iterates over fields %s, restricting adaptors %s, %d conditions)" % (sorted(fields & {"subs", "blocks", "jmps"}), adapt, len(conds)), site)
        adds = [x for x in T.walk_fn(F, f) if T.is_call(x, ("add_edge", "update_edge"))]
        if len(adds) != 1:
            run.violated("R1", "edges|single-construction-site", "expected one edge construction site, found %d" % len(adds), site)
            return
        n = adds[0]
        own = owner_of(f, n)
        ctx = iter_contexts(f, n)
        fields, adapt = fields_and_adaptors(f, ctx)
        # exits from the iteration other than the guard clauses judged below
        hard_exits = [x for b in [own] for x in T.walk(b["body"]) if x.get("k") in ("Break", "Return") and x.get("ds") not in ("ForLoop", "WhileLoop")]
        run.check("R1", "edges|all-subs-blocks-jumps", {"subs", "blocks", "jmps"} <= fields and not adapt and not hard_exits, "the edge construction must visit every jump of every block of every function (iterates over fields %s, restricting adaptors %s, exits %d)" % (sorted(fields & {"subs", "blocks", "jmps"}), adapt, len(hard_exits)), site)
        run.check("R1", "edges|parallel-calls-kept", n["n"] == "add_edge", "two calls from f to g are two calls: edges must be added with add_edge (update_edge merges them)", F.loc(n))
        # path condition of the construction site
        # locals that may hold the target of a direct call: the slot bindings (in the function or a helper that enumerates the
        # calls) and everything they flow into
        from .lib import mayflow as MF
        mf = MF.MayFlow(F)
        mf.add(f, set())
        for g_ in [f] + [F.by_path[x.get("r") or x.get("f")] for x in T.walk_fn(F, f) if x.get("k") == "Call" and (x.get("r") or x.get("f")) in F.by_path and F.by_path[x.get("r") or x.get("f")].get("dk") in ("Fn", "AssocFn")]:
            for b_ in SL.slot_bindings(F, g_, "jmp::Jmp", "Call", "target"):
                mf.add(g_, {b_[0]})
        mf.solve()
        target_ids = set(mf.reached.get(f["path"], set()))
        callpat = bool(getattr(fields_and_adaptors, "callfilters", []))
        member = False
        others = []
        paths = T.paths_to(own["body"], lambda y: y is n)
        conds = paths[0][1] if paths else []
        for cd in conds:
            if is_desugar_cond(cd):
                continue
            pat = scrut = None
            pol = True
            if cd[0] == "if":
                c = T.peel(cd[1])
                if c.get("k") == "Let":
                    pat, scrut, pol = c["p"], c["e"], cd[2]
                elif T.is_call(c, "contains_key") and B.mentions(F, c, lambda y: y.get("k") in ("Var", "Upvar") and y.get("id") in target_ids):
                    if cd[2]:
                        member = True
                        continue
            elif cd[0] == "letelse":
                pat, scrut, pol = cd[1]["p"], cd[1].get("i"), cd[2]
            elif cd[0] == "arm":
                pat, scrut = cd[2]["p"], cd[1]["e"]
            if pat is not None and scrut is not None and pol:
                names = T.pat_variant_names(pat)
                sty = (F.ty(scrut) or "").replace("&", "").strip()
                if names == {"Call"} and sty.endswith("jmp::Jmp"):
                    callpat = True
                    continue
                restricted = [y["n"] for src, how in B.sources(F, roots, scrut) for y in T.walk(src) if T.is_call(y, ("filter", "and_then", "take_if", "xor", "zip", "and", "then", "then_some", "filter_map"))]
                if names == {"Some"} and not restricted and any(T.is_call(y, "get") and B.mentions(F, y, lambda z: z.get("k") in ("Var", "Upvar") and z.get("id") in target_ids) for src, how in B.sources(F, roots, scrut) for y in T.walk(src)):
                    member = True
                    continue
            others.append(T.show(cd[1] if cd[0] != "arm" else cd[1]["e"], F)[:80])
        run.check("R1", "edges|iff-direct-call-to-internal-function", callpat and member and not others, "an edge exists iff the jump is a direct call whose target is a function of the program (self-calls included); direct-call test %s, target-is-function test %s, extra conditions %s" % (callpat, member, others), F.loc(n))
        a = n["a"]
        src_ok = any(x.get("k") == "Field" and x.get("fn") == "tid" for src, how in B.sources(F, roots, a[1]) for x in B.walk_with_closures(F, src)) and not any(x.get("k") in ("Var", "Upvar") and x.get("id") in target_ids for x in T.walk(a[1]))
        tgt_ok = any(x.get("k") in ("Var", "Upvar") and x.get("id") in target_ids for src, how in B.sources(F, roots, a[2]) for x in B.walk_with_closures(F, src))
        w_ok = "Term" in (F.ty(a[3]) or "") and "Jmp" in (F.ty(a[3]) or "")
        run.check("R1", "edges|from-caller-to-callee", src_ok and tgt_ok and w_ok, "the edge must lead from the calling function's node to the callee's node and carry the call; found (%s -> %s)" % (T.show(a[1], F)[:60], T.show(a[2], F)[:60]), F.loc(n))

    run.guarded("R1", r1)

    # ------------------------------------------------------------------ traversal instances
    def worklist_loops(fn):
        out = []
        for lp in [n for n in T.walk(fn["body"]) if n.get("k") == "Loop"]:
            if T.calls(lp, name="pop") and (T.calls(lp, name="neighbors_directed") or T.calls(lp, name="edges_directed") or T.calls(lp, name="neighbors") or T.calls(lp, name="edges")):
                # innermost only
                if not any(x is not lp and x.get("k") == "Loop" and T.calls(x, name="pop") for x in T.walk(lp)):
                    out.append(lp)
        return out

    def instances(f):
        """[{fn, loop, env, start_arg(caller-side node or None), eset_name}]"""
        out = []
        for lp in worklist_loops(f):
            out.append({"fn": f, "loop": lp, "env": {}, "argmap": {}, "result_var": None, "call": None})
        spec = PE.Spec(F)
        for x in T.walk(f["body"]):
            if x.get("k") != "Call":
                continue
            g = F.by_path.get(x.get("r") or "") or F.by_path.get(x.get("f") or "")
            if g is None or g is f or g.get("dk") not in ("Fn", "AssocFn") or len(g["params"]) != len(x.get("a", [])):
                continue
            lps = worklist_loops(g)
            if not lps:
                continue
            env, argmap = {}, {}
            for p_, a_ in zip(g["params"], x["a"]):
                if p_.get("p") and p_["p"].get("k") == "Bind":
                    c = spec.cev(a_, {})
                    if c is not None:
                        env[p_["p"]["id"]] = c
                    argmap[p_["p"]["id"]] = a_
            # the local the helper's result is bound to in f
            rv = None
            for s_ in T.walk(f["body"]):
                if s_.get("k") == "LetStmt" and "i" in s_ and s_["p"].get("k") == "Bind" and any(y is x for y in T.walk(s_["i"])):
                    rv = s_["p"]["n"]
            for lp in lps:
                out.append({"fn": g, "loop": lp, "env": env, "argmap": argmap, "result_var": rv, "call": x})
        return out

    def analyse_instance(inst, src_id, tgt_id):
        g, lp, env = inst["fn"], inst["loop"], inst["env"]
        roots = B.bodies(F, g)
        spec = PE.Spec(F)
        nodes = spec.reach(lp, env)

        def const_dir(e):
            d = T.peel(e)
            if d.get("k") == "Adt":
                return d.get("v")
            c = spec.cev(e, env)
            return c[1] if c and c[0] == "enum" else None

        def dir_of(c):
            if c["n"] in ("neighbors", "edges"):
                return "Outgoing"
            return const_dir(c["a"][2]) if len(c.get("a", [])) > 2 else None
        ed_calls = [c for c in nodes if T.is_call(c, ("edges_directed", "edges"))]
        nb_calls = [c for c in nodes if T.is_call(c, ("neighbors_directed", "neighbors"))]
        pops = [c for c in nodes if T.is_call(c, "pop")]
        stack_id = T.root_var_id(pops[0]["a"][0]) if pops else None
        # what is pushed on the worklist, and in which direction does that follow the graph
        follow = []
        for c in nodes:
            if not (T.is_call(c, ("push", "push_back", "extend")) and c.get("a") and T.root_var_id(c["a"][0]) == stack_id):
                continue
            # the pushed expression under env: results() resolves a `match direction {..}`
            leaves, _ = spec.results(c["a"][1], env) if len(c["a"]) > 1 else ([], [])
            for leaf in leaves or [c["a"][1]]:
                lf = T.peel(leaf)
                got = None
                if T.is_call(lf, ("target", "source")) and lf.get("a"):
                    # endpoint of an edge taken from edges_directed(node, D)
                    for src, how in B.sources(F, roots, lf["a"][0]):
                        for y in T.walk(src):
                            if T.is_call(y, ("edges_directed", "edges")):
                                d = dir_of(y)
                                if d == "Outgoing":
                                    got = "Outgoing" if lf["n"] == "target" else "stuck"
                                elif d == "Incoming":
                                    got = "Incoming" if lf["n"] == "source" else "stuck"
                else:
                    for src, how in B.sources(F, roots, leaf):
                        for y in T.walk(src):
                            if T.is_call(y, ("neighbors_directed", "neighbors")):
                                got = dir_of(y)
                follow.append(got)
        # the start node
        start = None
        for n_ in T.walk(g["body"]):
            if n_.get("k") == "LetStmt" and "i" in n_ and T.pat_peel(n_["p"]).get("k") == "Bind" and T.pat_peel(n_["p"])["id"] == stack_id:
                ids = {y["id"] for y in T.walk(n_["i"]) if y.get("k") in ("Var", "Upvar")}
                caller_ids = set()
                for i in ids:
                    if i in inst["argmap"]:
                        caller_ids |= {y["id"] for y in T.walk(inst["argmap"][i]) if y.get("k") in ("Var", "Upvar")}
                    else:
                        caller_ids.add(i)
                if src_id in caller_ids and tgt_id not in caller_ids:
                    start = "source"
                elif tgt_id in caller_ids and src_id not in caller_ids:
                    start = "target"
        # expansion guard: insert into / membership in a visited set
        guarded, visited = False, None
        sy = S.Sym(F)
        senv = {}
        sy.term(g["body"], senv)
        extra = []
        for x, conds in T.paths_to(lp, lambda y: T.is_call(y, ("push", "push_back", "extend")) and y.get("a") and T.root_var_id(y["a"][0]) == stack_id):
            for cd in conds:
                if cd[0] == "if":
                    lits = []

                    def flat(c, pol):
                        if c[0] == "and" and pol:
                            flat(c[1], True); flat(c[2], True)
                        elif c[0] == "or" and not pol:
                            flat(c[1], False); flat(c[2], False)
                        elif c[0] == "not":
                            flat(c[1], not pol)
                        else:
                            lits.append((c, pol))
                    flat(sy.ev(cd[1], senv), cd[2])
                    for c, pol in lits:
                        if is_call(c, "insert") and pol:
                            guarded = True
                            visited = fmt(c[2][0])
                        elif is_call(c, "contains") and not pol:
                            guarded = True
                            visited = visited or fmt(c[2][0])
                        elif c[0] == "let" and is_call(c[2], "pop"):
                            pass
                        else:
                            extra.append((c, pol))
        esets = [c for c in nodes if T.is_call(c, ("insert", "push", "extend")) and c.get("a") and T.root_var_id(c["a"][0]) != stack_id and any(T.is_call(y, "id") for y in T.walk(c))]
        eset_local = T.show(esets[0]["a"][0], F).replace("&mut ", "").strip() if esets else None
        eset_id = T.root_var_id(esets[0]["a"][0]) if esets else None
        eset = eset_local
        if inst["call"] is not None:
            # the helper must hand back that set
            res, _ = spec.results(g["body"], env)
            returns_set = any(T.root_var_id(r) == eset_id for r in res) if eset_id is not None else False
            eset = inst["result_var"] if returns_set else None
        return {"nb": [dir_of(c) for c in nb_calls] + follow, "ed": [dir_of(c) for c in ed_calls], "guarded": guarded,
                "visited": (visited, id(inst["call"])), "eset": eset, "start": start, "extra": extra, "loop": lp, "follow": follow}

    def analyse():
        f = F.fn("find_call_sequences_from_node_to_target", mod="analysis::callgraph")
        ps = [p_["p"]["id"] for p_ in f["params"] if p_.get("p") and p_["p"].get("k") == "Bind"]
        if len(ps) != 3:
            raise T.AnchorMissing("find_call_sequences_from_node_to_target: expected (callgraph, source, target) parameters")
        src_id, tgt_id = ps[1], ps[2]
        info = []
        for inst in instances(f):
            t = analyse_instance(inst, src_id, tgt_id)
            nbd = set(t["nb"])
            cls = None
            if len(nbd) == 1:
                d = next(iter(nbd))
                if t["start"] == "source" and d == "Outgoing":
                    cls = "FWD"
                elif t["start"] == "target" and d == "Incoming":
                    cls = "BWD"
            ev = set()
            edirs = set(t["ed"])
            if t["eset"] and len(edirs) == 1 and cls is not None:
                d = next(iter(edirs))
                if cls == "FWD" and d == "Outgoing":
                    ev.add("SRC_FWD")
                if cls == "BWD" and d == "Incoming":
                    ev.add("TGT_BWD")
            info.append({"t": t, "class": cls, "start": t["start"], "extra": t["extra"], "evidence": ev, "call": inst["call"]})
        sy = S.Sym(F)
        env = {}
        sy.term(f["body"], env)
        for inf in info:
            inf["call_term"] = S.value(sy.ev(inf["call"], env)) if inf["call"] is not None else None
        return f, info, sy, env

    def r2():
        f, info, sy, env = analyse()
        site = F.loc(f["body"])
        if not info:
            run.undecided("R2", "traversals", "no worklist traversal recognised", site)
            return
        for i, inf in enumerate(info):
            t = inf["t"]
            if t["nb"] and t["ed"]:
                ds = set(t["nb"]) | set(t["ed"])
                if None in ds:
                    run.undecided("R2", "traversal%d|one-direction" % i, "direction of a neighbour/edge enumeration is not a constant: %s / %s" % (t["nb"], t["ed"]), F.loc(t["loop"]))
                else:
                    run.check("R2", "traversal%d|one-direction" % i, len(ds) == 1, "a traversal follows neighbours in direction %s but collects edges in direction %s (contradiction)" % (t["nb"], t["ed"]), F.loc(t["loop"]))
            run.check("R2", "traversal%d|expand-on-first-visit" % i, t["guarded"], "a node must be expanded only when it is newly inserted into the visited set (termination on cycles, and every reachable node expanded once)", F.loc(t["loop"]))
            if inf["class"] is None:
                if None in t["nb"] or t["start"] is None or not t["nb"]:
                    run.undecided("R2", "traversal%d|start-and-direction" % i, "start node %s / followed direction %s not recognised" % (t["start"], t["nb"]), F.loc(t["loop"]))
                else:
                    run.violated("R2", "traversal%d|start-and-direction" % i, "a traversal starting at the %s node and following %s neighbours computes neither the nodes reachable from the source nor the nodes that reach the target" % (inf["start"], t["nb"]), F.loc(t["loop"]))
            else:
                run.holds("R2", "traversal%d|start-and-direction" % i, "%s" % inf["class"], F.loc(t["loop"]))
            if inf["extra"]:
                run.undecided("R2", "traversal%d|complete" % i, "the expansion is restricted by extra conditions %s: completeness of the traversal is not decided" % [fmt(c)[:60] for c, _ in inf["extra"]], F.loc(t["loop"]))
        classes = [inf["class"] for inf in info]
        if None in classes and not ("FWD" in classes and "BWD" in classes):
            pass  # reported per traversal above
        else:
            run.check("R2", "both-directions-present", "FWD" in classes and "BWD" in classes, "a forward traversal from the source and a backward traversal from the target are both needed; found %s" % classes, site)
        vs = [inf["t"]["visited"] for inf in info]
        run.check("R2", "separate-visited-sets", len(set(vs)) == len(vs) and all(v[0] is not None for v in vs), "every traversal needs its own visited set; found %s" % [v[0] for v in vs], site)

    run.guarded("R2", r2)

    def r3():
        f, info, sy, env = analyse()
        t = sy.term(f["body"], {})
        res = S.value(t)
        site = F.loc(f["body"])
        ev_of = {inf["t"]["eset"]: inf["evidence"] for inf in info if inf["t"]["eset"]}

        class Unknown(Exception):
            pass

        def evidence(x):
            """endpoint facts known for every edge produced by the iterator / set term x"""
            x = S.value(x)
            if x[0] == "var":
                if x[1] in ev_of:
                    return set(ev_of[x[1]])
                raise Unknown("set %s" % x[1])
            for inf in info:
                if inf.get("call_term") is not None and inf["call_term"] == x and inf["t"]["eset"]:
                    return set(inf["evidence"])
            if is_call(x, ("iter", "into_iter", "cloned", "copied", "collect", "map")):
                return evidence(x[2][0])
            if is_call(x, "intersection") and len(x[2]) == 2:
                return evidence(x[2][0]) | evidence(x[2][1])
            if is_call(x, ("union", "chain", "symmetric_difference")):
                return evidence(x[2][0]) & evidence(x[2][1])
            if is_call(x, ("filter", "filter_map")) and len(x[2]) == 2 and x[2][1][0] == "closure":
                base = evidence(x[2][0])
                c = F.closure_by_path(x[2][1][1])
                ct = S.value(S.Sym(F).scan(c["body"]).ev(c["body"], dict(env)))
                # keep iff contains(OTHER, e)
                cond = None
                if ct[0] == "ite":
                    then, els = S.value(ct[2]), S.value(ct[3])
                    keep_then = not (then[0] == "adt" and then[2] == "None") and then != ("lit", False)
                    keep_else = not (els[0] == "adt" and els[2] == "None") and els != ("lit", False)
                    if keep_then and not keep_else:
                        cond = (ct[1], True)
                    elif keep_else and not keep_then:
                        cond = (ct[1], False)
                    elif keep_then and keep_else:
                        return base
                elif is_call(ct, "contains") or ct[0] in ("not", "and"):
                    cond = (ct, True)
                elif is_call(ct, "then") and len(ct[2]) == 2:
                    cond = (ct[2][0], True)
                if cond is None:
                    raise Unknown("filter closure %s" % fmt(ct)[:80])
                c0, pol = cond
                while c0[0] == "not":
                    c0, pol = c0[1], not pol
                if c0[0] == "or":
                    return base  # a disjunction does not restrict to the other set
                if is_call(c0, "contains") and pol and c0[2][0][0] == "var":
                    return base | set(ev_of.get(c0[2][0][1], set()))
                if c0[0] == "and" and pol:
                    conj = []

                    def flat(z):
                        z = S.value(z)
                        if z[0] == "and":
                            flat(z[1])
                            flat(z[2])
                        else:
                            conj.append(z)
                    flat(c0)
                    got = set(base)
                    for z in conj:
                        if is_call(z, "contains") and z[2][0][0] == "var" and z[2][0][1] in ev_of:
                            got |= set(ev_of[z[2][0][1]])
                        else:
                            extras.append(z)
                    return got
                raise Unknown("filter condition %s" % fmt(c0)[:80])
            raise Unknown(fmt(x)[:80])

        extras = []
        try:
            ev = evidence(res)
            if extras:
                z = extras[0]
                about_endpoints = any(is_call(y, ("edge_endpoints", "source", "target")) for y in S.subterms(z)) and any(isinstance(y, tuple) and y and y[0] == "var" and y[1] in ("target_node", "source_node", "target", "source") for y in S.subterms(z))
                if about_endpoints:
                    run.violated("R3", "result|no-call-on-a-path-is-dropped", "besides the two membership tests the result is filtered by `%s`: a call whose caller (or callee) is the source/target function itself still lies on a source-to-target path when that function is on a cycle of the call graph (recursion), and is dropped" % fmt(z)[:90], site)
                else:
                    run.undecided("R3", "result|no-call-on-a-path-is-dropped", "additional filter condition %s" % fmt(z)[:90], site)
            else:
                run.holds("R3", "result|no-call-on-a-path-is-dropped", "", site)
            need = {"SRC_FWD", "TGT_BWD"}
            missing = need - ev
            names = {"SRC_FWD": "its caller is reachable from the source function", "TGT_BWD": "its callee reaches the target function"}
            undecided_traversal = any(inf["class"] is None and (None in inf["t"]["nb"] or inf["t"]["start"] is None) for inf in info)
            if missing and undecided_traversal:
                run.undecided("R3", "result|edges-on-source-to-target-paths", "a traversal was not recognised; evidence %s" % sorted(ev), site)
            else:
                run.check("R3", "result|edges-on-source-to-target-paths", not missing, "a call lies on a source-to-target path iff its caller is reachable from the source AND its callee reaches the target; for the returned calls nothing establishes that %s" % " and that ".join(names[m] for m in sorted(missing)), site)
        except Unknown as e:
            run.undecided("R3", "result|edges-on-source-to-target-paths", "result expression outside the vocabulary: %s" % e, site)
        tid = any(x.get("k") == "Field" and x.get("fn") == "tid" for x in T.walk_fn(F, f)) and "Tid" in F.tyi(f["ret"])
        run.check("R3", "mapped-to-call-tid", tid, "each kept edge must be reported as the tid of the call it stands for (edge weight .tid)", site)
        # the public entry point hands over the nodes of the source and of the target function, in that order
        f2 = F.fn("find_call_sequences_to_target", mod="analysis::callgraph")
        ps2 = [p_["p"]["id"] for p_ in f2["params"] if p_.get("p") and p_["p"].get("k") == "Bind"]
        cs = [y for y in T.walk_fn(F, f2) if T.is_call(y, "find_call_sequences_from_node_to_target")]
        if len(cs) != 1 or len(ps2) != 3:
            run.undecided("R3", "entry|source-and-target-not-swapped", "call of find_call_sequences_from_node_to_target not found", F.loc(f2["body"]))
        else:
            roots2 = B.bodies(F, f2)

            def reaches(e):
                got = set()
                for src, how in B.sources(F, roots2, e):
                    for x in B.walk_with_closures(F, src):
                        if x.get("k") in ("Var", "Upvar") and x.get("id") in (ps2[1], ps2[2]):
                            got.add(x["id"])
                return got
            a = cs[0]["a"]
            r1_, r2_ = reaches(a[1]), reaches(a[2])
            if not r1_ or not r2_:
                run.undecided("R3", "entry|source-and-target-not-swapped", "origin of the node arguments not recognised", F.loc(f2["body"]))
            else:
                run.check("R3", "entry|source-and-target-not-swapped", r1_ == {ps2[1]} and r2_ == {ps2[2]}, "the public query must pass the node of the SOURCE function as source and the node of the TARGET function as target", F.loc(f2["body"]))

    run.guarded("R3", r3)
