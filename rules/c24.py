"""C24 Call-sequence queries return exactly the calls on source-to-target paths.

 R1 graph construction: one node per key of `subs`; an edge for every Jmp::Call whose target
    is a key of `subs` (loops over all subs x blocks x jumps, no early exit / extra filter);
    edges are added with add_edge (two calls to the same callee are two edges)
 R2 traversals: a traversal never follows neighbours in one direction and collects edges in
    the other (contradiction rule); a traversal is either forward from the source or
    backward from the target; a node is expanded only when newly inserted into its own
    visited set
 R3 evidence for the result: every returned call must be known to have its caller reachable
    from the source (edge collected as outgoing edge of a forward-visited node, or tested for
    membership in such a set) AND its callee reaching the target (incoming edge of a
    backward-visited node / membership); the call's tid is reported
"""
from .lib import sym as S
from .lib import thir as T
from .lib.sym import fmt


def is_call(t, name=None):
    return isinstance(t, tuple) and t and t[0] == "call" and (name is None or t[1] == name or (isinstance(name, (set, tuple, frozenset)) and t[1] in name))


def run(run):
    F = run.facts()
    run.explanation = (
        "Static construction/direction analysis of analysis::callgraph: loop shape and edge condition of get_program_callgraph; for "
        "each of the two worklist traversals the Direction constants passed to neighbors_directed and edges_directed (resolved enum "
        "variants) are compared with each other and with the start node; the result expression is normalised to (iterated set, "
        "membership test, mapping). Decides construction and direction agreement, not exactness on a given graph.")
    run.rule("R1", "call graph has every function as node and every direct internal call as its own edge")
    run.rule("R2", "each traversal follows and collects in one direction; forward from the source, backward from the target; expand on first visit")
    run.rule("R3", "result = edges in both sets, mapped to the tid of the call")

    def r1():
        f = F.fn("get_program_callgraph", mod="analysis::callgraph")
        sy = S.Sym(F)
        env = {}
        t = sy.term(f["body"], env)
        site = F.loc(f["body"])
        fors = [x for x in S.subterms(t) if isinstance(x, tuple) and x and x[0] == "for"]
        node_loop = [x for x in fors if any(is_call(y, "add_node") for y in S.subterms(x[3]))]
        ok = len(node_loop) == 1 and is_call(node_loop[0][2], ("keys", "values", "iter")) and any(isinstance(y, tuple) and y and y[0] == "field" and y[2] == "subs" for y in S.subterms(node_loop[0][2])) and not any(is_call(y, ("filter", "take", "skip", "step_by", "filter_map")) for y in S.subterms(node_loop[0][2]))
        run.check("R1", "nodes|one-per-function", ok, "every function (key of subs) must become a node of the call graph", site)
        exits = [n for n in T.walk(f["body"]) if n.get("k") in ("Break", "Continue", "Return") and n.get("ds") != "ForLoop"]
        over = [y[2] for x in fors for y in S.subterms(x[2]) if isinstance(y, tuple) and y and y[0] == "field" and y[2] in ("subs", "blocks", "jmps")]
        adapt = [y[1] for x in fors for y in S.subterms(x[2]) if is_call(y, ("filter", "take", "skip", "step_by", "filter_map", "rev", "take_while", "skip_while"))]
        run.check("R1", "edges|all-subs-blocks-jumps", {"subs", "blocks", "jmps"} <= set(over) and not exits and not adapt, "the edge construction must visit every jump of every block of every function (loops over %s, adaptors %s, exits %d)" % (over, adapt, len(exits)), site)
        adds = T.paths_to(f["body"], lambda x: T.is_call(x, ("add_edge", "update_edge")))
        if len(adds) != 1:
            run.violated("R1", "edges|single-construction-site", "expected one edge construction site, found %d" % len(adds), site)
            return
        n, conds = adds[0]
        run.check("R1", "edges|parallel-calls-kept", n["n"] == "add_edge", "two calls from f to g are two calls: edges must be added with add_edge (update_edge merges them)", F.loc(n))
        callpat = member = False
        others = []
        for cd in conds:
            if cd[0] == "if":
                c = sy.ev(cd[1], env)
                if c[0] == "let" and cd[2] and c[1].startswith("Call{"):
                    callpat = T.pat_variant_names(cd[1]["p"]) == {"Call"}
                elif c[0] == "let" and cd[2] and c[1].startswith("Some") and is_call(S.value(c[2]), "get") and any(isinstance(y, tuple) and y and y[0] == "field" and y[2] == "Call.target" for y in S.subterms(c[2])):
                    member = True
                else:
                    others.append(fmt(c)[:80])
        run.check("R1", "edges|iff-direct-call-to-internal-function", callpat and member and not others, "an edge exists iff the jump is a direct call whose target is a function of the program (self-calls included); extra conditions %s" % others, F.loc(n))
        a = [sy.ev(x, env) for x in n["a"]]
        src_ok = any(isinstance(y, tuple) and y and y[0] == "field" and y[2] == "tid" and y[1][0] == "elem" for y in S.subterms(a[1]))
        tgt_ok = any(isinstance(y, tuple) and y and y[0] == "field" and y[2] == "Call.target" for y in S.subterms(a[2]))
        w_ok = a[3][0] == "elem" or any(isinstance(y, tuple) and y and y[0] == "elem" for y in S.subterms(a[3]))
        run.check("R1", "edges|from-caller-to-callee", src_ok and tgt_ok and w_ok, "the edge must lead from the calling function's node to the callee's node and carry the call; found (%s -> %s)" % (fmt(a[1])[:60], fmt(a[2])[:60]), F.loc(n))

    run.guarded("R1", r1)

    def traversals(f):
        """[(start term, visited-set name, dir of neighbors, dir of edges, guarded?, edge-set name)] in source order"""
        sy = S.Sym(F)
        env = {}
        sy.term(f["body"], env)
        out = []
        loops = [n for n in T.walk(f["body"]) if n.get("k") == "Loop"]
        for lp in loops:
            nb = [c for c in T.calls(lp, name="neighbors_directed")] + [c for c in T.calls(lp, name="neighbors")]
            ed = [c for c in T.calls(lp, name="edges_directed")] + [c for c in T.calls(lp, name="edges")]
            if not nb and not ed:
                continue

            def dir_of(c):
                if c["n"] in ("neighbors", "edges"):
                    return "Outgoing"
                d = T.peel(c["a"][2])
                return d.get("v") if d.get("k") == "Adt" else None
            # the popped stack and its initialisation
            pops = [c for c in T.calls(lp, name="pop")]
            stack_id = T.root_var_id(pops[0]["a"][0]) if pops else None
            start = None
            for n in T.walk(f["body"]):
                if n.get("k") == "LetStmt" and "i" in n and T.pat_peel(n["p"]).get("k") == "Bind" and T.pat_peel(n["p"])["id"] == stack_id:
                    start = sy.ev(n["i"], env)
            # guard: insert into visited as the condition of expansion
            guarded = False
            visited = None
            for x, conds in T.paths_to(lp, lambda y: T.is_call(y, "push")):
                for cd in conds:
                    if cd[0] == "if":
                        lits = []

                        def flat(c, pol):
                            if c[0] == "and" and pol:
                                flat(c[1], True); flat(c[2], True)
                            elif c[0] == "or" and not pol:
                                flat(c[1], False); flat(c[2], False)
                            elif c[0] == "not":
                                flat(c[1], not pol)
                            else:
                                lits.append((c, pol))
                        flat(sy.ev(cd[1], env), cd[2])
                        for c, pol in lits:
                            if is_call(c, "insert") and pol:
                                guarded = True
                                visited = fmt(c[2][0])
                            if is_call(c, "contains") and not pol and visited is None:
                                guarded = True
                                visited = fmt(c[2][0])
            esets = [T.show(c["a"][0]).replace("&mut ", "") for c in T.calls(lp, name="insert") if any(T.is_call(y, "id") for y in T.walk(c))]
            out.append({"start": start, "nb": [dir_of(c) for c in nb], "ed": [dir_of(c) for c in ed], "guarded": guarded, "visited": visited, "eset": esets[0] if esets else None, "loop": lp})
        return out

    def analyse():
        """evidence analysis: which endpoint facts are known for the edges in each edge set"""
        f = F.fn("find_call_sequences_from_node_to_target", mod="analysis::callgraph")
        tr = traversals(f)
        sy = S.Sym(F)
        env = {}
        sy.term(f["body"], env)
        info = []
        for t in tr:
            st = fmt(t["start"]) if t["start"] else ""
            start = "source" if ("source_node" in st and "target_node" not in st) else "target" if ("target_node" in st and "source_node" not in st) else None
            nbd = set(t["nb"])
            cls = None
            if len(nbd) == 1:
                d = next(iter(nbd))
                if start == "source" and d == "Outgoing":
                    cls = "FWD"
                elif start == "target" and d == "Incoming":
                    cls = "BWD"
            # extra conditions on the expansion besides the visited-set insert
            extra = []
            for x, conds in T.paths_to(t["loop"], lambda y: T.is_call(y, "push")):
                for cd in conds:
                    if cd[0] == "if":
                        c = sy.ev(cd[1], env)
                        def flat(c, pol, out):
                            if c[0] == "and" and pol:
                                flat(c[1], True, out); flat(c[2], True, out)
                            elif c[0] == "not":
                                flat(c[1], not pol, out)
                            else:
                                out.append((c, pol))
                        lits = []
                        flat(c, cd[2], lits)
                        for l, pol in lits:
                            if is_call(l, "insert") and pol:
                                continue
                            if l[0] == "let" and is_call(l[2], "pop"):
                                continue
                            extra.append((l, pol))
            ev = set()
            edirs = set(t["ed"])
            if t["eset"] and len(edirs) == 1 and cls is not None:
                d = next(iter(edirs))
                if cls == "FWD" and d == "Outgoing":
                    ev.add("SRC_FWD")
                if cls == "BWD" and d == "Incoming":
                    ev.add("TGT_BWD")
            info.append({"t": t, "class": cls, "start": start, "extra": extra, "evidence": ev})
        return f, tr, info, sy, env

    def r2():
        f, tr, info, sy, env = analyse()
        site = F.loc(f["body"])
        if not tr:
            run.undecided("R2", "traversals", "no worklist traversal recognised", site)
            return
        for i, (t, inf) in enumerate(zip(tr, info)):
            if t["nb"] and t["ed"]:
                ds = set(t["nb"]) | set(t["ed"])
                run.check("R2", "traversal%d|one-direction" % i, len(ds) == 1 and None not in ds, "a traversal follows neighbours in direction %s but collects edges in direction %s (contradiction)" % (t["nb"], t["ed"]), F.loc(t["loop"]))
            run.check("R2", "traversal%d|expand-on-first-visit" % i, t["guarded"], "a node must be expanded only when it is newly inserted into the visited set (termination on cycles, and every reachable node expanded once)", F.loc(t["loop"]))
            if inf["class"] is None:
                run.violated("R2", "traversal%d|start-and-direction" % i, "a traversal starting at the %s node and following %s neighbours computes neither the nodes reachable from the source nor the nodes that reach the target" % (inf["start"], t["nb"]), F.loc(t["loop"]))
            else:
                run.holds("R2", "traversal%d|start-and-direction" % i, "%s" % inf["class"], F.loc(t["loop"]))
            if inf["extra"]:
                run.undecided("R2", "traversal%d|complete" % i, "the expansion is restricted by extra conditions %s: completeness of the traversal is not decided" % [fmt(c)[:60] for c, _ in inf["extra"]], F.loc(t["loop"]))
        classes = [inf["class"] for inf in info]
        run.check("R2", "both-directions-present", "FWD" in classes and "BWD" in classes, "a forward traversal from the source and a backward traversal from the target are both needed; found %s" % classes, site)
        vs = [t["visited"] for t in tr]
        run.check("R2", "separate-visited-sets", len(set(vs)) == len(vs) and None not in vs, "every traversal needs its own visited set; found %s" % vs, site)

    run.guarded("R2", r2)

    def r3():
        f, tr, info, sy, env = analyse()
        t = sy.term(f["body"], {})
        res = S.value(t)
        site = F.loc(f["body"])
        ev_of = {inf["t"]["eset"]: inf["evidence"] for inf in info if inf["t"]["eset"]}

        class Unknown(Exception):
            pass

        def evidence(x):
            """endpoint facts known for every edge produced by the iterator / set term x"""
            x = S.value(x)
            if x[0] == "var":
                if x[1] in ev_of:
                    return set(ev_of[x[1]])
                raise Unknown("set %s" % x[1])
            if is_call(x, ("iter", "into_iter", "cloned", "copied", "collect", "map")):
                return evidence(x[2][0])
            if is_call(x, "intersection") and len(x[2]) == 2:
                return evidence(x[2][0]) | evidence(x[2][1])
            if is_call(x, ("union", "chain", "symmetric_difference")):
                return evidence(x[2][0]) & evidence(x[2][1])
            if is_call(x, ("filter", "filter_map")) and len(x[2]) == 2 and x[2][1][0] == "closure":
                base = evidence(x[2][0])
                c = F.closure_by_path(x[2][1][1])
                ct = S.value(S.Sym(F).scan(c["body"]).ev(c["body"], dict(env)))
                # keep iff contains(OTHER, e)
                cond = None
                if ct[0] == "ite":
                    then, els = S.value(ct[2]), S.value(ct[3])
                    keep_then = not (then[0] == "adt" and then[2] == "None") and then != ("lit", False)
                    keep_else = not (els[0] == "adt" and els[2] == "None") and els != ("lit", False)
                    if keep_then and not keep_else:
                        cond = (ct[1], True)
                    elif keep_else and not keep_then:
                        cond = (ct[1], False)
                    elif keep_then and keep_else:
                        return base
                elif is_call(ct, "contains") or ct[0] in ("not", "and"):
                    cond = (ct, True)
                if cond is None:
                    raise Unknown("filter closure %s" % fmt(ct)[:80])
                c0, pol = cond
                while c0[0] == "not":
                    c0, pol = c0[1], not pol
                if c0[0] == "or":
                    return base  # a disjunction does not restrict to the other set
                if is_call(c0, "contains") and pol and c0[2][0][0] == "var":
                    return base | set(ev_of.get(c0[2][0][1], set()))
                if c0[0] == "and" and pol:
                    conj = []

                    def flat(z):
                        z = S.value(z)
                        if z[0] == "and":
                            flat(z[1])
                            flat(z[2])
                        else:
                            conj.append(z)
                    flat(c0)
                    got = set(base)
                    for z in conj:
                        if is_call(z, "contains") and z[2][0][0] == "var" and z[2][0][1] in ev_of:
                            got |= set(ev_of[z[2][0][1]])
                        else:
                            extras.append(z)
                    return got
                raise Unknown("filter condition %s" % fmt(c0)[:80])
            raise Unknown(fmt(x)[:80])

        extras = []
        try:
            ev = evidence(res)
            if extras:
                z = extras[0]
                about_endpoints = any(is_call(y, ("edge_endpoints", "source", "target")) for y in S.subterms(z)) and any(isinstance(y, tuple) and y and y[0] == "var" and y[1] in ("target_node", "source_node", "target", "source") for y in S.subterms(z))
                if about_endpoints:
                    run.violated("R3", "result|no-call-on-a-path-is-dropped", "besides the two membership tests the result is filtered by `%s`: a call whose caller (or callee) is the source/target function itself still lies on a source-to-target path when that function is on a cycle of the call graph (recursion), and is dropped" % fmt(z)[:90], site)
                else:
                    run.undecided("R3", "result|no-call-on-a-path-is-dropped", "additional filter condition %s" % fmt(z)[:90], site)
            else:
                run.holds("R3", "result|no-call-on-a-path-is-dropped", "", site)
            need = {"SRC_FWD", "TGT_BWD"}
            missing = need - ev
            names = {"SRC_FWD": "its caller is reachable from the source function", "TGT_BWD": "its callee reaches the target function"}
            run.check("R3", "result|edges-on-source-to-target-paths", not missing, "a call lies on a source-to-target path iff its caller is reachable from the source AND its callee reaches the target; for the returned calls nothing establishes that %s" % " and that ".join(names[m] for m in sorted(missing)), site)
        except Unknown as e:
            run.undecided("R3", "result|edges-on-source-to-target-paths", "result expression outside the vocabulary: %s" % e, site)
        tid = any(isinstance(z, tuple) and z and z[0] == "field" and z[2] == "tid" for c in F.closures(f) for z in S.subterms(S.Sym(F).term(c["body"]))) and "Tid" in F.tyi(f["ret"])
        run.check("R3", "mapped-to-call-tid", tid, "each kept edge must be reported as the tid of the call it stands for (edge weight .tid)", site)
        f2 = F.fn("find_call_sequences_to_target", mod="analysis::callgraph")
        t2 = S.Sym(F).term(f2["body"])
        cs = [y for y in S.subterms(t2) if is_call(y, "find_call_sequences_from_node_to_target")]
        ok = False
        if cs:
            a = cs[0][2]
            src_cl = [z for z in S.subterms(a[1]) if isinstance(z, tuple) and z and z[0] == "closure"]
            tgt_cl = [z for z in S.subterms(a[2]) if isinstance(z, tuple) and z and z[0] == "closure"]
            ok = bool(src_cl) and bool(tgt_cl) and any(u[0] == "var" and u[1] == "source_sub_tid" for u in src_cl[0][2]) and any(u[0] == "var" and u[1] == "target_sub_tid" for u in tgt_cl[0][2])
        run.check("R3", "entry|source-and-target-not-swapped", ok, "the public query must pass the node of the SOURCE function as source and the node of the TARGET function as target", F.loc(f2["body"]))

    run.guarded("R3", r3)
