"""C20 Format-string parsing yields the arguments the format consumes -- grammar/table agreement.

The regex literal is read from the THIR of parse_format_string_parameters, parsed with the
repository's own regex-syntax crate (tools/regexlang) and analysed as a grammar:
 R1 writer/reader tables agree: language of capture group 1  <->  string table of
    `impl From<String> for Datatype` (no specifier reaches the panic arm, no table entry is
    unreachable), every producible Datatype has a size arm, every producible non-rejected
    Datatype is handled by calculate_parameter_locations without panic
 R2 long forms: the longest length form wins (leftmost-first alternation has no alternative
    that is a proper prefix of a later one); Long/LongLong/LongDouble are rejected, and every captured
    specifier that IS a long / long long / long double conversion by the C grammar reaches one of them
    (through the effective table: a specifier normalised before the lookup is looked up normalised)
 R3 `%%` is an escape: matching "%%<conv>" must not produce a parameter, and the consumer
    must tolerate a match without group 1
 R4 char promotion: Char is sized as Integer
 R5 per-token parse: for every conversion token of the supported grammar (one optional
    flag, optional width, optional precision, conversion) the regex matches the whole
    token and captures exactly the conversion/length form
"""
import itertools
import json
import os
import subprocess

from .lib import factsrc
from .lib import sym as S
from .lib import thir as T
from .lib.sym import fmt

HELPER = os.path.join(factsrc.VERIF, "tools", "regexlang", "target", "release", "regexlang")


def ensure_helper():
    if os.path.exists(HELPER):
        return
    d = os.path.join(factsrc.VERIF, "tools", "regexlang")
    if os.path.exists("/repo/Cargo.lock"):
        import shutil
        shutil.copy("/repo/Cargo.lock", os.path.join(d, "Cargo.lock"))
    env = dict(os.environ, CARGO_NET_OFFLINE="true")
    r = subprocess.run(["cargo", "build", "--release", "--offline"], cwd=d, env=env, stdout=subprocess.PIPE, stderr=subprocess.STDOUT, text=True)
    if r.returncode != 0:
        raise factsrc.FactError("regexlang helper does not build:\n" + r.stdout[-3000:])


def parse_regex(pat):
    ensure_helper()
    out = subprocess.check_output([HELPER, pat], text=True)
    return json.loads(out)


# ---- a leftmost-first backtracking matcher over the HIR (same match semantics as the regex crate)
class Unsupported(Exception):
    pass


def match_at(h, s, i, caps, k):
    """Try to match h at s[i:], calling continuation k(j, caps) -> result or None; first success wins."""
    kind = h["k"]
    if kind == "empty":
        return k(i, caps)
    if kind == "lit":
        lit = h["s"]
        if s.startswith(lit, i):
            return k(i + len(lit), caps)
        return None
    if kind == "class":
        if i < len(s) and any(lo <= ord(s[i]) <= hi for lo, hi in h["r"]):
            return k(i + 1, caps)
        return None
    if kind == "cat":
        subs = h["subs"]

        def go(n, j, c):
            if n == len(subs):
                return k(j, c)
            return match_at(subs[n], s, j, c, lambda j2, c2: go(n + 1, j2, c2))
        return go(0, i, caps)
    if kind == "alt":
        for sub in h["subs"]:
            r = match_at(sub, s, i, caps, k)
            if r is not None:
                return r
        return None
    if kind == "cap":
        idx = h["i"]
        return match_at(h["sub"], s, i, caps, lambda j, c: k(j, dict(c, **{str(idx): (i, j)})))
    if kind == "rep":
        mn, mx, greedy, sub = h["min"], h["max"], h["greedy"], h["sub"]

        def rep(count, j, c):
            can_more = mx is None or count < mx
            def more():
                if not can_more:
                    return None
                return match_at(sub, s, j, c, lambda j2, c2: rep(count + 1, j2, c2) if j2 > j else None)
            def stop():
                return k(j, c) if count >= mn else None
            if greedy:
                r = more()
                return r if r is not None else stop()
            r = stop()
            return r if r is not None else more()
        return rep(0, i, caps)
    raise Unsupported(kind)


def find_iter(h, s):
    """[(start, end, caps)] non-overlapping leftmost-first matches"""
    out = []
    i = 0
    while i <= len(s):
        r = match_at(h, s, i, {}, lambda j, c: (j, c))
        if r is None:
            i += 1
            continue
        j, c = r
        out.append((i, j, c))
        i = j if j > i else i + 1
    return out


def language(h, limit=2000):
    """finite language of a sub-HIR as a list of strings (in priority order), or None"""
    kind = h["k"]
    if kind == "empty":
        return [""]
    if kind == "lit":
        return [h["s"]]
    if kind == "class":
        n = sum(hi - lo + 1 for lo, hi in h["r"])
        if n > 200:
            return None
        return [chr(c) for lo, hi in h["r"] for c in range(lo, hi + 1)]
    if kind == "cap":
        return language(h["sub"], limit)
    if kind == "alt":
        out = []
        for sub in h["subs"]:
            l = language(sub, limit)
            if l is None:
                return None
            out += l
        return out if len(out) <= limit else None
    if kind == "cat":
        out = [""]
        for sub in h["subs"]:
            l = language(sub, limit)
            if l is None:
                return None
            out = [a + b for a in out for b in l]
            if len(out) > limit:
                return None
        return out
    if kind == "rep":
        if h["max"] is None or h["max"] > 3:
            return None
        l = language(h["sub"], limit)
        if l is None:
            return None
        out = []
        for n in range(h["min"], h["max"] + 1):
            out += ["".join(p) for p in itertools.product(l, repeat=n)]
        return out
    return None


def find_cap(h, idx):
    if h["k"] == "cap" and h["i"] == idx:
        return h
    for sub in h.get("subs", []) + ([h["sub"]] if "sub" in h else []):
        r = find_cap(sub, idx)
        if r is not None:
            return r
    return None


def is_call(t, name=None):
    return isinstance(t, tuple) and t and t[0] == "call" and (name is None or t[1] == name or (isinstance(name, (set, tuple, frozenset)) and t[1] in name))


def run(run):
    F = run.facts()
    run.explanation = (
        "The format-specifier regex literal is read from the THIR of parse_format_string_parameters, parsed with the repository's "
        "regex-syntax crate, and analysed as a grammar: the finite language of capture group 1 is compared with the string table of "
        "`impl From<String> for Datatype`, the size table and the parameter-location table; a leftmost-first matcher over the regex "
        "HIR decides, per conversion token of the supported grammar and for the `%%` escape, what the pattern captures. Decides "
        "agreement of the grammar and the tables, not register/stack placement of the parameters.")
    run.assumptions = ["the regex crate implements leftmost-first match semantics for the HIR produced by regex-syntax (documented behaviour)",
                       "C conversion grammar: %[flag][width][.precision](length)conversion; `%%` consumes no argument"]
    run.rule("R1", "capture-group language <-> Datatype::from string table <-> size table <-> parameter-location table")
    run.rule("R2", "longest length form wins in the alternation; long/long long/long double are rejected")
    run.rule("R3", "`%%` is consumed as an escape and yields no parameter; consumer tolerates matches without group 1")
    run.rule("R4", "char arguments are sized as int (default argument promotion)")
    run.rule("R5", "every conversion token of the supported grammar is matched whole and captures exactly its conversion/length form")

    f_parse = F.fn("parse_format_string_parameters", mod="utils::arguments")
    f_from = F.fn("from", adt="Datatype", trait="From")
    f_size = F.fn("get_size_from_data_type", adt="DatatypeProperties")
    f_loc = F.fn("calculate_parameter_locations", mod="utils::arguments")
    dt = F.adt("intermediate_representation::Datatype")
    DV = F.variants(dt)

    # regex literal
    pats = []
    for n in T.walk_deep(F, f_parse["body"], 2):
        if T.is_call(n, "new") and "Regex" in n["f"] and n["a"]:
            a = T.peel(n["a"][0])
            if a.get("k") == "Lit" and a.get("lt") == "str":
                pats.append((a["v"], n))
    if len(pats) != 1:
        raise T.AnchorMissing("expected exactly one Regex::new(<literal>) in parse_format_string_parameters, found %d" % len(pats))
    pattern, pnode = pats[0]
    psite = F.loc(pnode)
    parsed = parse_regex(pattern)
    if not parsed.get("ok"):
        run.violated("R1", "regex|parses", "the format regex does not parse: %s" % parsed.get("err"), psite)
        return
    hir = parsed["hir"]
    cap1 = find_cap(hir, 1)
    if cap1 is None:
        run.violated("R1", "regex|group1", "the format regex has no capture group 1", psite)
        return
    L1 = language(cap1)
    if L1 is None:
        run.undecided("R1", "regex|group1-language", "language of capture group 1 is not finite/small", psite)
        return
    L1set = set(L1)

    # Datatype::from table
    ms = [m for m in T.find_matches(f_from["body"]) if any(q.get("k") == "Const" and q.get("lt") == "str" for a in m["arms"] for q in T.pat_alternatives(a["p"]))]
    table_known = bool(ms)
    if not ms:
        run.undecided("R1", "from-table", "Datatype::from is not a match over string constants: the specifier table is not extracted, the rule instances that compare it with the regex are not decided", F.loc(f_from["body"]))
    table = {}
    has_panic_default = False
    for arm in (ms[0]["arms"] if ms else []):
        body = T.peel(arm["b"])
        produces = None
        for n in T.walk(arm["b"]):
            if n.get("k") == "Adt" and n["adt"].endswith("Datatype"):
                produces = n["v"]
        panics = any(T.is_call(n) and ("panic" in n["f"] or n["n"] in ("panic_fmt", "panic", "unreachable", "begin_panic")) for n in T.walk(arm["b"]))
        for q in T.pat_alternatives(arm["p"]):
            if q.get("k") == "Const" and q.get("lt") == "str":
                table[q["v"]] = "PANIC" if (panics or produces is None) else produces
            elif q.get("k") in ("Wild", "Bind"):
                has_panic_default = panics
    # the scrutinee may be normalised before the table lookup (e.g. specifier.to_ascii_lowercase()): the EFFECTIVE table maps
    # a captured specifier s to table[norm(s)]
    norm_calls = [n["n"] for n in T.walk(ms[0]["e"]) if T.is_call(n, ("to_ascii_lowercase", "to_lowercase", "to_ascii_uppercase", "to_uppercase"))] if ms else []
    for n in (T.walk(f_from["body"]) if ms else []):
        if n.get("k") == "LetStmt" and "i" in n and any(y.get("k") in ("Var",) and y.get("id") in {b[0] for b in T.pat_bindings(n["p"])} for y in T.walk(ms[0]["e"])):
            norm_calls += [c["n"] for c in T.walk(n["i"]) if T.is_call(c, ("to_ascii_lowercase", "to_lowercase", "to_ascii_uppercase", "to_uppercase"))]
    if any("lower" in c for c in norm_calls):
        norm = lambda x: x.lower()
    elif any("upper" in c for c in norm_calls):
        norm = lambda x: x.upper()
    else:
        norm = lambda x: x
    eff = lambda x: table.get(norm(x))
    # the effective-table model is exact only if the table lookup is all the function does
    other_control = [n for n in T.walk(f_from["body"]) if n.get("k") in ("If", "Return") or (n.get("k") == "Match" and ms and n is not ms[0])]
    model_exact = not other_control and table_known
    # the floor counts the specifiers the table effectively serves, not the number of string literals (arms may be folded)
    if table_known:
        run.floor("specifiers served by Datatype::from", len({x for x in L1set if eff(x) is not None}), 40)

    def r1():
        if not table_known:
            return
        for s in sorted(L1set):
            key = "group1->from|%s" % s
            if eff(s) is None and not model_exact:
                run.undecided("R1", key, "Datatype::from does more than one table lookup", psite)
            elif eff(s) is None:
                run.check("R1", key, not has_panic_default, "the regex captures `%s` but Datatype::from has no arm for it (falls into the panic arm)" % s, psite)
            else:
                run.check("R1", key, eff(s) != "PANIC", "the regex captures `%s`, whose Datatype::from arm panics" % s, psite)
        served = {norm(x) for x in L1set}
        for s in sorted(table):
            key = "from->group1|%s" % s
            if s not in served and not model_exact:
                run.undecided("R1", key, "Datatype::from does more than one table lookup", F.loc(f_from["body"]))
                continue
            run.check("R1", key, s in served, "Datatype::from knows specifier `%s` but no captured specifier reaches it: a `%%%s` conversion is skipped or mis-parsed (its argument is not counted), or the arm is dead because the specifier is normalised before the lookup" % (s, s), F.loc(f_from["body"]))
        producible = {eff(s) for s in L1set if eff(s) is not None and eff(s) != "PANIC"}
        # size table
        msz = T.find_matches(f_size["body"], adt_suffix="Datatype")
        if not msz:
            raise T.AnchorMissing("no match over Datatype in get_size_from_data_type")
        for v in sorted(producible):
            arms = T.arms_for_variant(msz[0], v)
            panics = (not arms) or any(T.is_call(n) and "panic" in n["f"] for n in T.walk(arms[0]["b"]))
            run.check("R1", "size-table|%s" % v, not panics, "Datatype::%s can be produced by the parser but has no (non-panicking) size arm" % v, F.loc(f_size["body"]))
        # rejected set
        rejected, _ = rejected_set()
        mloc = T.find_matches(f_loc["body"], adt_suffix="Datatype")
        if not mloc:
            raise T.AnchorMissing("no match over Datatype in calculate_parameter_locations")
        for v in sorted(producible - rejected):
            arms = T.arms_for_variant(mloc[0], v)
            panics = (not arms) or any(T.is_call(n) and ("panic" in n["f"] or "unreachable" in n["f"]) for n in T.walk(arms[0]["b"]) if n.get("x"))
            # a panic!() is a macro expansion; real work (push) in the arm means it is handled
            pushes = arms and any(T.is_call(n, "push") for n in T.walk(arms[0]["b"]))
            run.check("R1", "location-table|%s" % v, bool(pushes) and not (panics and not pushes), "Datatype::%s is producible and not rejected, but calculate_parameter_locations has no handling arm (it panics)" % v, F.loc(f_loc["body"]))

    def rejected_set():
        """data types V for which some `return Err(..)` of the parser is taken when the parsed data type is V: every condition
        on the way to an Err return is evaluated (through local bindings, predicate helpers and `any(|..| pred)`) with all
        Datatype-typed values specialised to V"""
        from .lib import peval as PE
        from .lib import bindsrc as B
        rej = set()
        bodies_ = [f_parse] + F.closures(f_parse)
        roots = [b["body"] for b in bodies_]
        errs = []
        for b in bodies_:
            for n, conds in T.paths_to(b["body"], lambda y: y.get("k") == "Return" and y.get("e") is not None and PE.result_kind(y["e"]) == "Err" and not y.get("x")):
                errs.append((n, conds))
        for v in DV:
            def assume(n, v=v):
                k = n.get("k")
                ty = (F.ty(n) or "").replace("&", "").strip()
                if ty.endswith("Datatype") and k in ("Var", "Upvar", "Deref", "Field", "Call"):
                    return ("enum", v)
                return None
            spec = PE.Spec(F, assume=assume)
            # a body (the parser or a closure that maps one specifier to a Result) whose every result is Err for this type
            for b in bodies_:
                if "result::Result" not in (F.tyi(b["ret"]) if isinstance(b.get("ret"), int) else (F.ty(b["body"]) or "")):
                    continue
                res_, _n = PE.Spec(F, assume=assume).results(b["body"], {})
                kinds_ = [PE.result_kind(r) for r in res_]
                if kinds_ and all(k_ == "Err" for k_ in kinds_):
                    rej.add(v)
            for n, conds in errs:
                for cd in conds:
                    if cd[0] != "if":
                        continue
                    for src, how in B.sources(F, roots, cd[1]):
                        c = spec.cev(src, {})
                        if c == ("bool", cd[2]):
                            rej.add(v)
        return rej, bool(errs) or bool(rej)

    run.guarded("R1", r1)

    def r2():
        rejected, has_err = rejected_set()
        for v in ("Long", "LongLong", "LongDouble"):
            run.check("R2", "rejected|%s" % v, v in rejected, "format strings with %s conversions must be rejected (Err), found rejected set %s" % (v, sorted(rejected)), F.loc(f_parse["body"]))
        # the long forms of the C conversion grammar must reach a rejected data type: `L` + floating conversion is a long double,
        # `ll` / `l` + integer conversion a long long / long (`l` + floating conversion is a plain double)
        FLOATC, INTC = set("aAeEfFgG"), set("diuoxX")
        for sp in sorted(L1set):
            cls = None
            if sp.startswith("L") and sp[1:] and set(sp[1:]) <= FLOATC and len(sp) == 2:
                cls = "long double"
            elif sp.startswith("ll") and len(sp) == 3 and sp[2] in INTC:
                cls = "long long"
            elif sp.startswith("l") and len(sp) == 2 and sp[1] in INTC:
                cls = "long"
            if cls is None:
                continue
            dt = eff(sp)
            if not model_exact and dt not in rejected:
                run.undecided("R2", "long-form|%s" % sp, "Datatype::from does more than one table lookup; the effective mapping of `%s` is not modelled" % sp, F.loc(f_from["body"]))
                continue
            run.check("R2", "long-form|%s" % sp, dt in rejected, "`%%%s` is a %s conversion and must be rejected; Datatype::from maps it to %s%s, which is accepted and sized as such (the variadic argument list is mis-parsed)" % (sp, cls, dt, " (after normalising the specifier to `%s`)" % norm(sp) if norm(sp) != sp else ""), F.loc(f_from["body"]))
        # the rejection leads to Err by construction of the rejected set (conditions of `return Err(..)` sites)
        run.check("R2", "rejected|yields-Err", has_err and bool(rejected), "a format string containing a rejected data type must make parse_format_string_parameters return Err", F.loc(f_parse["body"]))
        # longest form wins: in priority order no earlier string is a proper prefix of a later one
        bad = []
        for i, a in enumerate(L1):
            for b in L1[i + 1:]:
                if b != a and b.startswith(a):
                    bad.append((a, b))
        run.check("R2", "alternation|longest-form-first", not bad, "leftmost-first alternation: `%s` is tried before its extension `%s`, so the longer length form can never be captured" % (bad[0] if bad else ("", "")), psite)

    run.guarded("R2", r2)

    CONVS = sorted(table) if table_known else sorted(L1set)

    def params_of(s):
        """what the regex + consumer make of string s: list of captured group-1 strings (None if group unset)"""
        out = []
        for st, en, caps in find_iter(hir, s):
            if "1" in caps:
                a, b = caps["1"]
                out.append(s[a:b])
            else:
                out.append(None)
        return out

    def r3():
        probes = ["%%d", "%%s", "100%%d done", "%%%d", "%%ld"]
        expect = {"%%d": [], "%%s": [], "100%%d done": [], "%%%d": ["d"], "%%ld": []}
        tolerant = consumer_tolerates_missing_group()
        for p in probes:
            try:
                got = params_of(p)
            except Unsupported as e:
                run.undecided("R3", "escape|%s" % p, "regex uses an unsupported construct: %s" % e, psite)
                continue
            if None in got and not tolerant:
                run.violated("R3", "escape|%s" % p, "the regex matches a part of `%s` without capture group 1, but the consumer indexes cap[1] unconditionally (panics)" % p, psite)
                continue
            got2 = [g for g in got if g is not None]
            run.check("R3", "escape|%s" % p, got2 == expect[p], "format `%s` consumes %d argument(s) %s, but the parser extracts %s (a `%%%%` escape must not start a conversion)" % (p, len(expect[p]), expect[p], got2), psite)

    def consumer_tolerates_missing_group():
        # the closure over captures must not use Index::index(cap, 1) unconditionally
        for n in T.walk_deep(F, f_parse["body"], 2):
            if T.is_call(n, "index") and "Captures" in (n.get("r", "") + n.get("f", "") + " ".join(n.get("ga", []))):
                return False
        return True

    run.guarded("R3", r3)

    def r4():
        from .lib import peval as PE
        # which size is looked up when the parsed data type is Char? (specialisation; helper functions are followed)
        hits = {"n": 0}

        def assume(n):
            k = n.get("k")
            ty = (F.ty(n) or "").replace("&", "").strip()
            if ty.endswith("Datatype") and k in ("Var", "Upvar", "Deref", "Field", "Call"):
                hits["n"] += 1
                return ("enum", "Char")
            return None
        spec = PE.Spec(F, assume=assume, follow_calls=True)
        sized = []
        for b in [f_parse] + F.closures(f_parse):
            for x in spec.reach(b["body"], {}):
                if T.is_call(x, "get_size_from_data_type") and len(x["a"]) == 2:
                    sized.append((x, spec.cev(x["a"][1], {})))
        site = F.loc(f_parse["body"])
        as_int = [x for x, c in sized if c == ("enum", "Integer")]
        as_char = [x for x, c in sized if c == ("enum", "Char")]
        if table_known and table.get("c") == "Integer" and table.get("C", "Integer") == "Integer":
            run.holds("R4", "char-sized-as-int", "`c` is mapped to Integer by Datatype::from")
        elif as_char:
            run.violated("R4", "char-sized-as-int", "a `%c` argument is promoted to int: its size must be get_size_from_data_type(Integer); for a Char the size of Char itself is looked up", F.loc(as_char[0]))
        elif as_int:
            run.holds("R4", "char-sized-as-int", "", F.loc(as_int[0]))
        elif not sized:
            run.violated("R4", "char-sized-as-int", "no promotion of Char to the size of Integer found in parse_format_string_parameters (no size lookup is reached for a Char)", site)
        else:
            run.undecided("R4", "char-sized-as-int", "size lookups with an argument that is not a constant data type", site)

    run.guarded("R4", r4)

    def r5():
        flags = ["", "+", "-", "#", "0"]
        widths = ["", "5", "12", "05", "010"]  # a width may start with 0 after an explicit flag (e.g. %+05d)
        precs = ["", ".", ".3", ".10", ".0"]
        n = 0
        bad = {}
        for conv in CONVS:
            for fl, w, pr in itertools.product(flags, widths, precs):
                tok = "%" + fl + w + pr + conv
                n += 1
                try:
                    ms = find_iter(hir, tok)
                except Unsupported as e:
                    run.undecided("R5", "token|unsupported", str(e), psite)
                    return
                ok = len(ms) == 1 and ms[0][0] == 0 and ms[0][1] == len(tok) and "1" in ms[0][2] and tok[ms[0][2]["1"][0]:ms[0][2]["1"][1]] == conv
                if not ok:
                    bad.setdefault(conv, tok)
        for conv in CONVS:
            run.check("R5", "token|%s" % conv, conv not in bad, "conversion token `%s` is not matched whole with group 1 == `%s`" % (bad.get(conv), conv), psite)
        # literal text with conversion letters but without % must yield nothing
        for lit in ("hello world", "d i s", "ld 5.3f"):
            run.check("R5", "literal|%s" % lit, params_of(lit) == [], "literal text `%s` must not produce parameters" % lit, psite)
        # sequences: order and count
        seq = "%d and %s then %5.2f%c"
        run.check("R5", "sequence|order", params_of(seq) == ["d", "s", "f", "c"], "`%s` must yield d,s,f,c in order; got %s" % (seq, params_of(seq)), psite)
        run.note("R5 probed %d tokens (%d conversions x flags x widths x precisions)" % (n, len(CONVS)))

    run.guarded("R5", r5)
