"""C03 Merge over-approximates both inputs and is stable -- composition clauses.

 R1 field coverage of composite merges: in every `impl AbstractDomain for <struct>` whose
    merge builds the struct field by field, every field that carries domain information is
    computed from that same field of BOTH self and other (same-field pairing); the same for merges
    that build a payload struct behind a wrapper (Arc<Inner>) and for merges that patch a clone of one
    operand (a field never written after the clone is a plain copy of that operand)
 R2 join operators by type for DataDomain: the top flag is joined with ||, the optional
    absolute value is None only if both are None, the keyed map visits every key of other
    with insert-or-merge
 R3 finite domains exhaustively: Taint::merge / merge_with over {Tainted, Top}^2 is the join
    of the order Top <= Tainted, both agree, and merge(x, x) = x; BitvectorDomain::merge is
    `self` if equal else top
 R4 merge_with == merge: the trait default assigns self.merge(other); overriding impls
    delegate to one another or to one helper
 R5 map strategies (shape): Union / Intersect / MergeTop
Does not decide: interval merge/widening numerics, MemRegion merge contents.
"""
import itertools

from .lib import sym as S
from .lib import thir as T
from .lib.sym import fmt


def is_call(t, name=None):
    return isinstance(t, tuple) and t and t[0] == "call" and (name is None or t[1] == name or (isinstance(name, (set, tuple, frozenset)) and t[1] in name))


def run(run):
    F = run.facts()
    run.explanation = (
        "Static composition analysis of the merge operations: for every struct implementing AbstractDomain whose merge builds the struct "
        "field by field, the provenance of each result field (through let-bound and mutated locals, loops and closures) is computed as the "
        "set of self/other fields it is derived from and compared with the same-field pairing; join operators of the DataDomain fields "
        "are checked by type (||, option table, insert-or-merge loop); the two-variant Taint domain is evaluated exhaustively over its "
        "match tables; merge_with overrides are checked for delegation; the three map merge strategies are checked for their shape. "
        "Decides these composition clauses (each necessary for over-approximation), not the numerics of interval merging/widening.")
    run.rule("R1", "composite merges compute every domain field from that field of both inputs")
    run.rule("R2", "DataDomain: top flag ||, optional absolute value keeps Some, relative values insert-or-merge over all keys of other")
    run.rule("R3", "Taint merge/merge_with = join of Top <= Tainted (exhaustive); BitvectorDomain merge = self if equal else Top")
    run.rule("R4", "merge_with is the in-place form of merge")
    run.rule("R5", "Union / Intersect / MergeTop map strategies have their defining shape")

    def provenance(fn):
        """{local id: set of ('self'|'other', field)} including mutation flows, plus a function term->set"""
        body = fn["body"]
        closures = F.closures(fn)
        roots = [body] + [c["body"] for c in closures]
        direct = {}

        def mentions(n):
            out = set()
            vars_ = set()
            for y in T.walk(n):
                if y.get("k") == "Field":
                    r, names = T.field_chain(y)
                    if r.get("k") in ("Var", "Upvar") and r.get("n") in ("self", "other") and names:
                        out.add((r["n"], names[0]))
                if y.get("k") in ("Var", "Upvar"):
                    vars_.add(y["id"])
                if y.get("k") == "Closure":
                    try:
                        cb = F.closure_by_path(y["d"])["body"]
                        o2, v2 = mentions(cb)
                        out |= o2
                        vars_ |= v2
                    except T.AnchorMissing:
                        pass
            return out, vars_

        dep = {}   # id -> (fields, var ids)
        def add(i, n):
            f, v = mentions(n)
            cur = dep.setdefault(i, (set(), set()))
            cur[0].update(f)
            cur[1].update(v)
        for root in roots:
            for n in T.walk(root):
                k = n.get("k")
                if k == "LetStmt" and "i" in n:
                    for (i, _, _) in T.pat_bindings(n["p"]):
                        add(i, n["i"])
                    # destructuring of self / other: `let Self { register_taint: x, .. } = other;` binds x to other.register_taint
                    ini = T.peel(n["i"])
                    if ini.get("k") in ("Var", "Upvar") and ini.get("n") in ("self", "other"):
                        for (i, _nm, pth) in T.pat_bindings(n["p"]):
                            if pth:
                                dep.setdefault(i, (set(), set()))[0].add((ini["n"], pth[0]))
                elif k in ("Assign", "AssignOp"):
                    r = T.root_var_id(n["l"])
                    if r is not None:
                        add(r, n["r"])
                elif k == "Call" and "f" in n and n.get("a"):
                    a0 = n["a"][0]
                    r = T.root_var_id(a0) if (a0.get("k") == "Borrow" and a0.get("m")) else None
                    if r is None and T.is_call(T.peel(a0), None) is False:
                        r = None
                    if r is not None:
                        for a in n["a"][1:]:
                            add(r, a)
                    # builder chains: x.entry(k).and_modify(..).or_insert_with(..) -> receiver root is mutated
                    rr = T.root_var_id(a0) if a0.get("k") != "Borrow" else None
                fl = T.for_loop(n) if k == "Match" else None
                if fl:
                    pat, it, b = fl
                    for (i, _, _) in T.pat_bindings(pat):
                        add(i, it)
                    # every local mutated in the body depends on the iterable too
                    for y in T.walk(b):
                        rid = None
                        if y.get("k") in ("Assign", "AssignOp"):
                            rid = T.root_var_id(y["l"])
                        elif y.get("k") == "Call" and y.get("a") and y["a"][0].get("k") == "Borrow" and y["a"][0].get("m"):
                            rid = T.root_var_id(y["a"][0])
                        elif y.get("k") == "Call" and y.get("a"):
                            # method chains rooted in a mutable local: entry(..).and_modify(..)
                            rid0 = T.root_var_id(y["a"][0])
                            if rid0 is not None and y.get("n") in ("entry", "and_modify", "or_insert_with", "or_insert", "insert", "merge_with", "push", "extend"):
                                rid = rid0
                        if rid is not None:
                            add(rid, it)
                            for a in y.get("a", [])[1:] if y.get("k") == "Call" else [y["r"]]:
                                add(rid, a)
        # chains like relative_values.entry(id).and_modify(|o| ..offset_other..).or_insert_with(..)
        for root in roots:
            for n in T.walk(root):
                if n.get("k") == "Call" and "f" in n and n.get("a") and n["n"] in ("and_modify", "or_insert_with", "or_insert", "or_default"):
                    rid = T.root_var_id_deep(n) if hasattr(T, "root_var_id_deep") else None
                    base = n
                    while base.get("k") == "Call" and base.get("a"):
                        nxt = T.peel(base["a"][0])
                        if nxt.get("k") == "Call":
                            base = nxt
                        else:
                            break
                    rid = T.root_var_id(base["a"][0]) if base.get("a") else None
                    if rid is not None:
                        for a in n["a"][1:]:
                            add(rid, a)
        # transitive closure
        changed = True
        while changed:
            changed = False
            for i, (fs, vs) in dep.items():
                for v in list(vs):
                    if v in dep and v != i:
                        before = len(fs)
                        fs |= dep[v][0]
                        if len(fs) != before:
                            changed = True

        def of(node):
            f, v = mentions(node)
            out = set(f)
            for i in v:
                if i in dep:
                    out |= dep[i][0]
            return out
        return of

    # fields that are documented not to be part of the abstract value (one line of reason each)
    EXEMPT = {
        ("analysis::string_abstraction::state::State", "pointer_inference_state"):
            "documented in the struct: an auxiliary copy of the pointer-inference state of the current block, 'ignored (including in the merge-function)'; it is re-set by the fixpoint context before every use",
    }

    def domainish(ty, impl_adts):
        t = ty
        if t in ("bool",) or t.startswith("std::collections::BTreeMap<") or t.startswith("std::collections::BTreeSet<") or t.startswith("std::collections::HashMap<") or t.startswith("std::collections::HashSet<"):
            return True
        if t.startswith("std::option::Option<"):
            inner = t[len("std::option::Option<"):-1]
            return domainish(inner, impl_adts)
        head = t.split("<")[0]
        return head in impl_adts

    impls = [i for i in F.impls if i.get("trait", "").endswith("abstract_domain::AbstractDomain") and i.get("adt")]
    impl_adts = {i["adt"] for i in impls}
    run.floor("AbstractDomain impls", len(impls), 15)

    def r1():
        n = 0
        for imp in sorted(impls, key=lambda i: i["adt"]):
            adt = F.adts.get(imp["adt"])
            if adt is None or adt["kind"] != "struct":
                continue
            mpath = [it["path"] for it in imp["items"] if it["name"] == "merge"]
            if not mpath or mpath[0] not in F.by_path:
                continue
            fn = F.by_path[mpath[0]]
            # the struct literal(s) of Self built in merge
            lits = [x for x in T.walk(fn["body"]) if x.get("k") == "Adt" and x["adt"] == imp["adt"]]
            if not lits:
                run.note("R1: %s::merge delegates (no struct literal); covered by R4/R5 or not decided" % imp["adt"].split("::")[-1])
                continue
            of = provenance(fn)
            lit = lits[-1]
            n += 1
            for fld in adt["variants"][0]["fields"]:
                fname = fld["name"]
                fty = F.tyi(fld["t"])
                key = "%s|%s" % (imp["adt"].split("::")[-1], fname)
                site = F.loc(lit)
                if fname not in lit["fs"]:
                    if "base" in lit:
                        run.undecided("R1", key, "field taken from a functional-update base", site)
                    continue
                if (imp["adt"], fname) in EXEMPT:
                    run.holds("R1", key, "exempt: " + EXEMPT[(imp["adt"], fname)], site)
                    continue
                prov = of(lit["fs"][fname])
                selfs = {f for (b, f) in prov if b == "self"}
                others = {f for (b, f) in prov if b == "other"}
                if not domainish(fty, impl_adts):
                    # a non-domain field (size, id, limit): must not be taken from a different field of other
                    run.check("R1", key, others <= {fname}, "field `%s` (type %s) of the merged value is computed from other.%s" % (fname, fty[:40], sorted(others)), site)
                    continue
                ok = fname in selfs and fname in others
                cross = (others - {fname})
                if ok and not cross:
                    run.holds("R1", key, "from self.%s and other.%s" % (fname, fname), site)
                elif not ok:
                    missing = [b for b, s0 in (("self", selfs), ("other", others)) if fname not in s0]
                    run.violated("R1", key, "field `%s` of the merged %s does not depend on %s: values represented only by that input are lost" % (fname, imp["adt"].split("::")[-1], " and ".join("%s.%s" % (b, fname) for b in missing)), site)
                else:
                    run.violated("R1", key, "field `%s` of the merged %s is computed from other.%s (a different field)" % (fname, imp["adt"].split("::")[-1], sorted(cross)), site)
        run.floor("field-by-field merges", n, 4)

    run.guarded("R1", r1)

    # ---- R1 for merges that build a payload struct behind a wrapper (Arc<Inner>) or patch a clone of one operand
    MUTATORS = ("extend", "append", "merge_with", "insert", "push", "union_with", "extend_from_slice")
    UNWRAP = ("make_mut", "deref_mut", "get_mut", "as_mut", "borrow_mut", "deref", "as_ref")

    def mentions_t(t):
        out = set()
        for y in S.subterms(t):
            if isinstance(y, tuple) and y and y[0] == "field":
                names, b = [], y
                while isinstance(b, tuple) and b and b[0] == "field":
                    names.append(b[2])
                    b = b[1]
                    while is_call(b, UNWRAP) and b[2]:
                        b = b[2][0]
                if isinstance(b, tuple) and b and b[0] == "var" and b[1] in ("self", "other"):
                    for nm in names:
                        out.add((b[1], nm))
        return out

    def payload_structs(adt):
        """the struct itself and structs named inside the types of its fields (Arc<Inner>)"""
        out = [adt]
        for fld in adt["variants"][0]["fields"]:
            ty = F.tyi(fld["t"])
            for path, a in F.adts.items():
                if a is not adt and a["kind"] == "struct" and path in ty:
                    out.append(a)
        return out

    def r1b():
        n = 0
        for imp in sorted(impls, key=lambda i: i["adt"]):
            adt = F.adts.get(imp["adt"])
            if adt is None or adt["kind"] != "struct":
                continue
            mpath = [it["path"] for it in imp["items"] if it["name"] == "merge"]
            if not mpath or mpath[0] not in F.by_path:
                continue
            fn = F.by_path[mpath[0]]
            if any(x.get("k") == "Adt" and x["adt"] == imp["adt"] for x in T.walk(fn["body"])):
                continue  # covered by R1
            t = S.Sym(F).term(fn["body"])
            short = imp["adt"].split("::")[-1]
            cands = payload_structs(adt)
            site = F.loc(fn["body"])
            # (a) literal of a payload struct
            plits = [x for x in S.subterms(t) if isinstance(x, tuple) and x and x[0] == "adt" and any(x[1] == c["path"] for c in cands[1:])]
            for lit in plits:
                P = [c for c in cands if c["path"] == lit[1]][0]
                fs = dict(lit[3])
                n += 1
                for fld in P["variants"][0]["fields"]:
                    fname, fty = fld["name"], F.tyi(fld["t"])
                    if not domainish(fty, impl_adts) or fname not in fs:
                        continue
                    m = mentions_t(fs[fname])
                    missing = [b for b in ("self", "other") if (b, fname) not in m]
                    run.check("R1", "%s|%s" % (short, fname), not missing, "field `%s` of the merged %s does not depend on %s: values represented only by that input are lost" % (fname, short, " and ".join("%s.%s" % (b, fname) for b in missing)), site)
            if plits:
                continue
            # (b) clone of one operand, patched field by field
            for sq in [x for x in S.subterms(t) if isinstance(x, tuple) and x and x[0] == "seq"]:
                tail = S.value(sq[2])
                if tail[0] != "var":
                    continue
                res = tail[1]
                inits = [st for st in sq[1] if st[0] == "letstmt" and st[1] == res]
                if not inits:
                    continue
                base = S.value(inits[0][2])
                while is_call(base, ("clone", "to_owned")) and base[2]:
                    base = S.value(base[2][0])
                if not (base[0] == "var" and base[1] in ("self", "other")):
                    continue
                B = base[1]
                O = "other" if B == "self" else "self"
                aliases = {res}
                for st in sq[1]:
                    if st[0] == "letstmt":
                        v = S.value(st[2])
                        while is_call(v, UNWRAP) and v[2]:
                            v = S.value(v[2][0])
                        root = v
                        while isinstance(root, tuple) and root and root[0] == "field":
                            root = root[1]
                        if isinstance(root, tuple) and root and root[0] == "var" and root[1] in aliases and st[1] != res:
                            aliases.add(st[1])

                def target_field(l):
                    names, b = [], l
                    while True:
                        while is_call(b, UNWRAP) and b[2]:
                            b = b[2][0]
                        if isinstance(b, tuple) and b and b[0] == "field":
                            names.append(b[2])
                            b = b[1]
                        else:
                            break
                    if isinstance(b, tuple) and b and b[0] == "var" and b[1] in aliases and names:
                        return names
                    return None
                # whole-value delegation: `copy.merge_with(other)` -- R4 checks merge_with
                deleg = False
                for y in S.subterms(sq):
                    if is_call(y) and y[2] and len(y[2]) >= 2:
                        r0 = y[2][0]
                        while is_call(r0, UNWRAP) and r0[2]:
                            r0 = r0[2][0]
                        if isinstance(r0, tuple) and r0 and r0[0] == "var" and r0[1] == res and any(isinstance(z, tuple) and z and z[0] == "var" and z[1] == O for a in y[2][1:] for z in S.subterms(a)):
                            deleg = True
                if deleg:
                    run.note("R1: %s::merge patches a copy through a whole-value call (delegation; see R4)" % short)
                    break
                written = {}
                for y in S.subterms(sq):
                    if isinstance(y, tuple) and y and y[0] in ("assign", "assignop"):
                        l, r = (y[1], y[2]) if y[0] == "assign" else (y[2], y[3])
                        nm = target_field(l)
                        if nm:
                            for f in nm:
                                written.setdefault(f, set()).update(mentions_t(r) | ({(B, f)} if y[0] == "assignop" else set()))
                    elif is_call(y, MUTATORS) and y[2]:
                        nm = target_field(y[2][0])
                        if nm:
                            for f in nm:
                                written.setdefault(f, set()).update({(B, f)})
                                for a in y[2][1:]:
                                    written[f].update(mentions_t(a))
                Ps = [c for c in cands if set(written) & {f["name"] for f in c["variants"][0]["fields"]}]
                P = max(Ps, key=lambda c: len(set(written) & {f["name"] for f in c["variants"][0]["fields"]})) if Ps else adt
                n += 1
                for fld in P["variants"][0]["fields"]:
                    fname, fty = fld["name"], F.tyi(fld["t"])
                    if not domainish(fty, impl_adts):
                        continue
                    if (P["path"], fname) in EXEMPT:
                        continue
                    m = written.get(fname)
                    key = "%s|%s" % (short, fname)
                    if m is None:
                        run.violated("R1", key, "%s::merge starts from a copy of `%s` and never updates field `%s`: the merged value keeps %s.%s and ignores %s.%s" % (short, B, fname, B, fname, O, fname), site)
                    else:
                        missing = [b for b in ("self", "other") if (b, fname) not in m]
                        run.check("R1", key, not missing, "field `%s` of the merged %s does not depend on %s" % (fname, short, " and ".join("%s.%s" % (b, fname) for b in missing)), site)
                break
        run.note("R1 (wrapper / clone-and-patch form): %d merges analysed" % n)

    run.guarded("R1", r1b)

    def r2():
        fn = F.fn("merge", adt="DataDomain", trait="AbstractDomain")
        sy = S.Sym(F)
        env = {}
        t = sy.term(fn["body"], env)
        res = S.value(t)
        site = F.loc(fn["body"])
        if res[0] != "adt":
            run.undecided("R2", "DataDomain|shape", "merge does not end in a struct literal", site)
            return
        flds = dict(res[3])
        e = flds.get("contains_top_values")
        ok = e is not None and e[0] == "or" and {fmt(e[1]), fmt(e[2])} == {"self.contains_top_values", "other.contains_top_values"}
        run.check("R2", "DataDomain|contains_top_values", ok, "the merged value may contain Top values if EITHER input may: the flag must be `self.contains_top_values || other.contains_top_values`; found %s" % (fmt(e) if e else None), site)
        # absolute value: option table
        e = flds.get("absolute_value")
        okopt = None
        if e is not None and e[0] == "match" and e[1][0] == "tuple":
            table = {}
            for pat, g, b in e[2]:
                for alt in pat.split(" | "):
                    alt = alt.strip()
                    if alt.startswith("(") and alt.endswith(")"):
                        depth, cut = 0, None
                        for ii, ch in enumerate(alt[1:-1]):
                            if ch in "({[":
                                depth += 1
                            elif ch in ")}]":
                                depth -= 1
                            elif ch == "," and depth == 0:
                                cut = ii
                                break
                        if cut is None:
                            continue
                        l, r = alt[1:-1][:cut].strip(), alt[1:-1][cut + 1:].strip()
                        ls = [True] if l.startswith("Some") else [False] if l.startswith("None") else [True, False]
                        rs = [True] if r.startswith("Some") else [False] if r.startswith("None") else [True, False]
                        bv = S.value(b)
                        some = bv[0] == "adt" and bv[2] == "Some"
                        merged = any(is_call(y, "merge") for y in S.subterms(bv))
                        for a in ls:
                            for c in rs:
                                table.setdefault((a, c), (some, merged))
            want_some = {(True, True): True, (True, False): True, (False, True): True, (False, False): False}
            okopt = all(table.get(k, (None,))[0] == v for k, v in want_some.items()) and table.get((True, True), (None, False))[1]
        if okopt is None:
            run.undecided("R2", "DataDomain|absolute_value", "outside vocabulary: %s" % (fmt(e)[:160] if e else None), site)
        else:
            run.check("R2", "DataDomain|absolute_value", okopt, "the merged absolute value must be Some whenever either input has one (merged when both have one) and None only if neither has", site)
        # relative values: for (id, offset_other) in other.relative_values.iter() { entry.and_modify(merge).or_insert_with(clone) }
        loops = T.for_loops(fn["body"])
        good = False
        for node, pat, it, body in loops:
            itt = sy.ev(it, env)
            over_other = any(isinstance(y, tuple) and y and y[0] == "field" and y[2] == "relative_values" and y[1][0] == "var" and y[1][1] == "other" for y in S.subterms(itt))
            filt = any(is_call(y, ("filter", "take", "skip", "filter_map", "step_by", "take_while", "skip_while")) for y in S.subterms(itt))
            exits = [x for x in T.walk(body) if x.get("k") in ("Break", "Continue", "Return")]
            names = [x["n"] for x in T.walk(body) if x.get("k") == "Call" and "f" in x]
            ins_or_merge = ("entry" in names and "and_modify" in names and any(n in names for n in ("or_insert_with", "or_insert"))) or ("insert" in names and "get_mut" in names)
            merges = any(T.is_call(x, ("merge", "merge_with")) for c in F.closures(fn) for x in T.walk(c["body"])) or "merge" in names
            if over_other and not filt and not exits and ins_or_merge and merges:
                good = True
        run.check("R2", "DataDomain|relative_values", good, "every (id, offset) of other must be inserted or merged into the result's relative values (loop over other.relative_values, no filter, entry/and_modify(merge)/or_insert)", site)

    run.guarded("R2", r2)

    def taint_eval(fn, kind):
        """result variant table {(a,b): 'Tainted'|'Top'|'self'|'other'} from the match/if-let over (self, other)"""
        res = {}
        VAR = ("Tainted", "Top")

        def pat_match(p, vals):
            p = T.pat_peel(p)
            k = p.get("k")
            if k == "Or":
                return any(pat_match(q, vals) for q in p["ps"])
            if k in ("Wild", "Bind"):
                return True
            if k == "Leaf" and len(p["sub"]) == len(vals):
                return all(pat_match(s["p"], (vals[s["fi"]],)) for s in p["sub"])
            if k == "Variant" and len(vals) == 1:
                return p["v"] == vals[0]
            return None

        def ctor(n):
            n = T.peel(n)
            if n.get("k") == "Adt" and n["adt"].endswith("taint::Taint"):
                return n["v"]
            if n.get("k") == "Call" and n.get("f", "").endswith(("Taint::Tainted", "Taint::Top")):
                return n["f"].split("::")[-1]
            if n.get("k") in ("Var", "Upvar") and n.get("n") in ("self", "other"):
                return n["n"]
            if n.get("k") == "Block" and "e" in n and not n["ss"]:
                return ctor(n["e"])
            return None
        for a, b in itertools.product(VAR, repeat=2):
            out = None
            if kind == "merge":
                ms = [m for m in T.walk(fn["body"]) if m.get("k") == "Match" and not m.get("ms", "").startswith("ForLoop")]
                if not ms:
                    return None
                for arm in ms[0]["arms"]:
                    mm = pat_match(arm["p"], (a, b))
                    if mm is None:
                        return None
                    if mm:
                        out = ctor(arm["b"])
                        break
            else:
                ifs = [x for x in T.walk(fn["body"]) if x.get("k") == "If" and T.peel(x["c"]).get("k") == "Let"]
                if len(ifs) != 1:
                    return None
                let = T.peel(ifs[0]["c"])
                mm = pat_match(let["p"], (a, b))
                if mm is None:
                    return None
                if mm:
                    asg = [x for x in T.walk(ifs[0]["th"]) if x.get("k") == "Assign"]
                    if len(asg) != 1:
                        return None
                    out = ctor(asg[0]["r"])
                else:
                    out = "self"
            if out is None:
                return None
            res[(a, b)] = {"self": a, "other": b}.get(out, out)
        return res

    def r3():
        fm = F.fn("merge", adt="Taint", trait="AbstractDomain")
        fw = F.fn("merge_with", adt="Taint", trait="AbstractDomain")
        join = lambda a, b: "Tainted" if "Tainted" in (a, b) else "Top"
        for label, fn, kind in (("merge", fm, "merge"), ("merge_with", fw, "with")):
            tab = taint_eval(fn, kind)
            if tab is None:
                run.undecided("R3", "Taint::%s|join-table" % label, "match table outside vocabulary", F.loc(fn["body"]))
                continue
            wrong = [(k, v) for k, v in sorted(tab.items()) if v != join(*k)]
            run.check("R3", "Taint::%s|join-table" % label, not wrong, "Taint::%s must be the join of Top <= Tainted (Tainted if either input is tainted); wrong for %s" % (label, ["%s,%s -> %s" % (k[0], k[1], v) for k, v in wrong]), F.loc(fn["body"]))
        # size of the result of merge: Tainted keeps a size from an input, Top uses self.bytesize()
        fb = F.fn("merge", adt="BitvectorDomain", trait="AbstractDomain")
        t = S.value(S.Sym(F).term(fb["body"]))
        ok = t[0] == "ite" and is_call(t[1], "eq") and {fmt(x) for x in t[1][2]} == {"self", "other"} and fmt(S.value(t[2])) == "self" and is_call(S.value(t[3]), "top") and fmt(S.value(t[3])[2][0]) == "self"
        run.check("R3", "BitvectorDomain::merge", ok, "BitvectorDomain::merge must return self when both are equal and Top otherwise; found %s" % fmt(t)[:120], F.loc(fb["body"]))

    run.guarded("R3", r3)

    def r3_interval_hints():
        """IntervalDomain::signed_merge: the merged bounds come from both intervals and the widening hints of BOTH inputs are
        re-validated against the merged interval (a hint that lies inside the merged interval would later be used as a bound
        by the widening and cut off values of the other input)"""
        fn = F.fn("signed_merge", adt="IntervalDomain", mod="abstract_domain::interval")
        sy = S.Sym(F)
        env = {}
        t = sy.term(fn["body"], env)
        site = F.loc(fn["body"])
        ims = [x for x in S.subterms(t) if is_call(x, "signed_merge") and len(x[2]) == 2 and {fmt(a) for a in x[2]} == {"self.interval", "other.interval"}]
        run.check("R3", "IntervalDomain::signed_merge|bounds-from-both", bool(ims), "the merged interval must be computed from self.interval and other.interval", site)
        calls = [(c["n"], T.show(c["a"][1]).replace("&", "").replace("*", "")) for c in T.calls(fn["body"]) if c["n"] in ("update_widening_lower_bound", "update_widening_upper_bound") and len(c["a"]) == 2]
        for side, fld in (("lower", "widening_lower_bound"), ("upper", "widening_upper_bound")):
            for inp in ("self", "other"):
                ok = ("update_widening_%s_bound" % side, "%s.%s" % (inp, fld)) in calls
                run.check("R3", "IntervalDomain::signed_merge|hint|%s|%s" % (side, inp), ok, "the %s widening hint of `%s` must be passed through update_widening_%s_bound on the MERGED value (which checks it against the merged interval); otherwise a stale hint inside the merged range becomes a bound when widening and values of the other input are lost" % (side, inp, side), site)

    run.guarded("R3", r3_interval_hints)

    def r4():
        # trait default
        fd = [f for f in F.fns if f["name"] == "merge_with" and f.get("in_trait", "").endswith("abstract_domain::AbstractDomain")]
        if len(fd) != 1:
            raise T.AnchorMissing("default AbstractDomain::merge_with")
        t = S.Sym(F).term(fd[0]["body"])
        asg = [x for x in S.subterms(t) if isinstance(x, tuple) and x and x[0] == "assign"]
        ok = len(asg) == 1 and fmt(asg[0][1]) == "self" and is_call(asg[0][2], "merge") and [fmt(a) for a in asg[0][2][2]] == ["self", "other"]
        run.check("R4", "default-merge_with", ok, "the default merge_with must assign self.merge(other) to self", F.loc(fd[0]["body"]))
        # overrides
        n = 0
        for imp in impls:
            names = {it["name"]: it["path"] for it in imp["items"]}
            if "merge_with" not in names or names["merge_with"] not in F.by_path or names.get("merge") not in F.by_path:
                continue
            n += 1
            fw = F.by_path[names["merge_with"]]
            fm = F.by_path[names["merge"]]
            short = imp["adt"].split("::")[-1]
            tw = S.Sym(F).term(fw["body"])
            tm = S.Sym(F).term(fm["body"])
            m_calls_w = any(is_call(x, "merge_with") for x in S.subterms(tm))
            w_calls_m = any(is_call(x, "merge") for x in S.subterms(tw))
            if short == "Taint":
                run.holds("R4", "override|Taint", "both tables checked exhaustively by R3", F.loc(fw["body"]))
            elif m_calls_w or w_calls_m:
                run.holds("R4", "override|%s" % short, "merge %s merge_with" % ("delegates to" if m_calls_w else "is used by"), F.loc(fw["body"]))
            else:
                run.undecided("R4", "override|%s" % short, "merge and merge_with are implemented independently; their agreement is not decided", F.loc(fw["body"]))
            if m_calls_w:
                # merge = clone self, merge_with(other), return the clone
                ok = any(is_call(x, "merge_with") and x[2][1][0] == "var" and x[2][1][1] == "other" for x in S.subterms(tm))
                run.check("R4", "override|%s|merge-via-merge_with" % short, ok, "merge must apply merge_with(other) to a copy of self", F.loc(fm["body"]))
        run.floor("merge_with overrides", n, 1)
        # taint::State::merge_with merges every field with the same field of other
        fs = F.fn("merge_with", adt="State", trait="AbstractDomain", mod="analysis::taint::state")
        st = F.adt("analysis::taint::state::State")
        tw = S.Sym(F).term(fs["body"])
        for fld in st["variants"][0]["fields"]:
            ok = any(is_call(x, ("merge_with", "merge")) and fmt(x[2][0]) == "self.%s" % fld["name"] and fmt(x[2][1]) == "other.%s" % fld["name"] for x in S.subterms(tw))
            if not ok:
                # through a private helper that is handed `other`: self.merge_<field>_with(other)
                for hc in [x for x in T.walk(fs["body"]) if x.get("k") == "Call" and (F.by_path.get(x.get("r") or "") or F.by_path.get(x.get("f") or "")) is not None]:
                    hfn = F.by_path.get(hc.get("r") or "") or F.by_path.get(hc.get("f") or "")
                    th = S.Sym(F).term(hfn["body"])
                    if any(is_call(x, ("merge_with", "merge")) and fmt(x[2][0]) == "self.%s" % fld["name"] and fmt(x[2][1]).endswith(".%s" % fld["name"]) and not fmt(x[2][1]).startswith("self.") for x in S.subterms(th)):
                        ok = True
            run.check("R4", "taint::State::merge_with|%s" % fld["name"], ok, "field `%s` of the taint state must be merged with other.%s" % (fld["name"], fld["name"]), F.loc(fs["body"]))

    run.guarded("R4", r4)

    def r5():
        def strat(name):
            fns = [f for f in F.fns if f["name"] == "merge_map_with" and name in f.get("impl_self", "")]
            if len(fns) != 1:
                raise T.AnchorMissing("merge_map_with of %s" % name)
            return fns[0]
        # Union
        fn = strat("UnionMergeStrategy")
        sy = S.Sym(F)
        env = {}
        sy.term(fn["body"], env)
        loops = T.for_loops(fn["body"])
        ok = False
        for node, pat, it, body in loops:
            itt = sy.ev(it, env)
            over_other = any(isinstance(y, tuple) and y and y[0] == "var" and y[1] == "other" for y in S.subterms(itt))
            filt = any(is_call(y, ("filter", "take", "skip", "filter_map", "step_by")) for y in S.subterms(itt))
            names = [x["n"] for x in T.walk(body) if x.get("k") == "Call" and "f" in x]
            exits = [x for x in T.walk(body) if x.get("k") in ("Break", "Continue", "Return")]
            merges = any(T.is_call(x, ("merge", "merge_with")) for c in F.closures(fn) for x in T.walk(c["body"]))
            ok = over_other and not filt and not exits and "entry" in names and "and_modify" in names and any(n in names for n in ("or_insert_with", "or_insert")) and merges
        run.check("R5", "Union", ok, "UnionMergeStrategy: every key of other is inserted, or merged into the existing value (no filter)", F.loc(fn["body"]))
        # Intersect
        fn = strat("IntersectMergeStrategy")
        rets = [x for x in T.walk(fn["body"]) if T.is_call(x, "retain")]
        ok = False
        if rets:
            cl = T.peel(rets[0]["a"][1])
            if cl.get("k") == "Closure":
                c = F.closure_by_path(cl["d"])
                ct = S.Sym(F).term(c["body"])
                absent_false = any(isinstance(x, tuple) and x and x[0] == "letelse" and x[1].startswith("Some") and is_call(x[2], "get") and any(y == ("return", ("lit", False)) for y in S.subterms(x[3])) for x in S.subterms(ct)) or \
                    any(isinstance(x, tuple) and x and x[0] == "ite" and x[1][0] == "let" and is_call(x[1][2], "get") for x in S.subterms(ct))
                merges = any(is_call(x, ("merge_with", "merge")) for x in S.subterms(ct))
                res = S.value(ct)
                keep_nontop = res[0] == "not" and is_call(res[1], "is_top")
                ok = absent_false and merges and keep_nontop
        run.check("R5", "Intersect", ok, "IntersectMergeStrategy: a key survives only if other has it; the values are merged and Top results removed", F.loc(fn["body"]))
        # MergeTop
        fn = strat("MergeTopStrategy")
        sy = S.Sym(F)
        env = {}
        sy.term(fn["body"], env)
        site5 = F.loc(fn["body"])
        rets = [x for x in T.walk(fn["body"]) if T.is_call(x, "retain")]
        verdict, why = "undecided", "no retain over self's entries with a lookup in other found"
        if rets:
            cl = T.peel(rets[0]["a"][1])
            if cl.get("k") == "Closure":
                c = F.closure_by_path(cl["d"])
                ct = S.Sym(F).term(c["body"])
                # the lookup of the key in other: `if let Some(v) = other.get(k) {..} else {..}` or `match other.get(k) {Some(v) => .., None => ..}`
                present = absent = None
                for x in S.subterms(ct):
                    if isinstance(x, tuple) and x and x[0] == "ite" and x[1][0] == "let" and is_call(x[1][2], "get") and x[1][1].startswith("Some"):
                        present, absent = x[2], x[3]
                    elif isinstance(x, tuple) and x and x[0] == "match" and is_call(S.value(x[1]), "get"):
                        for pat, g, b in x[2]:
                            if pat.strip().startswith("Some"):
                                present = b
                            elif pat.strip().startswith("None") or pat.strip() == "_":
                                absent = b
                res = S.value(ct)
                drops_top = (res[0] == "not" and is_call(res[1], "is_top")) or any(isinstance(y, tuple) and y and y[0] == "not" and is_call(y[1], "is_top") for y in S.subterms(res))
                if present is not None and absent is not None:
                    m_present = any(is_call(y, ("merge_with", "merge")) for y in S.subterms(present))
                    m_absent_top = any(is_call(y, ("merge_with", "merge")) and any(is_call(z, "top") for z in S.subterms(y)) for y in S.subterms(absent))
                    m_absent_any = any(is_call(y, ("merge_with", "merge")) for y in S.subterms(absent))
                    if m_present and m_absent_top and drops_top:
                        verdict, why = "holds", ""
                    elif not m_absent_any:
                        verdict, why = "violated", "a value whose key is missing in other is kept as it is (not merged with Top)"
                    elif not m_present:
                        verdict, why = "violated", "a value whose key exists in other is not merged with other's value"
                    elif not drops_top:
                        verdict, why = "undecided", "Top results are not visibly removed"
        getattr(run, verdict)("R5", "MergeTop|keys-of-self", "MergeTopStrategy: a value whose key is missing in other must be merged with Top (not kept as is), and Top results removed%s" % ((" -- " + why) if why else ""), site5)
        # keys only in other
        verdict, why = "undecided", "iteration over other's entries not recognised"
        iter_other = False
        for node, pat, it, body in T.for_loops(fn["body"]):
            itt = sy.ev(it, env)
            over_other = any(isinstance(y, tuple) and y and y[0] == "var" and y[1] == "other" for y in S.subterms(itt))
            if over_other:
                iter_other = True
            ins = T.paths_to(body, lambda y: T.is_call(y, "insert"))
            if over_other and ins:
                n, conds = ins[0]
                cs = [(sy.ev(cd[1], env), cd[2]) for cd in conds if cd[0] == "if"]
                missing = any((is_call(c, "is_none") and p) or (is_call(c, "contains_key") and not p) or (c[0] == "not" and is_call(c[1], "contains_key") and p) for c, p in cs)
                nontop = any(c[0] == "not" and is_call(c[1], "is_top") and p for c, p in cs) or any(is_call(c, "is_top") and not p for c, p in cs)
                merged_with_top = any(T.is_call(x, "top") for x in T.walk(body)) and any(T.is_call(x, ("merge_with", "merge")) for x in T.walk(body))
                if missing and nontop and merged_with_top:
                    verdict, why = "holds", ""
                elif not merged_with_top:
                    verdict, why = "violated", "values of keys present only in other are inserted without being merged with Top"
        if verdict != "holds":
            # iterator-chain form: other.iter().filter(..contains_key..).filter_map(..top..merge..).collect() + extend / insert
            for y in T.walk(fn["body"]):
                if y.get("k") == "Call" and y.get("n") in ("iter", "into_iter") and y.get("a") and T.peel(y["a"][0]).get("k") in ("Var", "Upvar") and T.peel(y["a"][0]).get("n") == "other":
                    iter_other = True
            deep = list(T.walk_deep(F, fn["body"], depth=0))
            if iter_other and any(T.is_call(x, "contains_key") for x in deep) and any(T.is_call(x, "top") for x in deep) and any(T.is_call(x, ("merge_with", "merge")) for x in deep) and any(T.is_call(x, ("extend", "insert")) for x in deep) and any(T.is_call(x, "is_top") for x in deep):
                verdict, why = "holds", "iterator-chain form"
        if verdict == "undecided" and not iter_other:
            verdict, why = "violated", "other's entries are never iterated: keys present only in other are not visited"
        getattr(run, verdict)("R5", "MergeTop|keys-only-in-other", "MergeTopStrategy: keys present only in other must be visited too: their value merged with Top is inserted unless it is Top%s" % ((" -- " + why) if why else ""), site5)
        # DomainMap delegates to the strategy
        fn = F.fn("merge_with", adt="DomainMap", trait="AbstractDomain")
        t = S.Sym(F).term(fn["body"])
        ok = any(is_call(x, "merge_map_with") and any(isinstance(y, tuple) and y and y[0] == "field" and y[2] == "inner" and y[1][0] == "var" and y[1][1] == "other" for y in S.subterms(x)) for x in S.subterms(t))
        run.check("R5", "DomainMap|uses-strategy", ok, "DomainMap::merge_with must merge other's map into self with the strategy S", F.loc(fn["body"]))

    run.guarded("R5", r5)
