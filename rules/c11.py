"""C11 Lifting P-Code preserves behaviour -- translation tables.

 R1 mnemonic -> operation: every arm of From<ExpressionType> for Ir{BinOp,UnOp,CastOp}Type maps
    a mnemonic to the like-named IR operation (names compared as lower-case alphanumerics);
    the mappings are injective and agree with the dispatch in From<Expression> / into_ir_def;
    JmpType -> like-named IrJmp variant
 R2 operand positions (P-Code convention): binary lhs<-input0 rhs<-input1; unary/cast/COPY
    input0; SUBPIECE arg input0, low byte input1, size of the output; LOAD address input1;
    STORE address input1 value input2; an output with an address becomes a Store to it
 R3 every operand slot is lifted: the implicit-RAM-access pass treats input0/1/2 alike and the
    indirect targets of BRANCHIND/CALLIND; sub-register substitution visits every
    Expression slot of Def and Jmp
 R4 sub-register output folding: when `sub = value; base = CAST(sub)` is folded into one Def, the Def consumed from
    the input iterator is carried over into the output (the kind of cast is the consumed Def's, not a constant)
Does not decide: block-level equivalence under register aliasing.
 R3+ (added after seed C11c) whether an operand's implicit memory read becomes an explicit Load depends on that operand only
"""
import re

from .lib import slots as SL
from .lib import sym as S
from .lib import thir as T
from .lib.sym import fmt

ALIASES = {"floatneg": "floatnegate"}


def norm(s):
    s = re.sub(r"[^a-z0-9]", "", s.lower())
    return ALIASES.get(s, s)


def is_call(t, name=None):
    return isinstance(t, tuple) and t and t[0] == "call" and (name is None or t[1] == name or (isinstance(name, (set, tuple, frozenset)) and t[1] in name))


def strip(t):
    while True:
        t = S.value(t)
        if is_call(t, ("unwrap", "expect", "into", "from", "new")) and len(t[2]) == 1:
            t = t[2][0]
        else:
            return t


def run(run):
    F = run.facts()
    run.explanation = (
        "Static table analysis of the P-Code lifter: the match arms of the three mnemonic conversions are extracted from the THIR "
        "(patterns and constructed variants are resolved by the compiler, so glob imports and qualified/unqualified spellings do not "
        "matter) and each mnemonic must map to the IR operation of the same name; the field provenance of every operand of the lifted "
        "expressions/definitions is compared with the P-Code operand convention; the passes that must visit every operand slot are "
        "checked for slot coverage. Decides the translation tables, not block-level behavioural equivalence.")
    run.assumptions = ["P-Code operand convention: output = op(input0, input1); LOAD: input0 = space id, input1 = address; STORE: input0 = space id, input1 = address, input2 = value; SUBPIECE: input0 = value, input1 = number of low bytes dropped",
                       "IR operation names are the camel-case spelling of the P-Code mnemonics (one alias: FLOAT_NEG = FloatNegate)"]
    run.rule("R1", "mnemonic maps to the like-named IR operation; injective; consistent dispatch")
    run.rule("R2", "operand positions follow the P-Code convention")
    run.rule("R3", "every operand slot is lifted / substituted")

    et = F.adt("pcode::expressions::ExpressionType")
    ET = F.variants(et)
    run.floor("P-Code mnemonics", len(ET), 55)

    def conv_table(target_suffix):
        fns = [f for f in F.fns if f["name"] == "from" and f.get("impl_adt", "").endswith(target_suffix) and "ExpressionType" in f.get("impl_trait_ref", "")]
        if len(fns) != 1:
            raise T.AnchorMissing("From<ExpressionType> for %s: %d candidates" % (target_suffix, len(fns)))
        fn = fns[0]
        ms = T.find_matches(fn["body"], adt_suffix="ExpressionType")
        if not ms:
            raise T.AnchorMissing("no match over ExpressionType in %s" % fn["path"])
        tab = {}
        for v in ET:
            arms = T.arms_for_variant(ms[0], v)
            if not arms:
                continue
            b = T.peel(arms[0]["b"])
            if b.get("k") == "Adt" and b["adt"].endswith(target_suffix):
                tab[v] = (b["v"], arms[0])
            else:
                tab[v] = (None, arms[0])  # panic / other
        return tab, fn

    tabs = {}

    def r1():
        for kind, suffix in (("bin", "expression::BinOpType"), ("un", "expression::UnOpType"), ("cast", "expression::CastOpType")):
            tab, fn = conv_table(suffix)
            tabs[kind] = tab
            irv = set(F.variants(F.adt("intermediate_representation::" + suffix)))
            seen = {}
            n = 0
            for mn, (iv, arm) in sorted(tab.items()):
                if iv is None:
                    continue
                n += 1
                site = F.loc(arm["b"])
                run.check("R1", "%s|%s" % (kind, mn), norm(mn) == norm(iv), "P-Code mnemonic %s is lifted to the IR operation %s (expected the operation named like the mnemonic)" % (mn, iv), site)
                if iv in seen:
                    run.violated("R1", "%s|injective|%s" % (kind, iv), "two mnemonics (%s, %s) are lifted to the same IR operation %s" % (seen[iv], mn, iv), site)
                seen[iv] = mn
            missing = irv - set(seen)
            run.check("R1", "%s|every-ir-op-reachable" % kind, not missing, "IR operations %s are never produced by the lifter although the P-Code has a mnemonic for each" % sorted(missing), F.loc(fn["body"]))
        run.floor("lifted binary mnemonics", sum(1 for v in tabs["bin"].values() if v[0]), 34)
        # dispatch consistency: From<Expression> for IrExpression
        fns = [f for f in F.fns if f["name"] == "from" and f.get("impl_adt", "").endswith("expression::Expression") and "pcode::expressions::Expression" in f.get("impl_trait_ref", "") and f["mod"].endswith("pcode::expressions")]
        if len(fns) != 1:
            raise T.AnchorMissing("From<pcode Expression> for IrExpression: %d candidates" % len(fns))
        fexp = fns[0]
        ms = T.find_matches(fexp["body"], adt_suffix="ExpressionType")
        m = ms[0]
        for mn in ET:
            arms = T.arms_for_variant(m, mn)
            if not arms:
                continue
            b = arms[0]["b"]
            built = [n for n in T.walk(b) if n.get("k") == "Adt" and n["adt"].endswith("expression::Expression")]
            if not built:
                continue
            kind = {"BinOp": "bin", "UnOp": "un", "Cast": "cast"}.get(built[0]["v"])
            if kind is None:
                continue
            ok = tabs[kind].get(mn, (None,))[0] is not None
            run.check("R1", "dispatch|%s->%s" % (mn, built[0]["v"]), ok, "mnemonic %s is built as an IR %s expression but the %s conversion table has no (non-panicking) entry for it" % (mn, built[0]["v"], built[0]["v"]), F.loc(b))
        # every mnemonic of each table is dispatched to the matching constructor somewhere (From<Expression> or into_ir_def)
        fdef = F.fn("into_ir_def", adt="Def", mod="pcode::term")
        mdef = max(T.find_matches(fdef["body"], adt_suffix="ExpressionType"), key=lambda mm: len(mm["arms"]))
        for kind, ctor in (("bin", "BinOp"), ("un", "UnOp"), ("cast", "Cast")):
            for mn, (iv, _) in sorted(tabs[kind].items()):
                if iv is None:
                    continue
                found = False
                for mm in (m, mdef):
                    arms = T.arms_for_variant(mm, mn)
                    if arms and any(n.get("k") == "Adt" and n["adt"].endswith("expression::Expression") and n["v"] == ctor for n in T.walk(arms[0]["b"])):
                        found = True
                run.check("R1", "dispatch|%s-built-as-%s" % (mn, ctor), found, "mnemonic %s has an entry in the %s table but no lifting path builds a %s expression for it" % (mn, ctor, ctor), F.loc(fexp["body"]))
        # jumps
        fj = [f for f in F.fns if f["name"] == "from" and f.get("impl_adt", "").endswith("jmp::Jmp") and f["mod"].endswith("pcode::term")]
        if len(fj) != 1:
            raise T.AnchorMissing("From<pcode Jmp> for IrJmp")
        ms = T.find_matches(fj[0]["body"], adt_suffix="JmpType")
        jt = F.variants(F.adt("pcode::term::JmpType"))
        for mn in jt:
            arms = T.arms_for_variant(ms[0], mn) if ms else []
            built = [n["v"] for a in arms[:1] for n in T.walk(a["b"]) if n.get("k") == "Adt" and n["adt"].endswith("intermediate_representation::jmp::Jmp")] + \
                    [n["n"] for a in arms[:1] for n in T.walk(a["b"]) if n.get("k") == "Call" and n.get("f", "").startswith("intermediate_representation::jmp::Jmp::")]
            run.check("R1", "jmp|%s" % mn, bool(built) and all(norm(b) == norm(mn) for b in built), "P-Code jump %s is lifted to %s" % (mn, built), F.loc(fj[0]["body"]))

    run.guarded("R1", r1)

    def field_of(t):
        """'input0' etc. if the term is (a conversion of) expr.<field> / self.rhs.<field> / self.lhs"""
        t = strip(t)
        if t[0] == "field":
            return t[2]
        return None

    def r2():
        fns = [f for f in F.fns if f["name"] == "from" and f.get("impl_adt", "").endswith("expression::Expression") and "pcode::expressions::Expression" in f.get("impl_trait_ref", "") and f["mod"].endswith("pcode::expressions")]
        fexp = fns[0]
        sy = S.Sym(F)
        env = {}
        sy.term(fexp["body"], env)
        for n in T.walk(fexp["body"]):
            if n.get("k") == "Adt" and n["adt"].endswith("expression::Expression") and n["v"] in ("BinOp", "UnOp"):
                flds = {k: field_of(sy.ev(v, env)) for k, v in n["fs"].items() if k != "op"}
                want = {"lhs": "input0", "rhs": "input1"} if n["v"] == "BinOp" else {"arg": "input0"}
                run.check("R2", "expr|%s|operands" % n["v"], flds == want, "a lifted %s must take %s; found %s" % (n["v"], want, flds), F.loc(n))
                opf = field_of(sy.ev(n["fs"]["op"], env))
                run.check("R2", "expr|%s|op-from-mnemonic" % n["v"], opf == "mnemonic", "the operation of a lifted %s must be converted from the expression's own mnemonic" % n["v"], F.loc(n))
        ms = T.find_matches(fexp["body"], adt_suffix="ExpressionType")
        arms = T.arms_for_variant(ms[0], "COPY")
        ok = bool(arms) and field_of(sy.ev(arms[0]["b"], env)) == "input0"
        run.check("R2", "expr|COPY|input0", ok, "COPY must lift to its input0", F.loc(fexp["body"]))
        fdef = F.fn("into_ir_def", adt="Def", mod="pcode::term")
        sy = S.Sym(F)
        env = {}
        sy.term(fdef["body"], env)
        seen = set()
        for n in T.walk(fdef["body"]):
            if n.get("k") != "Adt":
                continue
            if n["adt"].endswith("def::Def") and n["v"] == "Load":
                flds = {k: field_of(sy.ev(v, env)) for k, v in n["fs"].items()}
                seen.add("Load")
                run.check("R2", "def|LOAD", flds == {"var": "lhs", "address": "input1"}, "LOAD lifts to Load{var: output, address: input1}; found %s" % flds, F.loc(n))
            elif n["adt"].endswith("def::Def") and n["v"] == "Store":
                flds = {k: sy.ev(v, env) for k, v in n["fs"].items()}
                if field_of(flds["address"]) is not None and field_of(flds["address"]).startswith("input"):
                    seen.add("Store")
                    got = {k: field_of(v) for k, v in flds.items()}
                    run.check("R2", "def|STORE", got == {"address": "input1", "value": "input2"}, "STORE lifts to Store{address: input1, value: input2}; found %s" % got, F.loc(n))
                else:
                    seen.add("OutStore")
                    a = flds["address"]
                    ok = any(is_call(x, "parse_address_to_bitvector") for x in S.subterms(a)) and any(isinstance(x, tuple) and x and x[0] == "field" and x[2] == "lhs" for x in S.subterms(a))
                    run.check("R2", "def|output-with-address-is-store", ok, "an operation whose OUTPUT varnode is a RAM address must become a Store to the output's address; found address %s" % fmt(a)[:100], F.loc(n))
            elif n["adt"].endswith("expression::Expression") and n["v"] == "Subpiece":
                flds = {k: sy.ev(v, env) for k, v in n["fs"].items()}
                seen.add("Subpiece")
                ok = field_of(flds["arg"]) == "input0" and any(isinstance(x, tuple) and x and x[0] == "field" and x[2] == "input1" for x in S.subterms(flds["low_byte"])) and any(is_call(x, "parse_to_bytesize") for x in S.subterms(flds["low_byte"])) and fmt(flds["size"]).endswith("lhs).size")
                run.check("R2", "def|SUBPIECE", ok, "SUBPIECE lifts to Subpiece{arg: input0, low_byte: value of input1, size: size of the output}; found %s" % {k: fmt(v)[:50] for k, v in flds.items()}, F.loc(n))
            elif n["adt"].endswith("expression::Expression") and n["v"] == "Cast":
                flds = {k: sy.ev(v, env) for k, v in n["fs"].items()}
                seen.add("Cast")
                ok = field_of(flds["arg"]) == "input0" and field_of(flds["op"]) == "mnemonic" and fmt(flds["size"]).endswith("lhs).size")
                run.check("R2", "def|CAST", ok, "casts lift to Cast{op: mnemonic, arg: input0, size: size of the output}; found %s" % {k: fmt(v)[:50] for k, v in flds.items()}, F.loc(n))
        for k in ("Load", "Store", "OutStore", "Subpiece", "Cast"):
            run.check("R2", "def|has|%s" % k, k in seen, "into_ir_def no longer builds the %s form" % k, F.loc(fdef["body"]))

    run.guarded("R2", r2)

    def r3():
        fn = F.fn("add_load_defs_for_implicit_ram_access", adt="Blk", mod="pcode::term")
        sy = S.Sym(F)
        env = {}
        sy.term(fn["body"], env)
        site = F.loc(fn["body"])
        per = {}
        for n, conds in T.paths_to(fn["body"], lambda x: T.is_call(x, "to_load_def")):
            # which input slot guards this call
            slot = None
            for cd in conds:
                if cd[0] == "if":
                    c = sy.ev(cd[1], env)
                    if c[0] == "let":
                        for x in S.subterms(c[2]):
                            if isinstance(x, tuple) and x and x[0] == "field" and x[2] in ("input0", "input1", "input2"):
                                slot = x[2]
            if slot:
                per.setdefault(slot, []).append((n, conds))
        deep = list(T.walk_deep(F, fn["body"], depth=2))
        loads_deep = [x for x in deep if T.is_call(x, "to_load_def")]
        # generic form: the slots are collected (array / vec / tuple) and handled by one loop, possibly through a helper
        collected = set()
        for x in T.walk_fn(F, fn):
            if x.get("k") in ("Array", "Tuple") or T.is_call(x, ("vec", "from", "into_iter", "iter_mut")):
                names = {y["fn"] for y in T.walk(x) if y.get("k") == "Field" and y.get("fn") in ("input0", "input1", "input2")}
                if len(names) >= 2:
                    collected |= names
        mentioned = {y["fn"] for y in deep if y.get("k") == "Field" and y.get("fn") in ("input0", "input1", "input2")}
        generic_form = bool(collected) and bool(loads_deep) and bool(T.for_loops(fn["body"]))
        temps_by_slot = {}
        for slot in ("input0", "input1", "input2"):
            ent = per.get(slot)
            key = "implicit-load|%s" % slot
            if not ent:
                if generic_form and slot in collected:
                    run.holds("R3", key, "handled by the common loop over the operand slots", site)
                    run.holds("R3", key + "|rewrites-same-slot", "helper form", site) if any(x.get("k") == "Assign" and x["l"].get("k") == "Deref" for x in deep) else run.undecided("R3", key + "|rewrites-same-slot", "rewrite of the slot not recognised", site)
                elif slot not in mentioned and (mentioned or per):
                    run.violated("R3", key, "operands in slot %s that are RAM addresses are not turned into explicit loads: the slot is never looked at" % slot, site)
                elif generic_form and slot not in collected:
                    run.violated("R3", key, "operands in slot %s are not among the slots handled by the common loop (%s)" % (slot, sorted(collected)), site)
                elif not loads_deep:
                    run.violated("R3", key, "operands in slot %s that are RAM addresses are not turned into explicit loads: no load is created at all" % slot, site)
                else:
                    run.undecided("R3", key, "handling of slot %s not recognised" % slot, site)
                continue
            run.holds("R3", key, "", site)
            n, conds = ent[0]
            # whether an operand's implicit memory read becomes an explicit Load depends on THAT operand only
            from .lib import bindsrc as B
            roots_ = B.bodies(F, fn)
            foreign = set()
            for cd in conds:
                if cd[0] != "if":
                    continue
                for src, how in B.sources(F, roots_, cd[1]):
                    for y in B.walk_with_closures(F, src):
                        if y.get("k") == "Field" and y.get("fn") in ("input0", "input1", "input2") and y["fn"] != slot:
                            foreign.add(y["fn"])
            run.check("R3", key + "|depends-on-own-operand-only", not foreign, "the explicit load for %s is created only under a condition on %s: an implicit memory read of this operand can be skipped (two reads of one address with different sizes are two reads)" % (slot, sorted(foreign)), F.loc(n))
            # the rewritten slot is the same slot, and the temp names differ per slot
            temp = sy.ev(n["a"][1], env)
            writes = [x for x in T.walk(fn["body"]) if T.is_call(x, ("clone_from",)) or x.get("k") == "Assign"]
            same = False
            for w in writes:
                tgt = w["a"][0] if w.get("k") == "Call" else w["l"]
                chain = T.field_chain(tgt)[1]
                if chain and chain[-1] == slot:
                    # written within the same guard
                    for w2, c2 in T.paths_to(fn["body"], lambda y: y is w):
                        if [id(c[1]) for c in c2] == [id(c[1]) for c in conds]:
                            same = True
            other_slot_written = any((T.field_chain(w["a"][0] if w.get("k") == "Call" else w["l"])[1] or [None])[-1] in ({"input0", "input1", "input2"} - {slot}) and any([id(c[1]) for c in c2] == [id(c[1]) for c in conds] for w2, c2 in T.paths_to(fn["body"], lambda y, w=w: y is w)) for w in writes)
            if same:
                run.holds("R3", key + "|rewrites-same-slot", "", F.loc(n))
            elif other_slot_written:
                run.violated("R3", key + "|rewrites-same-slot", "the load temporary for %s replaces a DIFFERENT operand slot" % slot, F.loc(n))
            else:
                run.undecided("R3", key + "|rewrites-same-slot", "rewrite of %s not recognised" % slot, F.loc(n))
            temps_by_slot[slot] = fmt(temp)
        if len(temps_by_slot) == 3:
            temps = list(temps_by_slot.values())
            run.check("R3", "implicit-load|distinct-temporaries", len(set(temps)) == 3, "each operand slot needs its own temporary register (otherwise two RAM operands of one operation overwrite each other); found %s" % temps, site)
        elif generic_form:
            # the name must depend on the loop index / slot
            fmts = [x for x in deep if T.is_call(x, ("format", "fmt", "must_use")) or (x.get("k") == "Call" and "format" in (x.get("f") or ""))]
            idx_dep = any(any(y.get("k") in ("Var", "Upvar") and y.get("n") in ("index", "i", "slot", "idx", "n") for y in T.walk(a)) for x in loads_deep for a in x["a"][1:2]) or any(any(y.get("k") in ("Var", "Upvar") for y in T.walk(x)) for x in fmts)
            lits = {T.show(x["a"][1]) for x in loads_deep if len(x["a"]) > 1 and T.peel(x["a"][1]).get("k") == "Lit"}
            if idx_dep:
                run.holds("R3", "implicit-load|distinct-temporaries", "temporary name built from the slot index", site)
            elif lits:
                run.violated("R3", "implicit-load|distinct-temporaries", "all operand slots use the same temporary register %s: two RAM operands of one operation overwrite each other" % sorted(lits), site)
            else:
                run.undecided("R3", "implicit-load|distinct-temporaries", "naming of the load temporaries not recognised", site)
        else:
            run.undecided("R3", "implicit-load|distinct-temporaries", "naming of the load temporaries not recognised", site)
        # indirect jump targets: specialise on the mnemonic
        from .lib import peval as PE
        jm = [m for m in T.walk_fn(F, fn) if m.get("k") == "Match" and any(v_ in T.pat_variant_names(a["p"]) for a in m["arms"] for v_ in ("BRANCHIND", "CALLIND"))]
        scr = {id(m["e"]) for m in jm} | {id(T.peel(m["e"])) for m in jm}
        ind = set()
        for v in ("BRANCHIND", "CALLIND"):
            spec = PE.Spec(F, assume=lambda n, v=v: ("enum", v) if id(n) in scr else None)
            # the loop over the jumps of the block
            roots = [b for (n_, p_, it, b) in T.for_loops(fn["body"]) if any(y.get("k") == "Field" and y.get("fn") == "jmps" for y in T.walk(it))]
            nodes = [x for r_ in roots for x in spec.reach(r_, {})]
            hit = False
            for x in nodes:
                if T.is_call(x, "to_load_def"):
                    hit = True
                elif x.get("k") == "Call" and "f" in x:
                    g = F.by_path.get(x.get("r") or "") or F.by_path.get(x.get("f") or "")
                    if g is not None and any(T.is_call(y, "to_load_def") for y in T.walk_deep(F, g["body"], depth=1)):
                        hit = True
            if hit:
                ind.add(v)
        if ind == {"BRANCHIND", "CALLIND"}:
            run.holds("R3", "implicit-load|indirect-jump-targets", "", site)
        elif not jm:
            run.undecided("R3", "implicit-load|indirect-jump-targets", "no dispatch on the jump mnemonic found", site)
        else:
            run.violated("R3", "implicit-load|indirect-jump-targets", "RAM-resident targets of BRANCHIND and CALLIND must be loaded explicitly; for %s no load is reachable" % sorted({"BRANCHIND", "CALLIND"} - ind), site)
        # sub-register substitution covers every Expression slot
        mod = "pcode::subregister_substitution"
        cands = [f for f in F.fns if f["mod"].endswith(mod) and f["dk"] != "Closure" and "expn" not in f]
        def covered(adt, universe):
            cov = set()
            for f in cands:
                for (v, fl) in universe:
                    if SL.slot_bindings(F, f, adt, v, fl):
                        if any(SL.uses(F, f, b[0]) for b in SL.slot_bindings(F, f, adt, v, fl)):
                            cov.add((v, fl))
            return cov
        duni = SL.fields_of_type(F, "intermediate_representation::def::Def", SL.is_expression_ty)
        juni = SL.fields_of_type(F, "intermediate_representation::jmp::Jmp", SL.is_expression_ty)
        dc, jc = covered("def::Def", duni), covered("jmp::Jmp", juni)
        for (v, fl) in duni:
            run.check("R3", "subregister|Def::%s.%s" % (v, fl), (v, fl) in dc, "sub-register substitution does not visit Def::%s.%s: sub-registers read there are not replaced by their base register" % (v, fl))
        for (v, fl) in juni:
            run.check("R3", "subregister|Jmp::%s.%s" % (v, fl), (v, fl) in jc, "sub-register substitution does not visit Jmp::%s.%s" % (v, fl))
        run.floor("subregister substitution functions", len(cands), 5)

    run.guarded("R3", r3)

    # ------------------------------------------------------------------ R4 consumed input defs are emitted
    run.rule("R4", "sub-register output folding: a Def consumed from the input iterator is carried over into the output (not just its tid)")

    def r4():
        fn = F.fn("replace_output_subregister", mod="pcode::subregister_substitution")
        t = S.Sym(F).term(fn["body"])
        site = F.loc(fn["body"])

        def is_next(x):
            return is_call(x, "next") and x[2] and fmt(x[2][0]).endswith("self.input_iter")

        def consumed_names(scope):
            """locals bound (letstmt) to a consumed def, plus a marker for inlined consumption"""
            out = set()
            for y in S.subterms(scope):
                if isinstance(y, tuple) and y and y[0] == "letstmt" and any(is_next(z) for z in S.subterms(y[2])):
                    out.add(y[1])
            return out

        def is_consumed(x, names):
            if isinstance(x, tuple) and x and x[0] == "var" and x[1] in names:
                return True
            y = x
            while is_call(y, ("unwrap", "clone", "expect", "to_owned")) and y[2]:
                y = y[2][0]
            return is_next(y)

        # every sequence (branch) that consumes a def
        seqs = [x for x in S.subterms(t) if isinstance(x, tuple) and x and x[0] == "seq" and any(is_next(z) for st in x[1] for z in S.subterms(st) if not (isinstance(st, tuple) and st and st[0] == "ite"))]
        n = 0
        for sq in seqs:
            names = consumed_names(sq)
            pushes = [y for y in S.subterms(sq) if is_call(y, "push") and y[2] and fmt(y[2][0]).endswith("self.output_defs")]
            if not pushes:
                continue
            n += 1
            whole, tid_only = False, False
            for p_ in pushes:
                arg = p_[2][1]
                occ_whole, occ_tid = False, False

                def scan(x, parent_field=None):
                    nonlocal occ_whole, occ_tid
                    if not isinstance(x, tuple) or not x:
                        return
                    if is_consumed(x, names):
                        if parent_field == "tid":
                            occ_tid = True
                        else:
                            occ_whole = True
                        return
                    if x[0] == "field":
                        scan(x[1], x[2])
                        return
                    for y in x[1:]:
                        if isinstance(y, tuple):
                            if y and isinstance(y[0], str):
                                scan(y)
                            else:
                                for z in y:
                                    if isinstance(z, tuple):
                                        scan(z) if (z and isinstance(z[0], str)) else [scan(w) for w in z if isinstance(w, tuple)]
                scan(arg)
                whole |= occ_whole
                tid_only |= occ_tid and not occ_whole
            key = "replace_output_subregister|consumed-def-emitted|%d" % n
            if whole:
                run.holds("R4", key, "", site)
            elif tid_only:
                run.violated("R4", key, "a Def is taken from the input iterator (the cast of the sub-register to its base register) but only its tid reaches the output: its expression -- the kind of cast (sign extension, popcount, ...) -- is replaced by whatever the new Def hard-codes", site)
            else:
                run.undecided("R4", key, "a consumed input Def does not visibly reach output_defs", site)
        if n == 0:
            run.undecided("R4", "replace_output_subregister|consumed-def-emitted", "no branch of replace_output_subregister both consumes the next input Def and pushes to output_defs (the folding may live in helper functions, which this rule does not follow)", site)

    run.guarded("R4", r4)
