"""C07 The worklist solver computes the least solution for any order -- worklist protocol.

Computation keeps the invariant "a node whose value changed since it was last processed
is in the worklist"; least fixpoint and termination under any priority order follow from
it plus monotonicity of the client.
 R1 who may write node_values / worklist (private fields, writers enumerated)
 R2 change => enqueue: every write of a node value enqueues that node's priority
 R3 nothing is lost: every dequeued node is processed or kept; every edge is updated;
    a Some result is merged; a changed merge result is stored (compared with the OLD value)
 R4 step bound: steps < max guards processing, increment with it; stabilized <=> empty worklist
 R5 order is free (deliberately no rule); priority lists contain every node exactly once
 R3+ (added after seed C07c) a priority leaves the worklist BEFORE its node is processed (execution order, helpers followed)
"""
from .lib import sym as S
from .lib import thir as T
from .lib.sym import fmt


def is_call(t, name=None):
    return isinstance(t, tuple) and t and t[0] == "call" and (name is None or t[1] == name or (isinstance(name, (set, tuple, frozenset)) and t[1] in name))


def stmts_of(t):
    return list(t[1]) + [t[2]] if t[0] == "seq" else [t]


def self_field_term(t, name):
    return isinstance(t, tuple) and t and t[0] == "field" and t[2] == name and t[1][0] == "var" and t[1][1] == "self"


MUTATORS = ("insert", "remove", "values_mut", "get_mut", "entry", "clear", "retain", "iter_mut", "drain", "extend", "take", "pop_first", "pop_last", "append", "split_off", "push", "truncate", "swap_remove")


def run(run):
    F = run.facts()
    run.explanation = (
        "Static protocol analysis of analysis::fixpoint::Computation: the four state fields are private (compiler visibility data), "
        "so all writers live in fixpoint.rs and are enumerated from the THIR (mutating calls / assignments on self.<field>); for each "
        "writer of node_values the enqueue of the written node's priority is required on the same path; the dequeue-process loops are "
        "checked for lost nodes on the normalised term (both branches of the step test, re-assignment of the worklist); the merge "
        "test is required to compare against the old value. No rule constrains which element is taken next. Decides the worklist "
        "invariant, not monotonicity or finite height of client lattices.")
    run.rule("R1", "fields of Computation are private; writers of node_values are known")
    run.rule("R2", "every write of a node value enqueues the node's priority on the same path")
    run.rule("R3", "no dequeued node, edge or changed value is lost")
    run.rule("R4", "step bound guards processing; stabilized <=> worklist empty")
    run.rule("R5", "priority lists enumerate every node of the graph once (no node filter)")

    comp = F.adt("analysis::fixpoint::Computation")
    methods = [f for f in F.fns if f.get("impl_adt", "").endswith("analysis::fixpoint::Computation") and f["dk"] != "Closure"]
    run.floor("Computation methods", len(methods), 8)

    def writers_of(field):
        out = []
        for f in methods:
            for n in T.walk_fn(F, f):
                if T.is_call(n, MUTATORS) and n["a"] and T.self_field(n["a"][0]) == field:
                    out.append((f, n))
                elif n.get("k") == "Assign" and T.self_field(n["l"]) == field:
                    out.append((f, n))
        return out

    def r1():
        for fld in comp["variants"][0]["fields"]:
            run.check("R1", "private|%s" % fld["name"], fld["vis"] != "pub", "Computation.%s is public: code outside fixpoint.rs could change node values without enqueuing them" % fld["name"])
        # no other module touches the fields (belt and braces: field accesses crate-wide)
        outside = set()
        for f in F.fns:
            if f.get("impl_adt", "").endswith("analysis::fixpoint::Computation") or f.get("root", "").find("fixpoint::Computation") >= 0:
                continue
            for n in T.walk(f["body"]):
                if n.get("k") == "Field" and n.get("adt", "").endswith("analysis::fixpoint::Computation"):
                    outside.add(f["path"])
        run.check("R1", "no-field-access-outside-impl", not outside, "fields of Computation are accessed outside its impl: %s" % sorted(outside)[:3])
        ws = writers_of("node_values")
        names = sorted({f["name"] for f, _ in ws})
        run.floor("writers of node_values", len(ws), 1)
        run.note("writers of self.node_values: %s" % names)

    run.guarded("R1", r1)

    def r2():
        for f, n in writers_of("node_values"):
            sy = S.Sym(F)
            env = {}
            t = sy.term(f["body"], env)
            site = F.loc(n)
            key = "%s|%s" % (f["name"], n.get("n", "assign"))
            if n.get("n") == "insert":
                node = sy.ev(n["a"][1], env)
                # an enqueue of node_priority_list[node.index()] into self.worklist with the same path conditions
                mine = [c for x, c in T.paths_to(f["body"], lambda y: y is n)][0]
                ok = False
                for m, conds in T.paths_to(f["body"], lambda y: T.is_call(y, "insert") and y["a"] and T.self_field(y["a"][0]) == "worklist"):
                    pri = sy.ev(m["a"][1], env)
                    good_pri = is_call(pri, "index") and self_field_term(pri[2][0], "node_priority_list") and is_call(pri[2][1], "index") and pri[2][1][2][0] == node
                    same_path = [id(c[1]) for c in conds if c[0] in ("if", "arm")] == [id(c[1]) for c in mine if c[0] in ("if", "arm")]
                    if good_pri and same_path:
                        ok = True
                run.check("R2", key, ok, "%s stores a node value without inserting node_priority_list[node.index()] of the same node into the worklist on that path: the change is never propagated" % f["name"], site)
            elif n.get("n") in ("values_mut", "iter_mut", "get_mut", "entry"):
                # all keys enqueued before the mutable access is handed out
                st = stmts_of(t)
                idx_mut = [i for i, s in enumerate(st) if any(is_call(x, n["n"]) and self_field_term(x[2][0], "node_values") for x in S.subterms(s))]
                ok = False
                for i, s in enumerate(st):
                    if idx_mut and i < idx_mut[0] and s[0] == "for":
                        it = s[2]
                        if any(is_call(x, ("keys", "iter")) and self_field_term(x[2][0], "node_values") for x in S.subterms(it)):
                            ins = [x for x in S.subterms(s) if is_call(x, "insert") and self_field_term(x[2][0], "worklist")]
                            filt = any(is_call(x, ("filter", "take", "skip", "step_by", "take_while", "skip_while")) for x in S.subterms(it))
                            if ins and not filt and any(is_call(y, "index") and self_field_term(y[2][0], "node_priority_list") for y in S.subterms(ins[0][2][1])):
                                ok = True
                if not ok:
                    # the same as an iterator chain: worklist.extend(node_values.keys().map(|n| node_priority_list[n.index()]))
                    from .lib import bindsrc as B
                    for i, s_ in enumerate(st):
                        if idx_mut and i < idx_mut[0]:
                            for x in S.subterms(s_):
                                if is_call(x, ("extend", "append")) and len(x[2]) == 2 and self_field_term(x[2][0], "worklist"):
                                    src = x[2][1]
                                    keys = any(is_call(y, ("keys", "iter")) and self_field_term(y[2][0], "node_values") for y in S.subterms(src))
                                    filt = any(is_call(y, ("filter", "take", "skip", "step_by", "take_while", "skip_while", "filter_map")) for y in S.subterms(src))
                                    pri = False
                                    for y in S.subterms(src):
                                        if isinstance(y, tuple) and y and y[0] == "closure":
                                            c_ = F.by_path.get(y[1])
                                            if c_ is not None and any(z.get("k") == "Field" and z.get("fn") == "node_priority_list" for z in T.walk(c_["body"])) or (c_ is not None and any(z.get("k") in ("Var", "Upvar") and "priority" in (z.get("n") or "") for z in T.walk(c_["body"]))):
                                                pri = True
                                    if keys and not filt and pri:
                                        ok = True
                run.check("R2", key, ok, "%s hands out mutable access to node values without first enqueuing every node that has a value" % f["name"], site)
            else:
                run.undecided("R2", key, "unrecognised mutation of node_values", site)
        # constructor: values and worklist filled together
        f = F.fn("from_node_priority_list", adt="Computation")
        sy = S.Sym(F)
        env = {}
        t = sy.term(f["body"], env)
        ok = False
        for (node, pat, it, body) in T.for_loops(f["body"]):
            ins = [x for x in T.walk(body) if T.is_call(x, "insert")]
            tgt = {T.show(x["a"][0]).replace("&mut ", "") for x in ins}
            if {"worklist", "node_values"} <= tgt:
                # same index variable
                bi = T.pat_bindings(pat)
                if bi:
                    iid = bi[0][0]
                    wl = [x for x in ins if "worklist" in T.show(x["a"][0])][0]
                    nv = [x for x in ins if "node_values" in T.show(x["a"][0])][0]
                    ok = T.var_id(wl["a"][1]) == iid and any(y.get("k") == "Var" and y["id"] == iid for y in T.walk(nv["a"][1]))
        res = S.value(t)
        flds = dict(res[3]) if res[0] == "adt" and res[1].endswith("Computation") else {}
        site_c = F.loc(f["body"])
        if ok:
            run.holds("R2", "from_node_priority_list|default-values-enqueued", "same loop, same index", site_c)
        else:
            # other recognised form: both containers are collected from the SAME index range (in the same branch)
            def sources(term):
                """range terms a container is collected from; 'empty' for new()/default(); None if unknown"""
                out = []
                def rec(z):
                    z = S.value(z)
                    if z[0] == "field" and isinstance(z[2], str) and z[2].isdigit():
                        b = S.value(z[1])
                        if b[0] == "match":
                            for a in b[2]:
                                bb = S.value(a[2])
                                if bb[0] == "tuple" and int(z[2]) < len(bb[1]):
                                    rec(bb[1][int(z[2])])
                                else:
                                    out.append(None)
                            return
                        if b[0] == "ite":
                            for br in (b[2], b[3]):
                                bb = S.value(br)
                                if bb[0] == "tuple" and int(z[2]) < len(bb[1]):
                                    rec(bb[1][int(z[2])])
                                else:
                                    out.append(None)
                            return
                        out.append(None)
                        return
                    if is_call(z, ("new", "default")) and not z[2]:
                        out.append("empty")
                        return
                    if is_call(z, "collect") and z[2]:
                        src = S.value(z[2][0])
                        while is_call(src, ("map", "cloned", "copied", "into_iter", "iter")) and src[2]:
                            src = S.value(src[2][0])
                        out.append(fmt(src))
                        return
                    out.append(None)
                rec(term)
                return out
            wl_s, nv_s = sources(flds.get("worklist", ("?",))), sources(flds.get("node_values", ("?",)))
            key = "from_node_priority_list|default-values-enqueued"
            if wl_s and nv_s and None not in wl_s and None not in nv_s and wl_s == nv_s:
                run.holds("R2", key, "worklist and node values are collected from the same index ranges %s" % wl_s, site_c)
            elif wl_s and nv_s and None not in wl_s and None not in nv_s and all(w == "empty" for w in wl_s) and any(v != "empty" for v in nv_s):
                run.violated("R2", key, "default values are stored for the nodes (%s) but the worklist stays empty: nodes with a value that were never processed are not in the worklist" % nv_s, site_c)
            else:
                run.undecided("R2", key, "construction of worklist / node values not recognised (%s / %s)" % (wl_s, nv_s), site_c)
        if flds:
            wlf = S.value(flds.get("worklist", ("?",)))
            if is_call(wlf, ("new", "default")) and not wlf[2] and any(T.is_call(x, "insert") and "worklist" in T.show(x["a"][0]) for x in T.walk(f["body"])):
                run.violated("R2", "from_node_priority_list|fields", "the constructor fills a local worklist but stores a fresh empty one", site_c)
            else:
                run.holds("R2", "from_node_priority_list|fields", "", site_c)

    run.guarded("R2", r2)

    def r3():
        # compute
        f = F.fn("compute", adt="Computation")
        t = S.Sym(F).term(f["body"])
        loops = [x for x in S.subterms(t) if isinstance(x, tuple) and x and x[0] == "loop"]
        ok = False
        if loops:
            b = S.value(loops[0][1])
            if b[0] == "ite" and b[1][0] == "let" and is_call(b[1][2], "take_next_node_from_worklist"):
                body = b[2]
                calls = [x for x in S.subterms(body) if is_call(x, "update_node")]
                cond = [x for x in S.subterms(body) if isinstance(x, tuple) and x and x[0] in ("ite", "match")]
                ok = len(calls) == 1 and not cond and calls[0][2][1][0] == "field" and calls[0][2][1][2] == "Some.0"
        if not ok:
            # the loop body may live in a helper shared with compute_with_max_steps: specialise compute() with helpers followed
            # ("no step bound") -- is a node taken from the worklist and update_node reached, with no exit in between?
            from .lib import peval as PE1
            nodes_c = PE1.Spec(F, follow_calls=True).reach(f["body"], {})
            takes = [i for i, x in enumerate(nodes_c) if (T.is_call(x, ("pop_last", "take", "pop_first", "remove")) and x.get("a") and T.self_field(x["a"][0]) == "worklist") or T.is_call(x, ("take_next_node_from_worklist", "take_next_priority_from_worklist"))]
            upds = [i for i, x in enumerate(nodes_c) if T.is_call(x, "update_node")]
            if takes and upds and min(takes) < min(upds):
                run.undecided("R3", "compute|every-dequeued-node-processed", "compute() processes its nodes through a helper; that every dequeued node reaches update_node is not decided path by path", F.loc(f["body"]))
            else:
                run.violated("R3", "compute|every-dequeued-node-processed", "compute() must call update_node for every node it takes from the worklist", F.loc(f["body"]))
        else:
            run.holds("R3", "compute|every-dequeued-node-processed", "", F.loc(f["body"]))
        # compute_with_max_steps
        f = F.fn("compute_with_max_steps", adt="Computation")
        sy = S.Sym(F)
        env = {}
        t = sy.term(f["body"], env)
        st = stmts_of(t)
        site = F.loc(f["body"])
        loop_idx = [i for i, s in enumerate(st) if s[0] == "loop"]
        ifs = [x for x in S.subterms(t) if isinstance(x, tuple) and x and x[0] == "ite" and x[1][0] != "let" and any(is_call(y, "update_node") for y in S.subterms(x[2])) != any(is_call(y, "update_node") for y in S.subterms(x[3]))]
        if not loop_idx or not ifs:
            run.undecided("R3", "compute_with_max_steps|shape", "loop / step test not found", site)
        else:
            x = ifs[0]
            proc_b, keep_b = (x[2], x[3]) if any(is_call(y, "update_node") for y in S.subterms(x[2])) else (x[3], x[2])
            kept = [y for y in S.subterms(keep_b) if is_call(y, "insert")]
            kept_ok = bool(kept) and kept[0][2][0][0] == "var"
            setname = kept[0][2][0][1] if kept_ok else None
            run.check("R3", "compute_with_max_steps|unprocessed-node-kept", kept_ok, "a node that is dequeued but not processed (step bound reached) must be remembered; otherwise has_stabilized() claims a fixpoint that was not reached", site)
            # the remembered priority is the dequeued one
            if kept_ok:
                pri = kept[0][2][1]
                proc_calls = [y for y in S.subterms(proc_b) if is_call(y, "update_node")]
                node_arg = proc_calls[0][2][1]
                same = is_call(node_arg, "index") and node_arg[2][1] == pri
                run.check("R3", "compute_with_max_steps|kept-is-dequeued", same, "the priority remembered as non-stabilized must be the one of the dequeued node; found %s vs node %s" % (fmt(pri), fmt(node_arg)), site)
            assigns = [(i, s) for i, s in enumerate(st) if s[0] == "assign" and self_field_term(s[1], "worklist")]
            ok = bool(assigns) and assigns[0][0] > loop_idx[0] and assigns[0][1][2][0] == "var" and assigns[0][1][2][1] == setname
            run.check("R3", "compute_with_max_steps|worklist-restored", ok, "after the loop the worklist must become the set of non-stabilized nodes", site)
        # a priority leaves the worklist BEFORE its node is processed: processing may put the same node back (self-loop edge,
        # merge into itself); a removal after update_node would delete exactly that re-insertion
        from .lib import peval as PE0
        for fname in ("compute_with_max_steps", "compute"):
            g = F.fn(fname, adt="Computation")
            nodes = PE0.Spec(F, follow_calls=True).reach(g["body"], {})
            upd = [i for i, x in enumerate(nodes) if T.is_call(x, "update_node")]
            rem = [i for i, x in enumerate(nodes) if T.is_call(x, ("remove", "take", "pop_last", "pop_first", "pop", "split_off")) and x.get("a") and T.self_field(x["a"][0]) == "worklist"]
            key = "%s|dequeue-before-processing" % fname
            if not upd:
                run.undecided("R3", key, "update_node is not called (directly or through a helper)", F.loc(g["body"]))
            elif not rem:
                run.undecided("R3", key, "no removal from the worklist found", F.loc(g["body"]))
            else:
                late = [i for i in rem if i > min(upd)]
                early = [i for i in rem if i < min(upd)]
                if late and not early:
                    run.violated("R3", key, "the priority is removed from the worklist only AFTER update_node ran: a node that re-enqueues itself while it is processed (self-loop edge) loses that entry, the solver stops with the worklist empty on a value that is not closed under its edges", F.loc(nodes[late[0]]))
                elif late:
                    run.violated("R3", key, "the worklist is pruned again after update_node ran: entries made by the processing can be lost", F.loc(nodes[late[0]]))
                else:
                    run.holds("R3", key, "", F.loc(g["body"]))
        # update_node
        f = F.fn("update_node", adt="Computation")
        sy = S.Sym(F)
        env = {}
        t = sy.term(f["body"], env)
        from .lib import iterctx as IC
        from .lib import bindsrc as B
        ue = [x for x in T.walk_fn(F, f) if T.is_call(x, "update_edge")]
        ok = False
        if len(ue) == 1:
            ctx = IC.contexts(F, f, ue[0])
            roots = B.bodies(F, f)
            node_ids = {b[0] for p_ in f["params"] if p_.get("p") for b in T.pat_bindings(p_["p"]) if b[1] == "node"}
            outgoing, filt = False, []
            for e_ in ctx:
                for src, how in B.sources(F, roots, e_):
                    for x in B.walk_with_closures(F, src):
                        if T.is_call(x, "edges") and len(x["a"]) == 2 and T.root_var_id(x["a"][1]) in node_ids:
                            outgoing = True
                        if T.is_call(x, IC.RESTRICT):
                            filt.append(x["n"])
            own, _chain = IC.owner(F, f, ue[0])
            conds = [cd for n_, cds in T.paths_to(own["body"], lambda y: y is ue[0]) for cd in cds if not (cd[0] == "arm" and (cd[1].get("ms", "").startswith("ForLoop") or T.is_call(T.peel(cd[1]["e"]), "next")))]
            exits = [x for x in T.walk(own["body"]) if x.get("k") in ("Break", "Continue", "Return") and x.get("ds") not in ("ForLoop", "WhileLoop")]
            ok = outgoing and not filt and not conds and not exits
        run.check("R3", "update_node|every-outgoing-edge-updated", ok, "update_node must call update_edge for every outgoing edge of the node (graph.edges(node), no filter, no early exit)", F.loc(f["body"]))
        # update_edge
        f = F.fn("update_edge", adt="Computation", trait="")
        sy = S.Sym(F)
        env = {}
        t = sy.term(f["body"], env)
        ms = [(n, c) for n, c in T.paths_to(f["body"], lambda y: T.is_call(y, "merge_node_value"))]
        ok = False
        why = ""
        if len(ms) == 1:
            n, conds = ms[0]
            a = [sy.ev(x, env) for x in n["a"]]
            lets = [sy.ev(c[1], env) for c in conds if c[0] == "if" and c[2] is True]
            letelses = [c for c in conds if c[0] == "letelse"]
            # target = endpoints.1 ; value = Some payload of fp_context.update_edge(start value, edge)
            tgt_ok = a[1][0] == "field" and a[1][2] == "1" and any(is_call(y, "edge_endpoints") for y in S.subterms(a[1]))
            val_ok = a[2][0] == "field" and a[2][2] == "Some.0" and is_call(a[2][1], "update_edge") and "Context" in a[2][1][3]
            start = None
            if val_ok:
                sv = a[2][1][2][1]
                start = sv[0] == "field" and sv[2] == "Some.0" and is_call(sv[1], "get") and any(y[0] == "field" and y[2] == "0" and any(is_call(z, "edge_endpoints") for z in S.subterms(y)) for y in S.subterms(sv[1][2][1]) if isinstance(y, tuple) and y)
            n_ifs = len([c for c in conds if c[0] == "if"])
            only_lets = all(l[0] == "let" and l[1].startswith("Some") for l in lets) and n_ifs + len(letelses) == 2 and all(T.show_pat(c[1]["p"]).startswith("Some") for c in letelses)
            ok = tgt_ok and val_ok and bool(start) and only_lets
            why = "target=%s value=%s" % (fmt(a[1])[:80], fmt(a[2])[:120])
            if ok:
                run.holds("R3", "update_edge|some-result-merged-into-end-node", "", F.loc(f["body"]))
            else:
                # positive evidence of a wrong construction vs. an unrecognised shape
                wrong_target = a[1][0] == "field" and a[1][2] == "0" and any(is_call(y, "edge_endpoints") for y in S.subterms(a[1]))
                extra_conds = [c for c in conds if c[0] == "if" and not (T.peel(c[1]).get("k") == "Let")]
                if wrong_target:
                    run.violated("R3", "update_edge|some-result-merged-into-end-node", "the transfer result is merged into the START node of the edge (%s)" % why, F.loc(f["body"]))
                elif extra_conds:
                    run.violated("R3", "update_edge|some-result-merged-into-end-node", "the merge of the transfer result depends on an additional condition `%s`: an existing result may be dropped" % T.show(extra_conds[0][1])[:80], F.loc(f["body"]))
                else:
                    run.undecided("R3", "update_edge|some-result-merged-into-end-node", "shape not recognised: %s" % why, F.loc(f["body"]))
        elif not ms:
            run.violated("R3", "update_edge|some-result-merged-into-end-node", "update_edge never merges a transfer result into a node", F.loc(f["body"]))
        else:
            run.undecided("R3", "update_edge|some-result-merged-into-end-node", "%d merge sites" % len(ms), F.loc(f["body"]))
        # merge_node_value
        f = F.fn("merge_node_value", adt="Computation")
        sy = S.Sym(F)
        env = {}
        t = S.value(sy.term(f["body"], env))
        site = F.loc(f["body"])
        ok_shape = t[0] == "ite" and t[1][0] == "let" and t[1][1].startswith("Some") and is_call(t[1][2], "get") and self_field_term(t[1][2][2][0], "node_values")
        if not ok_shape:
            run.undecided("R3", "merge_node_value|shape", "outside vocabulary: %s" % fmt(t)[:200], site)
        else:
            old = ("field", t[1][2], "Some.0")
            then = S.value(t[2])
            els = t[3]
            # else: set_node_value(node, value) unconditionally
            e_calls = [x for x in S.subterms(els) if is_call(x, "set_node_value")]
            run.check("R3", "merge_node_value|first-value-stored", len(e_calls) == 1 and e_calls[0][2][1][0] == "var" and e_calls[0][2][1][1] == "node" and e_calls[0][2][2][0] == "var" and e_calls[0][2][2][1] == "value",
                      "a node without a value must receive the incoming value (and be enqueued)", site)
            inner = then if then[0] == "ite" else None
            if inner is None:
                ites = [x for x in S.subterms(then) if isinstance(x, tuple) and x and x[0] == "ite"]
                inner = ites[0] if ites else None
            if inner is None:
                run.violated("R3", "merge_node_value|changed-value-stored", "the merged value is stored unconditionally or never: no change test found", site)
            else:
                c = inner[1]
                pol = True
                while c[0] == "not":
                    c, pol = c[1], not pol
                good = False
                detail = fmt(inner[1])
                if is_call(c, ("ne", "eq")) and len(c[2]) == 2:
                    sides = list(c[2])
                    merged = [s for s in sides if is_call(s, "merge")]
                    olds = [s for s in sides if s == old]
                    store_b = inner[2] if ((c[1] == "ne") == pol) else inner[3]
                    sc = [x for x in S.subterms(store_b) if is_call(x, "set_node_value")]
                    good = len(merged) == 1 and len(olds) == 1 and len(sc) == 1 and is_call(sc[0][2][2], "merge")
                    if merged and not olds:
                        detail += " (compares the merged value with %s instead of the old value)" % fmt([s for s in sides if not is_call(s, "merge")][0])
                    # merge must combine the incoming and the old value
                    if merged:
                        margs = merged[0][2][1:]
                        good = good and old in margs and any(a[0] == "var" and a[1] == "value" for a in margs)
                run.check("R3", "merge_node_value|changed-value-stored", good, "the merged value must be stored (and the node enqueued) exactly when it differs from the OLD value of the node; test is %s" % detail, site)

    run.guarded("R3", r3)

    def r4():
        f = F.fn("compute_with_max_steps", adt="Computation")
        sy = S.Sym(F, fold=True)
        env = {}
        t = sy.term(f["body"], env)
        site = F.loc(f["body"])
        ifs = [x for x in S.subterms(t) if isinstance(x, tuple) and x and x[0] == "ite" and x[1][0] != "let" and any(is_call(y, "update_node") for y in S.subterms(x[2])) != any(is_call(y, "update_node") for y in S.subterms(x[3]))]
        if not ifs:
            run.undecided("R4", "step-test", "not found", site)
        else:
            x = ifs[0]
            c = x[1]
            then_proc = any(is_call(y, "update_node") for y in S.subterms(x[2]))
            extra_inc = ()
            cv = S.value(c)
            if cv[0] == "ite" and S.value(cv[2]) == ("lit", True) and S.value(cv[3]) == ("lit", False):
                # the test was moved into a closure / helper that also does the bookkeeping: `if consume_step(node) {..}`
                c, extra_inc = cv[1], cv[2]
            elif cv[0] == "ite" and S.value(cv[2]) == ("lit", False) and S.value(cv[3]) == ("lit", True):
                c, extra_inc = ("not", cv[1]), cv[3]
                if c[1][0] == "bin" and c[1][1] in ("Lt", "Ge"):
                    c = ("bin", "Ge" if c[1][1] == "Lt" else "Lt", c[1][2], c[1][3])
            ok = c[0] == "bin" and ((c[1] == "Lt" and then_proc) or (c[1] == "Ge" and not then_proc)) and is_call(c[2], "index") and c[2][2][0][0] == "var" and c[2][2][0][1] == "steps" and c[3][0] == "var" and c[3][1] == "max_steps"
            if c[0] != "bin":
                run.undecided("R4", "step-test|steps-lt-max", "the test that guards the processing is not a comparison: %s" % fmt(c)[:120], site)
                return_early = True
            else:
                return_early = False
                run.check("R4", "step-test|steps-lt-max", ok, "a node may be processed only while steps[node] < max_steps; test is %s" % fmt(c), site)
            proc_b = x[2] if then_proc else x[3]
            if extra_inc:
                proc_b = ("seq", (extra_inc,), proc_b)
            incs = [y for y in S.subterms(proc_b) if isinstance(y, tuple) and y and y[0] == "assignop" and y[1] in ("Add", "AddAssign") and is_call(y[2], ("index", "index_mut")) and y[2][2][0][0] == "var" and y[2][2][0][1] == "steps" and y[3] == ("lit", 1)]
            same_idx = bool(incs) and incs[0][2][2][1] == c[2][2][1]
            if return_early:
                run.undecided("R4", "step-test|increment-with-processing", "the step test was not recognised", site)
            else:
                run.check("R4", "step-test|increment-with-processing", same_idx, "every processing of a node must increment that node's step counter by one", site)
        f = F.fn("has_stabilized", adt="Computation")
        t = S.value(S.Sym(F).term(f["body"]))
        run.check("R4", "has_stabilized|iff-worklist-empty", is_call(t, "is_empty") and self_field_term(t[2][0], "worklist"), "has_stabilized() must be exactly worklist.is_empty(); found %s" % fmt(t), F.loc(f["body"]))
        f = F.fn("set_node_value", adt="Computation")
        run.check("R4", "set_node_value|public-entry-enqueues", any(T.is_call(n, "insert") and T.self_field(n["a"][0]) == "worklist" for n in T.walk(f["body"])), "start values set through set_node_value must be enqueued", F.loc(f["body"]))

    run.guarded("R4", r4)

    def r5():
        for name in ("create_bottom_up_worklist", "create_top_down_worklist"):
            f = F.fn(name, mod="forward_interprocedural_fixpoint")
            deep = list(T.walk_deep(F, f["body"], 2))
            bad = [x["n"] for x in deep if T.is_call(x, ("remove_node", "retain_nodes", "filter", "filter_map", "take", "skip", "dedup", "truncate", "pop", "step_by", "take_while", "skip_while", "clear", "filter_map_nodes"))]
            scc = any(T.is_call(x, ("kosaraju_scc", "tarjan_scc", "toposort")) for x in deep)
            concat = any(T.is_call(x, ("flatten", "extend", "append", "concat", "flat_map", "extend_from_slice")) for x in deep)
            if scc and not concat and not bad:
                run.undecided("R5", "%s|all-nodes-once" % name, "how the components are concatenated is not recognised", F.loc(f["body"]))
            else:
                run.check("R5", "%s|all-nodes-once" % name, not bad and scc and concat, "the priority list must contain every node of the graph exactly once (flattened SCCs of a graph with the same node set); node-removing calls: %s" % bad, F.loc(f["body"]))
        f = F.fn("new", adt="Computation", mod="analysis::fixpoint")
        t = S.Sym(F).term(f["body"])
        bad = [x[1] for x in S.subterms(t) if is_call(x, ("filter", "filter_map", "take", "skip", "dedup", "truncate", "step_by"))]
        run.check("R5", "Computation::new|all-nodes-once", not bad and any(is_call(x, "flatten") for x in S.subterms(t)), "default priority list must enumerate all nodes", F.loc(f["body"]))

    run.guarded("R5", r5)
