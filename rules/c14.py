"""C14 Function signatures never miss a register parameter -- access-flag transfer table.

The path-sensitive statement is not decided. Decided are the conditions without which a
read cannot be recorded at all:
 R1 every parameter register of the calling convention is tracked from the function entry
 R2 every read is flagged: every Expression slot of Def/Jmp (derived from the types) is
    passed to a read-flag setter on the state that is returned, before the defined register
    is overwritten
 R3 "some path" = union: tracked ids are merged with the union strategy and every access
    flag is joined with `||`
 R4 extraction keeps every accessed register parameter (no filter on the register)
How: R2 by may-flow from each slot to the read-flag setter (through helpers), receiver traced to the returned state, and
by specialisation per slot (for Store.value the four cases plain register x exact stack offset).
 R2+ (added after seed C14c) get_offset_if_exact_stack_pointer requires the stack frame to be the UNIQUE target of the address
"""
from .lib import slots as SL
from .lib import sym as S
from .lib import thir as T
from .lib.sym import fmt

READ_SETTERS = ("set_read_flag_for_input_ids_of_expression",)
NONTRIVIAL = "set_read_flag_for_input_ids_of_nontrivial_expression"
CTX = "analysis::function_signature::context"


def is_call(t, name=None):
    return isinstance(t, tuple) and t and t[0] == "call" and (name is None or t[1] == name or (isinstance(name, (set, tuple, frozenset)) and t[1] in name))


def run(run):
    F = run.facts()
    run.explanation = (
        "Static slot-coverage analysis of the function-signature analysis: the Expression-typed fields of Def and Jmp are derived from "
        "the type definitions and each must be passed (as the bound slot itself) to the read-flag setter in the transfer function that "
        "sees it, on the state that is returned and before the defined register is overwritten; the entry state must track every "
        "parameter register of the calling convention; the merge of access patterns must be a field-wise `||` under the union map "
        "strategy; the parameter extraction must not filter by register. Decides these necessary conditions, not the path-sensitive "
        "statement.")
    run.rule("R1", "every parameter register (integer and float inputs) is tracked from the entry; only the stack register is excluded")
    run.rule("R2", "every Expression slot of Def/Jmp is read-flagged on the returned state before the defined register is overwritten")
    run.rule("R3", "tracked ids use the union merge strategy; access flags joined with || per field")
    run.rule("R4", "parameter extraction keeps every accessed register parameter")

    def r1():
        fn = F.fn("new", adt="State", mod="analysis::function_signature::state")
        sy = S.Sym(F)
        env = {}
        t = sy.term(fn["body"], env)
        site = F.loc(fn["body"])
        loops = [(n, p, it, b) for (n, p, it, b) in T.for_loops(fn["body"]) if any(T.is_call(x, "get_all_parameter_register") for x in T.walk(it))]
        if not loops:
            run.violated("R1", "State::new|iterates-all-parameter-registers", "the entry state is no longer built from calling_convention.get_all_parameter_register()", site)
            return
        n, pat, it, body = loops[0]
        itt = sy.ev(it, env)
        filt = [x[1] for x in S.subterms(itt) if is_call(x, ("filter", "take", "skip", "step_by", "take_while", "skip_while", "filter_map"))]
        exits = [x for x in T.walk(body) if x.get("k") in ("Break", "Continue", "Return")]
        run.check("R1", "State::new|iterates-all-parameter-registers", not filt and not exits, "the loop over the parameter registers must not filter or exit early (%s)" % filt, site)
        vid = T.pat_bindings(pat)[0][0] if T.pat_bindings(pat) else None
        ok_reg = ok_trk = False
        trk_conds = None
        for x, conds in T.paths_to(body, lambda y: T.is_call(y, "insert")):
            tgt = T.show(x["a"][0]).replace("&mut ", "")
            if tgt == "register_map" and not [c for c in conds if c[0] == "if"]:
                ok_reg = True
            if tgt == "tracked_ids":
                cs = [sy.ev(c[1], env) for c in conds if c[0] == "if"]
                trk_conds = cs
                ok_trk = all(is_call(c, "ne") and any(a[0] == "var" and a[1] == "stack_register" for a in c[2]) for c in cs) and len(cs) <= 1
        run.check("R1", "State::new|register-value-for-every-parameter", ok_reg, "every parameter register must get its parameter id as entry value", site)
        run.check("R1", "State::new|tracked-unless-stack-register", ok_trk, "every parameter register except the stack register must be tracked; conditions on the tracking: %s" % ([fmt(c) for c in trk_conds] if trk_conds else None), site)
        # the entry state of a function is built from THAT function's calling convention
        gf = F.fn("generate_fixpoint_computation", mod="analysis::function_signature")
        gt = S.Sym(F).term(gf["body"])
        news = [x for x in S.subterms(gt) if is_call(x, "new") and x[3].endswith("function_signature::state::State::new")]
        run.floor("entry-state constructions", len(news), 1)
        for i, x in enumerate(news):
            cc = x[2][2] if len(x[2]) >= 3 else None
            key = "generate_fixpoint_computation|entry-state-uses-the-function's-calling-convention|%d" % i
            site2 = F.loc(gf["body"])
            if cc is None:
                run.undecided("R1", key, "State::new arguments changed", site2)
                continue
            per_fn = any(isinstance(y, tuple) and y and y[0] == "field" and y[2] == "calling_convention" for y in S.subterms(cc))
            specific = any(is_call(y, "get_specific_calling_convention") for y in S.subterms(cc))
            standard_only = any(is_call(y, "get_standard_calling_convention") for y in S.subterms(cc)) and not per_fn
            if per_fn and specific:
                run.holds("R1", key, "", site2)
            elif standard_only:
                run.violated("R1", key, "the entry state of every function is built from the project's STANDARD calling convention (%s) instead of the convention the function is annotated with: parameter registers that only the function's own convention has (e.g. R10 of the x86-64 syscall convention, ECX/EDX of __fastcall) are not tracked and never reported" % fmt(cc)[:80], site2)
            else:
                run.undecided("R1", key, "calling convention argument %s" % fmt(cc)[:100], site2)
        fn = F.fn("get_all_parameter_register", adt="CallingConvention")
        t = S.Sym(F).term(fn["body"])
        ints = any(isinstance(x, tuple) and x and x[0] == "field" and x[2] == "integer_parameter_register" for x in S.subterms(t))
        floats = any(isinstance(x, tuple) and x and x[0] == "field" and x[2] == "float_parameter_register" for x in S.subterms(t)) and any(is_call(x, "input_vars") for x in S.subterms(t))
        filt = [x[1] for x in S.subterms(t) if is_call(x, ("filter", "take", "skip", "step_by", "take_while", "skip_while", "dedup", "truncate"))]
        run.check("R1", "get_all_parameter_register|integer-and-float", ints and floats and not filt, "the parameter register list must contain all integer parameter registers and all input registers of the float parameter expressions", F.loc(fn["body"]))

    run.guarded("R1", r1)

    def returned_ids(fn):
        full = S.Sym(F).term(fn["body"])
        outs = [S.value(full)] + [x[1] for x in S.subterms(full) if isinstance(x, tuple) and x and x[0] == "return"]
        return {x[2] for o in outs for x in S.subterms(o) if isinstance(x, tuple) and x and x[0] == "var"}

    def on_returned_state(fn, call):
        """the receiver of the setter is a local variable that the function returns (not a temporary copy)"""
        rid = T.root_var_id(call["a"][0])
        if rid is None:
            return False
        return rid in returned_ids(fn)

    def receiver_returned(top, mf, gp, rid, depth=0):
        """the receiver local `rid` of group gp is (an alias of) a state that `top` returns: directly, or because gp is a helper
        whose `&mut` parameter rid is bound to such a state at every call site in the reached functions"""
        if rid is None or depth > 3:
            return False
        if gp == top["path"]:
            return rid in returned_ids(top)
        g = F.by_path[gp]
        idx = None
        for i, p_ in enumerate(g["params"]):
            if p_.get("p") and any(b[0] == rid for b in T.pat_bindings(p_["p"])):
                idx = i
        if idx is None:
            return False
        sites = []
        for gp2 in list(mf.reached):
            g2 = F.by_path[gp2]
            for x in T.walk_fn(F, g2):
                if x.get("k") == "Call" and (F.by_path.get(x.get("r") or "") is g or F.by_path.get(x.get("f") or "") is g) and len(x.get("a", [])) == len(g["params"]):
                    sites.append((gp2, x))
        return bool(sites) and all(receiver_returned(top, mf, gp2, T.root_var_id(x["a"][idx]), depth + 1) for gp2, x in sites)

    def slot_flow(fn, adt, v, f):
        from .lib import mayflow as MF
        binds = SL.slot_bindings(F, fn, adt.split("::", 1)[1] if adt.startswith("intermediate_representation::") else adt, v, f, follow=False)
        mf = MF.MayFlow(F)
        for b in binds:
            mf.run(fn, {b[0]})
        return mf, {b[0] for b in binds}

    def flag_sites(fn, mf):
        """[(group path, call)] full read-flag setter calls whose expression argument may come from the slot and whose receiver
        is the state the transfer function returns"""
        out = []
        for gp, ids in mf.reached.items():
            g = F.by_path[gp]
            for b in mf.bodies(g):
                for c in T.walk(b["body"]):
                    if T.is_call(c, READ_SETTERS) and len(c["a"]) >= 2 and mf.mentions(c["a"][1], ids):
                        out.append((gp, c))
        return out

    def slots_of(adt):
        adtdef = F.adt(adt)
        return [(v["name"], f["name"]) for v in adtdef["variants"] for f in v["fields"] if SL.is_expression_ty(F.tyi(f["t"]))]

    def r2():
        from .lib import peval as PE
        fn = F.fn("update_def", mod=CTX)
        site = F.loc(fn["body"])
        def_slots = slots_of("intermediate_representation::def::Def")
        run.floor("Expression slots of Def", len(def_slots), 4)

        def scenario(variant, slot_ids, isvar=None, exact=None):
            hits = {"def": 0, "var": 0, "exact": 0}

            def assume(n):
                k = n.get("k")
                ty = (F.ty(n) or "").replace("&", "").replace("mut ", "").strip()
                if ty.endswith("def::Def") and k in ("Field", "Deref", "Borrow", "Call"):
                    hits["def"] += 1
                    return ("enum", variant)
                if exact is not None and k == "Call":
                    if n.get("n") in ("is_some", "is_none") and n.get("a") and any(T.is_call(y, "get_offset_if_exact_stack_pointer") for y in T.walk(n["a"][0])):
                        hits["exact"] += 1
                        return ("bool", exact == (n["n"] == "is_some"))
                    if n.get("n") == "get_offset_if_exact_stack_pointer":
                        hits["exact"] += 1
                        return ("enum", "Some" if exact else "None")
                if isvar is not None and k in ("Var", "Upvar") and n.get("id") in slot_ids and ty.endswith("expression::Expression"):
                    hits["var"] += 1
                    return ("enum", "Var" if isvar else "BinOp")
                return None
            nodes = PE.Spec(F, assume=assume, follow_calls=True).reach(fn["body"], {})
            return nodes, hits

        for (v, f) in sorted(def_slots):
            key = "update_def|Def::%s.%s" % (v, f)
            mf, ids = slot_flow(fn, "intermediate_representation::def::Def", v, f)
            if not ids:
                run.violated("R2", key, "the input registers of Def::%s.%s are not flagged as read (the slot is never bound): a parameter register that is only used there is not reported as a parameter" % (v, f), site)
                continue
            sites = flag_sites(fn, mf)
            if not sites:
                run.violated("R2", key, "the input registers of Def::%s.%s are not flagged as read (no value derived from the slot reaches %s): a parameter register that is only used there is not reported as a parameter" % (v, f, READ_SETTERS[0]), site)
                continue
            good_sites = [(gp, c) for gp, c in sites if receiver_returned(fn, mf, gp, T.root_var_id(c["a"][0]))]
            run.check("R2", key + "|on-returned-state", bool(good_sites), "the read flag must be set on the state that update_def returns", F.loc(sites[0][1]))
            site_ids = {id(c) for gp, c in good_sites}
            # on every path: specialise for the variant (and, for Store.value, for the four cases of the accepted exception)
            cases = [(None, None)] if (v, f) != ("Store", "value") else [(True, True), (True, False), (False, True), (False, False)]
            bad, unknown = [], False
            for isvar, exact in cases:
                nodes, hits = scenario(v, ids, isvar, exact)
                if not hits["def"]:
                    unknown = True
                    continue
                reached = [x for x in nodes if id(x) in site_ids]
                if not reached and not (isvar and exact):
                    bad.append({(None, None): "always", (True, False): "a plain register stored to a non-stack address", (False, True): "a computed value stored to an exact stack offset", (False, False): "a computed value stored to a non-stack address"}[(isvar, exact)])
            if unknown:
                run.undecided("R2", key + "|every-path", "no dispatch on the kind of definition found in update_def", site)
            else:
                run.check("R2", key + "|every-path", not bad, "Def::%s.%s must be read-flagged on every path (the only accepted exception: stores of a plain register to an exact stack offset); not flagged for: %s" % (v, f, bad), F.loc(sites[0][1]))
        # order: flag before the defined register is overwritten
        for v in ("Assign", "Load"):
            slots = [(vv, ff) for (vv, ff) in def_slots if vv == v]
            ids = set()
            for (vv, ff) in slots:
                ids |= slot_flow(fn, "intermediate_representation::def::Def", vv, ff)[1]
            nodes, hits = scenario(v, ids)
            idx_flag = [i for i, x in enumerate(nodes) if T.is_call(x, READ_SETTERS)]
            idx_set = [i for i, x in enumerate(nodes) if T.is_call(x, "set_register")]
            key = "update_def|%s|flag-before-overwrite" % v
            if not hits["def"] or not idx_set:
                run.undecided("R2", key, "the overwrite of the defined register (set_register) was not found for Def::%s" % v, site)
            else:
                run.check("R2", key, bool(idx_flag) and min(idx_flag) < min(idx_set), "the read flags of Def::%s must be set before the defined register is overwritten in the same state (`x = x + 1` reads the parameter x)" % v, site)
        # jumps
        def jump_slot(fname, v, f):
            g = F.fn(fname, mod=CTX)
            mf, ids = slot_flow(g, "intermediate_representation::jmp::Jmp", v, f)
            sites = [(gp, c) for gp, c in flag_sites(g, mf) if receiver_returned(g, mf, gp, T.root_var_id(c["a"][0]))] if ids else []
            return g, bool(sites)
        for (v, f) in (("BranchInd", "0"), ("Return", "0"), ("CBranch", "condition")):
            g, ok = jump_slot("update_jump", v, f)
            run.check("R2", "update_jump|Jmp::%s.%s" % (v, f), ok, "the input registers of Jmp::%s.%s are not flagged as read" % (v, f), F.loc(g["body"]))
        g, ok = jump_slot("update_call_stub", "CallInd", "target")
        run.check("R2", "update_call_stub|Jmp::CallInd.target", ok, "the input registers of an indirect call target are not flagged as read", F.loc(g["body"]))
        # the accepted exception of Store.value rests on the stack pointer being EXACT: the address must have the stack frame as
        # its only possible target (no other relative target, no absolute part, no Top)
        fex = F.find_fns(name="get_offset_if_exact_stack_pointer")
        fex = [g for g in fex if g.get("dk") != "Closure"]
        key = "get_offset_if_exact_stack_pointer|unique-target"
        if len(fex) != 1:
            run.undecided("R2", key, "get_offset_if_exact_stack_pointer not found uniquely", None)
        else:
            g = fex[0]
            deep = list(T.walk_deep(F, g["body"], 1))
            unique = any(T.is_call(x, "get_if_unique_target") for x in deep)
            other_evidence = any(T.is_call(x, ("len", "get_absolute_value", "contains_top", "is_top", "get_if_absolute_value", "referenced_ids")) for x in deep)
            rel = any(T.is_call(x, ("get_relative_values", "relative_values", "iter")) for x in deep)
            compares_stack = any(x.get("k") == "Field" and x.get("fn") == "stack_id" for x in deep)
            if unique and compares_stack:
                run.holds("R2", key, "", F.loc(g["body"]))
            elif rel and compares_stack and not unique and not other_evidence:
                run.violated("R2", key, "an address counts as an exact stack pointer only if the stack frame is its UNIQUE target; the function looks the stack id up among the relative targets without excluding other targets, an absolute part or Top: a store of a parameter register through a pointer that only MAY point to the stack is then treated as a register spill and the parameter is not reported", F.loc(g["body"]))
            else:
                run.undecided("R2", key, "how the uniqueness of the target is established is not recognised", F.loc(g["body"]))
        fn = F.fn("specialize_conditional", mod=CTX)
        cid = None
        for p in fn["params"]:
            if "p" in p:
                for (i, n, _) in T.pat_bindings(p["p"]):
                    if n == "condition":
                        cid = i
        ok = any(c["n"] in READ_SETTERS and T.var_id(c["a"][1]) == cid and on_returned_state(fn, c) for c in T.calls_fn(F, fn))
        run.check("R2", "specialize_conditional|condition", ok, "the condition of a conditional jump must be read-flagged", F.loc(fn["body"]))
        # the setter itself: every input var, every referenced id
        fn = F.fn("set_read_flag_for_input_ids_of_expression", adt="State", mod="analysis::function_signature::state")
        deep = list(T.walk_deep(F, fn["body"], depth=3))
        named = lambda nm: any((T.is_call(x, nm)) or (x.get("k") == "FnRef" and (x.get("f") or "").endswith("::" + nm)) for x in deep)
        ok = named("input_vars") and named("referenced_ids") and named("set_read_flag")
        filt = [x["n"] for x in deep if T.is_call(x, ("filter", "take", "skip", "first", "last", "find", "take_while", "skip_while", "step_by", "nth"))]
        exits = [x for x in T.walk(fn["body"]) if x.get("k") in ("Break", "Return") and x.get("ds") != "ForLoop"]
        key = "set_read_flag_for_input_ids_of_expression|all-inputs-all-ids"
        if ok and not filt and not exits:
            run.holds("R2", key, "", F.loc(fn["body"]))
        elif not ok:
            missing = [nm for nm in ("input_vars", "referenced_ids", "set_read_flag") if not named(nm)]
            run.violated("R2", key, "the setter must flag every tracked id referenced by every input register of the expression; nowhere in the setter or the functions it calls: %s" % missing, F.loc(fn["body"]))
        else:
            run.undecided("R2", key, "the iteration is filtered / left early (%s): whether every input and every id is still visited is not decided" % (filt or "early exit"), F.loc(fn["body"]))

    run.guarded("R2", r2)

    def r3():
        st = F.adt("analysis::function_signature::state::State")
        fld = [f for f in st["variants"][0]["fields"] if f["name"] == "tracked_ids"]
        if not fld:
            raise T.AnchorMissing("State.tracked_ids")
        ty = F.tyi(fld[0]["t"])
        run.check("R3", "tracked_ids|union-strategy", "UnionMergeStrategy" in ty and "AccessPattern" in ty, "a parameter is one that is read on SOME path: tracked ids must be merged with the union strategy; type is %s" % ty)
        fn = F.fn("merge", adt="AccessPattern", trait="AbstractDomain")
        t = S.value(S.Sym(F).term(fn["body"]))
        ap = F.adt("analysis::function_signature::access_pattern::AccessPattern")
        if t[0] != "adt":
            run.undecided("R3", "AccessPattern::merge|shape", "outside vocabulary: %s" % fmt(t), F.loc(fn["body"]))
        else:
            flds = dict(t[3])
            for f in ap["variants"][0]["fields"]:
                e = flds.get(f["name"])
                ok = e is not None and e[0] == "or" and {fmt(e[1]), fmt(e[2])} == {"self.%s" % f["name"], "other.%s" % f["name"]}
                run.check("R3", "AccessPattern::merge|%s" % f["name"], ok, "flag `%s` of a merged access pattern must be `self.%s || other.%s`; found %s" % (f["name"], f["name"], f["name"], fmt(e) if e else None), F.loc(fn["body"]))
        # State::merge merges tracked_ids with tracked_ids
        fn = F.fn("merge", adt="State", trait="AbstractDomain", mod="analysis::function_signature::state")
        t = S.value(S.Sym(F).term(fn["body"]))
        if t[0] == "adt":
            e = dict(t[3]).get("tracked_ids")
            ok = e is not None and is_call(e, "merge") and {fmt(a) for a in e[2]} == {"self.tracked_ids", "other.tracked_ids"}
            run.check("R3", "State::merge|tracked_ids", ok, "the merged state's tracked ids must be self.tracked_ids merged with other.tracked_ids; found %s" % (fmt(e) if e else None), F.loc(fn["body"]))
        else:
            run.undecided("R3", "State::merge|shape", "outside vocabulary", F.loc(fn["body"]))

    run.guarded("R3", r3)

    def r4():
        fn = F.fn("get_params_of_current_function", adt="State")
        sy = S.Sym(F)
        env = {}
        sy.term(fn["body"], env)
        site = F.loc(fn["body"])
        loops = T.for_loops(fn["body"])
        ok_iter = bool(loops) and any(isinstance(x, tuple) and x and x[0] == "field" and x[2] == "tracked_ids" for x in S.subterms(sy.ev(loops[0][2], env))) and not any(is_call(x, ("filter", "take", "skip", "step_by", "take_while", "skip_while")) for x in S.subterms(sy.ev(loops[0][2], env)))
        run.check("R4", "iterates-all-tracked-ids", ok_iter, "the parameter extraction must look at every tracked id", site)
        # the push for register based params: conditions = is_register_based_param_id(id) and (depth>0 && deref || depth==0 && accessed)
        found = False
        for n, conds in T.paths_to(fn["body"], lambda y: T.is_call(y, "push")):
            cs = [(sy.ev(cd[1], env), cd[2]) for cd in conds if cd[0] == "if"]
            if any(is_call(c, "is_register_based_param_id") and p for c, p in cs):
                found = True
                others = [c for c, p in cs if not is_call(c, "is_register_based_param_id")]
                # exactly one further condition, built from recursion_depth / is_accessed / is_dereferenced only
                vocab = True
                for c in others:
                    for x in S.subterms(c):
                        if is_call(x) and x[1] not in ("recursion_depth", "is_accessed", "is_dereferenced", "get_location", "iter", "into_iter", "deref"):
                            vocab = False
                acc = any(is_call(x, "is_accessed") for c in others for x in S.subterms(c))
                d0 = any(isinstance(x, tuple) and x and x[0] == "bin" and x[1] == "Eq" and x[3] == ("lit", 0) and is_call(x[2], "recursion_depth") for c in others for x in S.subterms(c))
                run.check("R4", "register-params|accessed-at-depth-0", len(others) == 1 and vocab and acc and d0, "a register parameter (recursion depth 0) must be reported exactly when its access pattern is_accessed(); no further condition on the register; conditions: %s" % [fmt(c)[:120] for c in others], F.loc(n))
        if not found:
            run.violated("R4", "register-params|accessed-at-depth-0", "no extraction of register based parameters found", site)
        fn = F.fn("is_accessed", adt="AccessPattern")
        t = S.value(S.Sym(F).term(fn["body"]))
        flds = set()
        def flat(x):
            if x[0] == "or":
                flat(x[1]); flat(x[2])
            elif x[0] == "field":
                flds.add(x[2])
            else:
                flds.add("?" + fmt(x))
        flat(t)
        run.check("R4", "is_accessed|includes-read", "read" in flds and not any(f.startswith("?") for f in flds), "is_accessed() must be true for a pattern whose read flag is set; it is the disjunction of %s" % sorted(flds), F.loc(fn["body"]))

    run.guarded("R4", r4)
