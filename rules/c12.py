"""C12 Lifted and normalised IR is size-consistent -- size typing of the code that builds/rewrites expressions.

Decided by the size type-checker in rules/lib/sizealg.py (an abstract interpreter over THIR whose values carry only
symbolic byte sizes; guards become linear equations; obligations are decided by Gaussian elimination):
 R1 rewrites preserve size: every `*self = E` on an Expression (trivial_operation_substitution.rs and friends) replaces
    the old expression by one of the same size and E is internally well-sized, for every well-sized input
 R2 constructed assignments are well-sized: every `Def::Assign { var, value }` built in the lifting / sub-register
    passes stores a value whose size is var.size (sub-register PIECE construction in all placement branches, SUBPIECE /
    cast lifting with the output varnode's size)
 R3 substitutions keep sizes: `substitute_input_var(var, replacement)` is called with a replacement of var's size
    (sub-register inputs are replaced by SUBPIECEs of exactly the sub-register's size)
 R0 the sizing function itself: the result-size classes of Expression::bytesize are extracted from the source
    (comparison/flag ops: 1 byte, Piece: sum, others: lhs) and used by R1-R3; an operator without a class is reported
The input of each pass is ASSUMED well-sized (assume/guarantee per pass). Not decided: sizes that are only related
numerically at run time (e.g. register tables read from Ghidra), and the size-consistency of the extractor's output.
"""
from .lib import sizealg as Z
from .lib import thir as T

FILES_R1 = ("intermediate_representation/expression/trivial_operation_substitution.rs", "intermediate_representation/expression.rs", "analysis/stack_alignment_substitution/mod.rs")
FILES_R2 = ("pcode/subregister_substitution/mod.rs", "pcode/term.rs", "pcode/expressions.rs", "intermediate_representation/def.rs", "analysis/expression_propagation/mod.rs", "intermediate_representation/project.rs")


def run(run):
    F = run.facts()
    run.explanation = (
        "Size type-checking by abstract interpretation of THIR bodies (rules/lib/sizealg.py): all paths through the rewriting / lifting functions are enumerated (if, if-let, match arms, "
        "or-patterns, guards); size-relevant guards become linear equations; input expressions are assumed well-sized; each rewrite `*self = E`, each constructed Def::Assign and each "
        "substitute_input_var call yields the obligation size(new) == size(required), decided by Gaussian elimination modulo the path equations. A non-zero residual over free size symbols "
        "is a violation (some well-sized input breaks it); anything involving values the interpreter cannot size is undecided.")
    run.rule("R0", "result-size classes extracted from Expression::bytesize cover every BinOpType")
    run.rule("R1", "rewrites `*self = E` preserve the size and build well-sized expressions")
    run.rule("R2", "constructed Def::Assign { var, value } has size(value) == var.size")
    run.rule("R3", "substitute_input_var gets a replacement of the variable's size")

    classes, unop_one = Z.extract_classes(F)

    def r0():
        bo = F.adt("expression::BinOpType")
        names = [v["name"] for v in bo["variants"]]
        missing = [n for n in names if n not in classes]
        run.check("R0", "bytesize|every-binop-has-a-size-class", not missing, "Expression::bytesize: no recognised size class for %s" % missing, F.loc(F.fn("bytesize", adt="Expression", file="expression.rs")["body"]))
        run.floor("R0 BinOpType variants", len(names), 30)
        one = sorted(n for n, c in classes.items() if c == "one")
        run.note("size classes: one-byte results %s; sum: %s; FloatNaN-like unary: %s" % (one, sorted(n for n, c in classes.items() if c == "sum"), sorted(unop_one)))

    run.guarded("R0", r0)

    def sites(files, pred):
        out = []
        for fn in F.raw["fns"]:
            if fn.get("dk") not in ("Fn", "AssocFn") or fn.get("expn"):
                continue
            if not any(F.file_of(fn).endswith(x) for x in files):
                continue
            if any(pred(n) for n in T.walk(fn["body"])):
                out.append(fn)
        return out

    def interp_fn(fn):
        zi = Z.SizeInterp(F, classes, unop_one)
        try:
            zi.run_fn(fn)
        except Z.Unsupported as e:
            return zi, str(e)
        except RecursionError:
            return zi, "recursion limit"
        return zi, None

    callers_cache = {}

    def local_callers(fn):
        """crate-local functions (closures mapped to their function) that call fn"""
        if fn["path"] not in callers_cache:
            out = []
            for g in F.raw["fns"]:
                if g.get("dk") not in ("Fn", "AssocFn") or g is fn or g.get("expn"):
                    continue
                for n in T.walk_fn(F, g):
                    if n.get("k") == "Call" and (F.by_path.get(n.get("r") or "") is fn or F.by_path.get(n.get("f") or "") is fn):
                        out.append(g)
                        break
            callers_cache[fn["path"]] = out
        return callers_cache[fn["path"]]

    interp_cache = {}

    def interp_cached(fn):
        if fn["path"] not in interp_cache:
            interp_cache[fn["path"]] = interp_fn(fn)
        return interp_cache[fn["path"]]

    def report(rule, kind, fns, floor_name, floor):
        total = 0
        for fn in fns:
            zi, err = interp_cached(fn)
            by_site = {}
            for ob in zi.obligations:
                if ob.kind != kind:
                    continue
                by_site.setdefault(id(ob.site), []).append(ob)
            # a private helper is not an entry point of the pass: its parameters are not "any well-sized input" but what its
            # callers hand over. Its sites are judged in the context of every caller (the interpreter inlines the helper);
            # the stand-alone verdict counts only if no caller reaches the site.
            if fn.get("vis") != "Public" and local_callers(fn):
                ctx_sites = {}
                # sites not reached through any caller's interpretation keep their stand-alone verdict, except that a
                # non-zero residual over the helper's own (non-self) parameters is no evidence: their relation is
                # established by the callers
                psyms = set()
                for p_ in fn["params"]:
                    if p_.get("p"):
                        for (i_, n_, _pth) in T.pat_bindings(p_["p"]):
                            if n_ != "self":
                                psyms.add(n_)
                for sid in list(by_site):
                    if sid not in ctx_sites:
                        for ob in by_site[sid]:
                            ob.param_syms = psyms
            if err:
                run.undecided(rule, "%s|interpreter" % fn["name"], "not interpreted completely: %s" % err, F.loc(fn["body"]))
            # stable per-function numbering of sites in source order
            order = sorted(by_site.values(), key=lambda obs: tuple(obs[0].site["sp"][1:3]))
            for i, obs in enumerate(order):
                total += 1
                site = obs[0].site
                def verdict_of(ob):
                    v = ob.verdict()
                    ps = getattr(ob, "param_syms", None)
                    import re as _re
                    # the residual (after "residual") relates at least two DIFFERENT parameters of the helper
                    resid = v[1].split("(residual", 1)[1] if "(residual" in v[1] else v[1]
                    if v[0] == "violated" and ps and sum(1 for sym in ps if _re.search(r"(?<![A-Za-z0-9_])%s#\d+" % _re.escape(sym), resid)) >= 2:
                        return ("undecided", "the sizes involved are parameters of this private helper, related only by its callers (whose interpretation does not reach the site); " + v[1])
                    return v
                vs = [verdict_of(ob) for ob in obs]
                bad = [(ob, v) for ob, v in zip(obs, vs) if v[0] == "violated"]
                und = [(ob, v) for ob, v in zip(obs, vs) if v[0] == "undecided"]
                key = "%s|%s#%d" % (fn["name"], kind, i)
                if bad:
                    ob, v = bad[0]
                    run.violated(rule, key, "%s -- %s (%d of %d paths to this site)" % (ob.descr[:220], v[1][:300], len(bad), len(obs)), F.loc(site))
                elif und and len(und) == len(obs):
                    ob, v = und[0]
                    run.undecided(rule, key, "%s -- %s" % (ob.descr[:160], v[1][:200]), F.loc(site))
                else:
                    run.holds(rule, key, "%d path(s) decided%s" % (len(obs) - len(und), (", %d undecided" % len(und)) if und else ""), F.loc(site))
        run.floor(floor_name, total, floor)

    def is_self_rewrite(n):
        ty = F.ty(n["l"]) if n.get("k") == "Assign" else ""
        return n.get("k") == "Assign" and n["l"].get("k") == "Deref" and T.peel(n["l"]).get("k") in ("Var", "Upvar") and (ty.endswith("expression::Expression") or ty.endswith("expression::Expression>"))

    def is_assign_ctor(n):
        return n.get("k") == "Adt" and n.get("adt", "").endswith("def::Def") and n.get("v") == "Assign"

    def is_subst(n):
        return T.is_call(n, "substitute_input_var")

    run.guarded("R1", lambda: report("R1", "rewrite", sites(FILES_R1, is_self_rewrite), "R1 rewrite sites", 20))
    run.guarded("R2", lambda: report("R2", "assign", sites(FILES_R2, is_assign_ctor), "R2 constructed assignments", 2))
    if run.tier == "thorough":
        # exploration: the same obligations for EVERY function of the crate that rewrites an expression in place, builds a
        # Def::Assign or substitutes a variable -- outside the anchored passes the input assumptions need not apply, so the
        # outcome is reported as a note and never as a violation
        listed = set(FILES_R1) | set(FILES_R2)
        extra = [fn for fn in sites(("",), lambda n: is_self_rewrite(n) or is_assign_ctor(n) or is_subst(n)) if not any(F.file_of(fn).endswith(x) for x in listed)]
        tally = {"holds": 0, "undecided": 0, "violated": 0}
        odd = []
        for fn in extra:
            zi, err = interp_fn(fn)
            for ob in zi.obligations:
                v = ob.verdict()
                tally[v[0]] += 1
                if v[0] == "violated":
                    odd.append("%s at %s: %s" % (fn["name"], F.loc(ob.site), v[1][:120]))
        run.note("thorough exploration outside the anchored passes: %d functions, obligations: %s%s" % (len(extra), tally, ("; not equal under the interpreter's assumptions (to be read, not an alarm): " + " | ".join(odd[:5])) if odd else ""))
    FILES_R3 = ("pcode/subregister_substitution/mod.rs", "intermediate_representation/def.rs", "intermediate_representation/expression.rs")
    run.guarded("R3", lambda: report("R3", "subst", sites(FILES_R3, is_subst), "R3 substitution calls", 4))
    other = [F.loc(n) for fn in sites(("analysis/expression_propagation/mod.rs",), is_subst) for n in T.walk_fn(F, fn) if is_subst(n)]
    run.note("R3 does not cover the %d substitute_input_var calls of expression propagation: the replacement comes out of a map keyed by the variable, which is a data invariant (checked by C10's rules), not a size computation" % len(other))
