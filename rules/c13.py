"""C13 Pointer inference never excludes runtime values -- ONLY the branch-refinement tables.

The property quantifies over programs x initial states x paths; soundness of the fixpoint as a whole is NOT decided
(no static argument in reach bounds what the abstract states contain). Decided are the tables by which a conditional
branch refines the state -- a wrong entry makes the analysis drop values that do occur on that branch, or call a
reachable block unreachable:
 R1 comparison table (State::specialize_by_comparison_op): for op in {<s, <=s, <u, <=u} and each constant side,
    the bound put on the other operand has the signedness of the op, the direction of the side (x op c bounds x from
    above, c op x bounds x from below), c is moved by one exactly for the strict forms (and in the right direction),
    the strict forms test c against the matching extreme value before moving it, and the refined value is
    written back to the OTHER operand
 R2 negated comparisons: a comparison known to be false is turned into the mirrored one with swapped operands
    (!(a < b) == b <= a), for the false result only
 R3 equality table: (==, true) and (!=, false) refine with equality, (==, false) and (!=, true) with the
    not-equal bound; each side is refined with the OTHER side's constant
 R4 inverse arithmetic: for a + b = r the operands are refined with r - a and r - b, for a - b = r with a - r and r + b
 R5 boolean connectives: `a | b = 0` and `a & b != 0` force both operands; with one operand known the other is forced
    only for the result value that the known operand does not already decide
 R6 polarity: the taken conditional jump refines with `true`, the fall-through after an untaken conditional jump
    with `false`; Context::specialize_conditional turns `is_true` into the constant 1/0 and maps an unsatisfiable
    refinement to "no state" (unreachable) only on Err
 R7 the certain-NULL-dereference zone of State::check_def_for_null_dereferences is exactly the open interval
    (-1024, 1024) of the property statement (each zone test is evaluated to its exact accepted set of integers,
    through closures and range literals), and the refinements cut at 1024 / -1024
"""
from .lib import numflow as NF
from .lib import sym as S
from .lib import thir as T
from .lib.sym import fmt


def is_call(t, name=None):
    return isinstance(t, tuple) and t and t[0] == "call" and (name is None or t[1] == name or (isinstance(name, (set, tuple, frozenset)) and t[1] in name))


OPS = {"IntSLess": ("signed", True), "IntSLessEqual": ("signed", False), "IntLess": ("unsigned", True), "IntLessEqual": ("unsigned", False)}
MIRROR = {"IntSLess": "IntSLessEqual", "IntSLessEqual": "IntSLess", "IntLess": "IntLessEqual", "IntLessEqual": "IntLess"}


def run(run):
    F = run.facts()
    run.explanation = (
        "Static table extraction from the conditional-refinement code of the pointer inference (match arms per comparison operator and constant side; resolved callee names of the bound "
        "methods; +-1 adjustments and their extreme-value guards; operand that receives the refined value; negation/equality/arithmetic/boolean tables; polarity of the refinement at "
        "conditional jumps). Each table entry is compared with the entry that the semantics of the operator dictates. Decides ONLY these tables, not the soundness of the fixpoint.")
    for rid, text in (("R1", "comparison table: signedness, direction, +-1 for strict forms, extreme-value guard, refined operand"), ("R2", "false comparisons are mirrored with swapped operands"),
                      ("R3", "equality / inequality table"), ("R4", "inverse arithmetic for + and -"), ("R5", "boolean connectives"), ("R6", "polarity of the refinement at conditional jumps")):
        run.rule(rid, text)

    VS = "pointer_inference/state/value_specialization.rs"

    def param_name(node):
        n = T.peel(node)
        return n.get("n") if n.get("k") in ("Var", "Upvar") else None

    def r1():
        from .lib import peval as PE
        fn = F.fn("specialize_by_comparison_op", file=VS)
        flow = NF.Flow(F, fn)
        spec = PE.Spec(F)
        op_ids = [b[0] for p_ in fn["params"] if p_.get("p") for b in T.pat_bindings(p_["p"]) if b[1] == "op"]
        if not op_ids:
            raise T.AnchorMissing("parameter `op` of specialize_by_comparison_op not found")
        blocks = []
        for n in T.walk(fn["body"]):
            if n.get("k") == "If" and T.peel(n["c"]).get("k") == "Let":
                let = T.peel(n["c"])
                sc = let["e"]
                evals = [x for x in T.walk(sc) if T.is_call(x, "eval") and len(x.get("a", [])) == 2]
                if evals and any(T.is_call(x, "try_to_bitvec") for x in T.walk(sc)):
                    side = param_name(evals[0]["a"][1])
                    b = T.pat_bindings(let["p"])
                    if side in ("lhs", "rhs") and b:
                        blocks.append((side, b[0][0], n["th"]))
        run.floor("constant-side blocks of specialize_by_comparison_op", len(blocks), 2)
        for side, bound_id, then_body in blocks:
            other = "rhs" if side == "lhs" else "lhs"
            for v, (sign, strict) in OPS.items():
                key0 = "cmp|%s const|%s" % (side, v)
                # the code that runs for this operator: branches decided by `op` (directly, through merged arms, or through a
                # classifying helper) are resolved by specialisation
                body_nodes = spec.reach(then_body, {op_ids[0]: ("enum", v)})
                site = F.loc(then_body)
                in_body = {id(x) for x in body_nodes}
                bounds = [x for x in body_nodes if T.is_call(x) and x["n"].startswith("add_") and x["n"].endswith("_bound")]
                if len(bounds) != 1:
                    run.undecided("R1", key0 + "|bound-method", "%d bound calls reachable for this operator" % len(bounds), site)
                    continue
                bc = bounds[0]
                # x op c (rhs constant) bounds x = lhs from above; c op x (lhs constant) bounds x = rhs from below
                want = "add_%s_%s_equal_bound" % (sign, "less" if side == "rhs" else "greater")
                run.check("R1", key0 + "|bound-method", bc["n"] == want, "`%s %s %s` with constant %s must refine %s with %s; found %s" % ("lhs", v, "rhs", side, other, want, bc["n"]), site)
                recv = flow.definition(bc["a"][0])
                recv_evals = [param_name(x["a"][1]) for x in T.walk(recv) if T.is_call(x, "eval") and len(x["a"]) == 2]
                for _ in range(3):
                    if recv_evals:
                        break
                    inner = [flow.definition(x) for x in T.walk(recv) if x.get("k") in ("Var", "Upvar") and x["id"] in flow.init]
                    recv_evals = [param_name(x["a"][1]) for i_ in inner for x in T.walk(i_) if T.is_call(x, "eval") and len(x["a"]) == 2]
                run.check("R1", key0 + "|bounded-value", recv_evals == [other], "the bound must be put on the value of `%s`; found eval of %s" % (other, recv_evals), site)
                arg_id = T.root_var_id(bc["a"][1]) if len(bc["a"]) > 1 else None
                run.check("R1", key0 + "|bound-constant", arg_id == bound_id, "the bound must be the constant value of `%s`" % side, site)
                wb = [x for x in body_nodes if T.is_call(x, "specialize_by_expression_result") and len(x["a"]) == 3]
                tgt = [param_name(x["a"][1]) for x in wb]
                run.check("R1", key0 + "|written-back-to", tgt == [other], "the refined value must be written back to `%s`; found %s" % (other, tgt), site)
                adj = [x for x in body_nodes if (x.get("k") == "AssignOp" and T.root_var_id(x["l"]) == bound_id) or (T.is_call(x, ("add_assign", "sub_assign")) and x.get("a") and T.root_var_id(x["a"][0]) == bound_id)]
                ones = [x for x in adj if any(T.is_call(y, "one") for y in T.walk(x["r"] if x.get("k") == "AssignOp" else x["a"][1]))]
                want_op = None if not strict else ("AddAssign" if side == "lhs" else "SubAssign")
                norm = lambda o: {"Add": "AddAssign", "Sub": "SubAssign", "add_assign": "AddAssign", "sub_assign": "SubAssign"}.get(o, o)
                got_ops = [norm(x.get("o") if x.get("k") == "AssignOp" else x.get("n")) for x in adj]
                if strict:
                    ok = got_ops == [want_op] and len(ones) == 1
                    run.check("R1", key0 + "|moved-by-one", ok, "strict comparison: the constant must be moved by one (%s) before it becomes an inclusive bound; found %s" % ("c+1 <= x" if side == "lhs" else "x <= c-1", got_ops or "no adjustment"), site)
                else:
                    run.check("R1", key0 + "|moved-by-one", not adj, "non-strict comparison: the constant itself is the inclusive bound; found an adjustment %s" % got_ops, site)
                # guard against the extreme value: an early `return Err` reachable for this operator under a test of the constant
                # against an extreme value (possibly bound to a local first)
                guards = []
                EXT = ("signed_max_value", "unsigned_max_value", "signed_min_value", "zero")
                for x, conds in T.paths_to(then_body, lambda y: y.get("k") == "Return"):
                    if id(x) not in in_body:
                        continue
                    for cd in conds:
                        if cd[0] == "if" and cd[2] and id(cd[1]) in in_body:
                            for y in T.walk(cd[1]):
                                if T.is_call(y, EXT):
                                    guards.append(y["n"])
                                elif y.get("k") in ("Var", "Upvar") and y["id"] in flow.init and y["id"] != bound_id:
                                    # e.g. `let max_value = if is_signed {..} else {..}; if bound == max_value`
                                    for z in spec.reach(flow.init[y["id"]], {op_ids[0]: ("enum", v), **const_env(spec, then_body, op_ids[0], v)}):
                                        if T.is_call(z, EXT):
                                            guards.append(z["n"])
                want_g = None if not strict else {("signed", "lhs"): "signed_max_value", ("unsigned", "lhs"): "unsigned_max_value", ("signed", "rhs"): "signed_min_value", ("unsigned", "rhs"): "zero"}[(sign, side)]
                guards = sorted(set(guards))
                if strict:
                    if guards == [want_g]:
                        run.holds("R1", key0 + "|extreme-guard", "", site)
                    elif not guards:
                        run.violated("R1", key0 + "|extreme-guard", "strict comparison: moving the constant by one wraps around for the extreme value (%s); the code must report 'unsatisfiable' for it" % want_g, site)
                    elif len(guards) == 1:
                        run.violated("R1", key0 + "|extreme-guard", "the constant is tested against %s before it is moved %s; the value for which that wraps is %s" % (guards[0], "up" if side == "lhs" else "down", want_g), site)
                    else:
                        run.undecided("R1", key0 + "|extreme-guard", "guards %s" % guards, site)
                else:
                    run.check("R1", key0 + "|extreme-guard", not guards, "non-strict comparison must not be rejected for an extreme constant; found guard %s" % guards, site)

    def const_env(spec, body, op_id, v):
        """constants bound by lets inside the body under op == v (e.g. (is_signed, is_strict) = classify(op))"""
        env = {op_id: ("enum", v)}
        for n in T.walk(body):
            if n.get("k") == "LetStmt" and "i" in n:
                spec.bind(n["p"], spec.cev(n["i"], env), env)
        env.pop(op_id, None)
        return env

    run.guarded("R1", r1)

    def r2():
        fn = F.fn("specialize_by_binop_expression_result", file=VS)
        # the arm for the four ordering comparisons
        arm = None
        for m in T.walk(fn["body"]):
            if m.get("k") == "Match":
                for a in m["arms"]:
                    if set(OPS) <= T.pat_variant_names(a["p"]):
                        arm = a
        if arm is None:
            raise T.AnchorMissing("no arm for the ordering comparisons in specialize_by_binop_expression_result")
        site = F.loc(arm["b"])
        swaps = [(x, c) for x, c in T.paths_to(arm["b"], lambda y: T.is_call(y, "swap"))]
        maps = [m for m in T.walk(arm["b"]) if m.get("k") == "Match" and any(v in T.pat_variant_names(a["p"]) for a in m["arms"] for v in OPS)]
        if not swaps or not maps:
            run.undecided("R2", "negation|shape", "no swap / operator map found", site)
            return
        # under which condition
        conds = [c for c in swaps[0][1] if c[0] == "if"]
        zero_true = any(T.is_call(T.peel(c[1]), "is_zero") and c[2] is True for c in conds)
        zero_neg = any((T.peel(c[1]).get("k") == "Unary" and any(T.is_call(y, "is_zero") for y in T.walk(c[1])) and c[2] is True) or (T.is_call(T.peel(c[1]), "is_zero") and c[2] is False) for c in conds)
        if zero_true:
            run.holds("R2", "negation|only-for-false", "", site)
        elif zero_neg:
            run.violated("R2", "negation|only-for-false", "the comparison is mirrored when its result is TRUE (non-zero) and taken as is when it is false", site)
        else:
            run.undecided("R2", "negation|only-for-false", "condition of the swap not recognised", site)
        mm = maps[0]
        same_block = any(y is mm for c in swaps[0][1] if c[0] == "if" for y in T.walk(c[1])) or True
        table = {}
        for a in mm["arms"]:
            names = [v for v in T.pat_variant_names(a["p"]) if v in OPS]
            vals = [y.get("v") for y in T.walk(a["b"]) if y.get("k") == "Adt" and y.get("adt", "").endswith("BinOpType")]
            for nme in names:
                table[nme] = vals[0] if len(vals) == 1 else None
        for v in OPS:
            run.check("R2", "negation|%s" % v, table.get(v) == MIRROR[v], "!(a %s b) is b %s a; the table maps %s to %s" % (v, MIRROR[v], v, table.get(v)), F.loc(mm))
        # the operands handed on are the swapped locals and the mapped operator
        calls = [x for x in T.walk(arm["b"]) if T.is_call(x, "specialize_by_comparison_op")]
        run.check("R2", "negation|mirrored-values-used", len(calls) == 1 and all(param_name(a) not in ("lhs", "rhs") for a in calls[0]["a"][2:]) and param_name(T.peel(calls[0]["a"][1])) != None, "the mirrored operator and the swapped operands must be what specialize_by_comparison_op gets", site) if calls else run.undecided("R2", "negation|mirrored-values-used", "no call", site)

    run.guarded("R2", r2)

    def r3():
        fn = F.fn("specialize_by_binop_expression_result", file=VS)
        target = None
        for m in T.walk(fn["body"]):
            if m.get("k") == "Match" and T.peel(m["e"]).get("k") == "Tuple":
                pats = [T.show_pat(a["p"]) for a in m["arms"]]
                if any("IntEqual" in p for p in pats) and any("IntNotEqual" in p for p in pats):
                    target = m
        if target is None:
            raise T.AnchorMissing("no (op, result) table for IntEqual/IntNotEqual")
        for a in target["arms"]:
            alts = T.pat_alternatives(a["p"])
            combos = set()
            for q in alts:
                q = T.pat_peel(q)
                if q.get("k") != "Leaf":
                    continue
                subs = {s.get("fi", s.get("f")): T.pat_peel(s["p"]) for s in q.get("sub", [])}
                o, r = subs.get(0), subs.get(1)
                if o and r and o.get("k") == "Variant" and r.get("k") == "Const":
                    combos.add((o["v"], str(r.get("v")).lower() in ("true", "1")))
            if not combos:
                continue
            eq_combos = {("IntEqual", True), ("IntNotEqual", False)}
            ne_combos = {("IntEqual", False), ("IntNotEqual", True)}
            uses_ne = any(T.is_call(x, "add_not_equal_bound") for x in T.walk(a["b"]))
            ptr = [y.get("v") for x in T.walk(a["b"]) if T.is_call(x, "specialize_pointer_comparison") for y in T.walk(x["a"][1]) if y.get("k") == "Adt"]
            site = F.loc(a["b"])
            kind = "ne" if uses_ne else "eq"
            want = ne_combos if uses_ne else eq_combos
            run.check("R3", "equality|%s-branch|cases" % kind, combos == want, "the branch that refines with %s handles the cases %s; it must handle %s" % ("the not-equal bound" if uses_ne else "equality", sorted(combos), sorted(want)), site)
            if ptr:
                run.check("R3", "equality|%s-branch|pointer-comparison" % kind, ptr == ["IntNotEqual" if uses_ne else "IntEqual"], "pointer comparison refined as %s in the %s branch" % (ptr, kind), site)
            # each side refined with the other side's constant
            for x in T.walk(a["b"]):
                if x.get("k") == "If" and T.peel(x["c"]).get("k") == "Let":
                    let = T.peel(x["c"])
                    ev = [param_name(y["a"][1]) for y in T.walk(let["e"]) if T.is_call(y, "eval") and len(y["a"]) == 2]
                    wb = [param_name(y["a"][1]) for y in T.walk(x["th"]) if T.is_call(y, "specialize_by_expression_result") and len(y["a"]) == 3]
                    if len(ev) == 1 and ev[0] in ("lhs", "rhs") and wb:
                        other = "rhs" if ev[0] == "lhs" else "lhs"
                        run.check("R3", "equality|%s-branch|%s-constant-refines-%s" % (kind, ev[0], other), wb == [other], "the constant value of `%s` must refine `%s`; found %s" % (ev[0], other, wb), F.loc(x))
                        if uses_ne:
                            bev = [param_name(z["a"][1]) for y in T.walk(x["th"]) if T.is_call(y, "add_not_equal_bound") for z in T.walk(y["a"][0]) if T.is_call(z, "eval") and len(z["a"]) == 2]
                            run.check("R3", "equality|ne-branch|%s-constant-excluded-from-%s" % (ev[0], other), bev == [other], "the constant of `%s` must be excluded from the value of `%s`; found %s" % (ev[0], other, bev), F.loc(x))

    run.guarded("R3", r3)

    def r4():
        fn = F.fn("specialize_by_binop_expression_result", file=VS)
        for v, want in (("IntAdd", {"rhs": ("sub", "result", "lhs"), "lhs": ("sub", "result", "rhs")}), ("IntSub", {"rhs": ("sub", "lhs", "result"), "lhs": ("add", "result", "rhs")})):
            arm = None
            for m in T.walk(fn["body"]):
                if m.get("k") == "Match":
                    for a in T.arms_for_variant(m, v):
                        if T.pat_variant_names(a["p"]) == {v}:
                            arm = a
            if arm is None:
                run.undecided("R4", "%s|arm" % v, "no dedicated arm", F.loc(fn["body"]))
                continue
            sy = S.Sym(F)
            t = sy.term(arm["b"])
            calls = [x for x in S.subterms(t) if is_call(x, "specialize_by_expression_result") and len(x[2]) == 3]
            seen = {}
            for c in calls:
                tgt = fmt(S.value(c[2][1]))
                val = S.value(c[2][2])

                def leaf(z):
                    z = S.value(z)
                    while is_call(z, ("without_widening_hints", "clone")) and z[2]:
                        z = S.value(z[2][0])
                    if is_call(z, "eval") and len(z[2]) == 2:
                        return fmt(S.value(z[2][1]))
                    return fmt(z)
                if is_call(val, ("sub", "add")) and len(val[2]) == 2:
                    seen[tgt] = (val[1], leaf(val[2][0]), leaf(val[2][1]))
                elif val[0] == "bin" and val[1] in ("Add", "Sub"):
                    seen[tgt] = (val[1].lower(), leaf(val[2]), leaf(val[3]))
            for tgt, w in want.items():
                key = "%s|%s" % (v, tgt)
                g = seen.get(tgt)
                if g is None:
                    run.undecided("R4", key, "no refinement of %s recognised" % tgt, F.loc(arm["b"]))
                else:
                    ok = g == w or (w[0] == "add" and g[0] == "add" and {g[1], g[2]} == {w[1], w[2]})
                    run.check("R4", key, ok, "for `lhs %s rhs = result` the operand %s must be refined with %s(%s, %s); found %s(%s, %s)" % ("+" if v == "IntAdd" else "-", tgt, w[0], w[1], w[2], g[0], g[1], g[2]), F.loc(arm["b"]))

    run.guarded("R4", r4)

    def r5():
        fn = F.fn("specialize_by_binop_expression_result", file=VS)
        for names, force_when_zero in ((("IntOr", "BoolOr"), True), (("BoolAnd",), False)):
            arm = None
            for m in T.walk(fn["body"]):
                if m.get("k") == "Match":
                    for a in m["arms"]:
                        if T.pat_variant_names(a["p"]) == set(names):
                            arm = a
            label = "/".join(names)
            if arm is None:
                run.undecided("R5", "%s|arm" % label, "no arm", F.loc(fn["body"]))
                continue
            body = T.peel(arm["b"])
            while body.get("k") == "Block" and not body.get("ss") and body.get("e") is not None:
                body = T.peel(body["e"])
            site = F.loc(arm["b"])
            if body.get("k") != "If":
                run.undecided("R5", "%s|shape" % label, "arm is not an if-chain", site)
                continue
            c = T.peel(body["c"])
            neg = False
            while c.get("k") == "Unary" and c.get("o") == "Not":
                neg = not neg
                c = T.peel(c["e"])
            if not T.is_call(c, "is_zero"):
                run.undecided("R5", "%s|both-forced|condition" % label, T.show(c)[:60], site)
                continue
            first_is_zero_case = not neg
            both = [param_name(x["a"][1]) for x in T.walk(body["th"]) if T.is_call(x, "specialize_by_expression_result") and len(x["a"]) == 3]
            run.check("R5", "%s|both-forced|case" % label, first_is_zero_case == force_when_zero, "%s: both operands are forced to the result when the result is %s; the code does it when the result is %s" % (label, "zero" if force_when_zero else "non-zero", "zero" if first_is_zero_case else "non-zero"), site)
            run.check("R5", "%s|both-forced|operands" % label, sorted(both) == ["lhs", "rhs"], "both operands must be refined; found %s" % both, site)
            # one operand known: known operand must be the neutral element (0 for or, non-zero for and) and the OTHER operand is refined
            cur = body.get("el")
            n = 0
            while cur is not None:
                cur = T.peel(cur)
                while cur.get("k") == "Block" and not cur.get("ss") and cur.get("e") is not None:
                    cur = T.peel(cur["e"])
                if cur.get("k") != "If":
                    break
                cond = cur["c"]
                ev = [param_name(y["a"][1]) for y in T.walk(cond) if T.is_call(y, "eval") and len(y["a"]) == 2]
                clos = [cl for y in T.walk(cond) if y.get("k") == "Closure" for cl in [F.closure_by_path(y["d"])]]
                neutral_neg = None
                for cl in clos:
                    b = T.peel(cl["body"])
                    ng = False
                    while b.get("k") in ("Unary",) and b.get("o") == "Not":
                        ng = not ng
                        b = T.peel(b["e"])
                    while b.get("k") == "Block" and b.get("e") is not None and not b.get("ss"):
                        b = T.peel(b["e"])
                        while b.get("k") in ("Unary",) and b.get("o") == "Not":
                            ng = not ng
                            b = T.peel(b["e"])
                    if T.is_call(b, "is_zero"):
                        neutral_neg = ng
                wb = [param_name(x["a"][1]) for x in T.walk(cur["th"]) if T.is_call(x, "specialize_by_expression_result") and len(x["a"]) == 3]
                if len(ev) == 1 and ev[0] in ("lhs", "rhs") and neutral_neg is not None:
                    n += 1
                    other = "rhs" if ev[0] == "lhs" else "lhs"
                    run.check("R5", "%s|%s-known|refines-%s" % (label, ev[0], other), wb == [other], "with `%s` known the result determines `%s`; found %s" % (ev[0], other, wb), F.loc(cur))
                    # or: known operand must be zero (neutral); and: known operand must be non-zero (neutral)
                    want_neg = not force_when_zero
                    run.check("R5", "%s|%s-known|neutral-element" % (label, ev[0]), neutral_neg == want_neg, "%s: the other operand is determined only if the known operand is %s; the code tests for %s" % (label, "zero" if force_when_zero else "non-zero", "non-zero" if neutral_neg else "zero"), F.loc(cur))
                cur = cur.get("el")
            run.floor("R5 %s one-operand-known cases" % label, n, 1)

    run.guarded("R5", r5)

    def r6():
        # fixpoint: taken CBranch -> true; untaken conditional -> false
        fx = None
        for f in F.find_fns(name="update_edge"):
            if F.file_of(f).endswith("forward_interprocedural_fixpoint.rs"):
                fx = f
        if fx is None:
            raise T.AnchorMissing("update_edge of the interprocedural fixpoint not found")
        calls = [(x, c) for x, c in T.paths_to(fx["body"], lambda y: T.is_call(y, "specialize_conditional"))]
        run.floor("specialize_conditional call sites", len(calls), 2)
        for x, conds in calls:
            lit = T.peel(x["a"][-1])
            val = str(lit.get("v")).lower() if lit.get("k") == "Lit" else None
            # which jump provides the condition: the taken jump (`jump`) or the untaken conditional
            cond_src = None
            for cd in conds:
                if cd[0] == "if" and T.peel(cd[1]).get("k") == "Let":
                    let = T.peel(cd[1])
                    if any(b[1] == "condition" for b in T.pat_bindings(let["p"])):
                        cond_src = T.show(let["e"])
            taken = cond_src is not None and "untaken" not in cond_src
            key = "fixpoint|%s-jump" % ("taken" if taken else "untaken")
            if val is None or cond_src is None:
                run.undecided("R6", key, "polarity argument %s / condition source %s" % (T.show(x["a"][-1])[:30], cond_src), F.loc(x))
            else:
                run.check("R6", key, (val == "true") == taken, "the state on the edge of the %s conditional jump must be refined with the condition being %s; found %s" % ("taken" if taken else "untaken (fall-through)", "true" if taken else "false", val), F.loc(x))
        # context: is_true -> 1/0 and Err -> None
        cx = F.fn("specialize_conditional", file="pointer_inference/context/trait_impls.rs")
        t = S.Sym(F).term(cx["body"])
        sp = [y for y in S.subterms(t) if is_call(y, "specialize_by_expression_result") and len(y[2]) == 3]
        if len(sp) != 1:
            run.undecided("R6", "context|constant", "no unique refinement call", F.loc(cx["body"]))
        else:
            v = sp[0][2][2]
            casts = [z for z in S.subterms(v) if isinstance(z, tuple) and z and z[0] == "cast" and fmt(S.value(z[1])) == "is_true"]
            negs = [z for z in S.subterms(v) if isinstance(z, tuple) and z and z[0] == "not" and "is_true" in fmt(z)]
            if casts and not negs:
                run.holds("R6", "context|constant", "result constant is `is_true as u8`", F.loc(cx["body"]))
            elif negs:
                run.violated("R6", "context|constant", "the condition is refined to the NEGATION of is_true: %s" % fmt(v)[:80], F.loc(cx["body"]))
            else:
                run.undecided("R6", "context|constant", fmt(v)[:80], F.loc(cx["body"]))
            cond_ok = fmt(S.value(sp[0][2][1])) == "condition"
            run.check("R6", "context|condition", cond_ok, "the expression refined must be the jump condition; found %s" % fmt(sp[0][2][1])[:60], F.loc(cx["body"]))
        # unreachable only on Err
        res = S.value(t)
        nones = [y for y in S.subterms(t) if isinstance(y, tuple) and y and y[0] == "adt" and y[1].endswith("option::Option") and y[2] == "None"]
        ok = None
        if res[0] == "match":
            arms = {a[0].split("{")[0].strip(): S.value(a[2]) for a in res[2]}
            okarm = [b for p, b in arms.items() if p.startswith("Ok")]
            errarm = [b for p, b in arms.items() if p.startswith("Err")]
            if okarm and errarm:
                ok = okarm[0][0] == "adt" and okarm[0][2] == "Some" and errarm[0][0] == "adt" and errarm[0][2] == "None"
        if ok is None:
            run.undecided("R6", "context|unreachable-only-if-unsatisfiable", "result shape %s" % fmt(res)[:80], F.loc(cx["body"]))
        else:
            run.check("R6", "context|unreachable-only-if-unsatisfiable", ok, "the branch is unreachable (None) exactly when the refinement reports Err; found %s" % fmt(res)[:100], F.loc(cx["body"]))

    run.guarded("R6", r6)


_run_r1_r6 = run


def run(run):  # noqa: F811
    _run_r1_r6(run)
    from .lib import intpred as IP
    F = run.facts()
    run.rule("R7", "certain-NULL-dereference zone: an access is treated as a NULL dereference exactly for addresses in the open interval (-1024, 1024), and the refinements cut at its borders")

    def r7():
        fn = F.fn("check_def_for_null_dereferences", file="pointer_inference/state/access_handling.rs")
        t = S.Sym(F).term(fn["body"])
        site = F.loc(fn["body"])
        WANT = [(-1023, 1023)]
        # subjects: the two components of the offset interval of the address
        subj = {}
        for x in S.subterms(t):
            if isinstance(x, tuple) and x and x[0] == "field" and x[2] in ("0", "1") and isinstance(x[1], tuple) and x[1][0] == "field" and str(x[1][2]).endswith("Some.0") and any(is_call(y, "try_to_offset_interval") or (isinstance(y, tuple) and y and y[0] == "closure") for y in S.subterms(x)):
                subj[fmt(x)] = x
        if len(subj) < 2:
            run.undecided("R7", "null-zone", "start/end of the address offset interval are not tested in check_def_for_null_dereferences itself (the zone test may live in a helper, which this rule does not follow)", site)
            return
        # maximal boolean subterms about exactly one subject
        conds = [x[1] for x in S.subterms(t) if isinstance(x, tuple) and x and x[0] == "ite"]
        tested = {}

        def about(z):
            return {k for k in subj if any(fmt(y) == k for y in S.subterms(z) if isinstance(y, tuple))}

        def split(c):
            c = S.value(c)
            ab = about(c)
            if len(ab) == 1:
                return [(list(ab)[0], c)]
            if c[0] in ("and", "or"):
                return split(c[1]) + split(c[2])
            if c[0] == "not":
                return split(c[1])
            return []
        n = 0
        for c in conds:
            for who, z in split(c):
                which = "start" if who.endswith(".0") else "end"
                try:
                    got = IP.sat(z, lambda y, who=who: isinstance(y, tuple) and fmt(y) == who, F)
                except IP.Unknown as e:
                    run.undecided("R7", "null-zone|%s" % which, "zone test outside the vocabulary: %s" % e, site)
                    continue
                n += 1
                key = "null-zone|%s" % which
                if got == WANT:
                    run.holds("R7", key, "accepted set %s" % IP.show(got), site)
                else:
                    diff = IP.norm(IP.inter(got, IP.compl(WANT)) + IP.inter(WANT, IP.compl(got)))
                    w = diff[0][0] if diff[0][0] > -IP.INF else diff[0][1]
                    run.violated("R7", key, "an access whose %s address offset is in %s is treated as a certain NULL dereference; the zone is the OPEN interval (-1024, 1024), i.e. [-1023, 1023]: e.g. address %d is %s the zone, so %s" % (
                        which, IP.show(got), w, "wrongly inside" if IP.inter([(w, w)], got) else "wrongly outside", "a load from it that completes at run time makes the rest of the block unreachable / removes the value from the register" if IP.inter([(w, w)], got) else "a NULL-page access is not cut off"), site)
        run.floor("R7 zone tests", n, 2)
        # refinement borders
        for name, want in (("add_signed_greater_equal_bound", 1024), ("add_signed_less_equal_bound", -1024)):
            calls = [x for x in S.subterms(t) if is_call(x, name) and len(x[2]) == 2]
            vals = set()
            for c in calls:
                for y in S.subterms(c[2][1]):
                    if is_call(y, ("from_i16", "from_i32", "from_i64", "from_i8")) and y[2]:
                        v = IP.const_of(y[2][0])
                        if v is not None:
                            vals.add(v)
            key = "null-zone|refinement|%s" % ("above" if want > 0 else "below")
            if not calls:
                run.undecided("R7", key, "no %s" % name, site)
            else:
                run.check("R7", key, vals == {want}, "after a possible NULL dereference was cut off the address is %s %d (the first address outside the zone); found %s" % (">=" if want > 0 else "<=", want, sorted(vals)), site)

    run.guarded("R7", r7)
