"""C25 Log collection delivers every message sent before collection -- channel protocol.

Trusted: crossbeam_channel::unbounded is a linearizable FIFO queue. Then delivery follows
from the shape of the protocol:
 R1 sender side: collect() and drop() send Terminate before joining, on the channel whose
    sender get_msg_sender() clones; the channel is unbounded and its receiver is what the
    collector thread gets
 R2 receiver loop: blocking recv; left only on Terminate or disconnection
 R3 nothing dropped, order kept: address-less logs are pushed (send order), located logs
    and warnings are stored with insert (last wins) keyed by their address; the vector is
    not sorted/deduplicated; all three containers reach the result
 R4 CWE476's private channel is drained after all computations ran (same thread)
"""
from .lib import sym as S
from .lib import thir as T
from .lib.sym import fmt


def is_call(t, name=None):
    return isinstance(t, tuple) and t and t[0] == "call" and (name is None or t[1] == name or (isinstance(name, (set, tuple, frozenset)) and t[1] in name))


def stmts_of(t):
    return list(t[1]) + [t[2]] if t[0] == "seq" else [t]


def run(run):
    F = run.facts()
    run.explanation = (
        "Static protocol analysis of utils::log::LogThread: statement order (Terminate sent before join) on the normalised statement "
        "sequence of collect() and drop(); provenance of the channel ends in spawn(); the receiver loop's exits (Break/Return nodes) "
        "classified by the match arm / loop condition they sit in; the match table over LogThreadMsg with the container operation per "
        "arm (push vs insert vs entry), and the data flow of the three containers into the result. With a FIFO channel these clauses "
        "imply delivery of every message whose send completed before collect(); scheduling itself is not explored.")
    run.assumptions = ["crossbeam_channel::unbounded() is a linearizable multi-producer FIFO channel; send on it never blocks and only fails when disconnected",
                       "JoinHandle::join returns after the collector function returned"]
    run.rule("R1", "Terminate is sent before join on the channel handed out by get_msg_sender; unbounded channel; receiver goes to the collector")
    run.rule("R2", "collector loop uses blocking recv and exits only on Terminate or disconnection")
    run.rule("R3", "per-message-kind storage: push in send order / insert (last wins) by address; nothing sorted, dropped or deduplicated otherwise")
    run.rule("R4", "CWE476 drains its private channel only after all computations")

    def r1():
        for name, trait in (("collect", ""), ("drop", "Drop")):
            fn = F.fn(name, adt="LogThread", trait=trait)
            t = S.Sym(F).term(fn["body"])
            st = stmts_of(t)
            site = F.loc(fn["body"])
            isend = [i for i, s in enumerate(st) if any(is_call(x, "send") and any(y[0] == "adt" and y[2] == "Terminate" for y in x[2][1:]) for x in S.subterms(s))]
            ijoin = [i for i, s in enumerate(st) if any(is_call(x, "join") for x in S.subterms(s))]
            if not ijoin:
                run.violated("R1", "%s|joins" % name, "%s() no longer joins the collector thread" % name, site)
                continue
            run.check("R1", "%s|terminate-before-join" % name, bool(isend) and isend[0] < ijoin[0] and st[isend[0]][0] != "ite",
                      "%s() must send Terminate unconditionally before it joins the collector thread, otherwise join blocks forever or messages sent just before are lost" % name, site)
            sends = [x for s in st for x in S.subterms(s) if is_call(x, "send")]
            on_field = all(x[2][0][0] == "field" and x[2][0][2] == "msg_sender" for x in sends)
            run.check("R1", "%s|terminate-on-own-channel" % name, bool(sends) and on_field, "Terminate must be sent on self.msg_sender", site)
        fn = F.fn("get_msg_sender", adt="LogThread")
        t = S.value(S.Sym(F).term(fn["body"]))
        run.check("R1", "get_msg_sender|same-channel", t[0] == "field" and t[2] == "msg_sender", "get_msg_sender must hand out a clone of self.msg_sender; found %s" % fmt(t), F.loc(fn["body"]))
        fn = F.fn("spawn", adt="LogThread")
        sy = S.Sym(F)
        env = {}
        t = sy.term(fn["body"], env)
        site = F.loc(fn["body"])
        chans = [x for x in S.subterms(t) if is_call(x, ("unbounded", "bounded", "channel", "sync_channel"))]
        run.check("R1", "spawn|unbounded-channel", bool(chans) and all(c[1] == "unbounded" and "crossbeam_channel" in c[3] for c in chans), "the log channel must be crossbeam_channel::unbounded (a bounded channel blocks or drops senders)", site)
        res = S.value(t)
        ok = False
        if res[0] == "adt" and res[1].endswith("LogThread"):
            ms = dict(res[3]).get("msg_sender")
            ok = ms is not None and ms[0] == "field" and ms[2] == "0" and is_call(ms[1], "unbounded")
        run.check("R1", "spawn|sender-of-that-channel", ok, "LogThread.msg_sender must be the sender end of the channel created in spawn", site)
        # the closure passed to thread::spawn calls collector_func(receiver) with the receiver of the same channel
        ok = False
        for c in F.closures(fn):
            ct = S.Sym(F).scan(c["body"]).ev(c["body"], env)
            for x in S.subterms(ct):
                if isinstance(x, tuple) and x and x[0] == "call" and x[1] in ("call_once", "call", "call_mut") or (isinstance(x, tuple) and x and x[0] == "callind"):
                    args = x[2]
                    flat = [y for a in args for y in S.subterms(a)]
                    if any(y[0] == "field" and y[2] == "1" and is_call(y[1], "unbounded") for y in flat if isinstance(y, tuple) and y):
                        ok = True
        run.check("R1", "spawn|receiver-to-collector", ok, "the collector function must be called with the receiver end of the channel created in spawn", site)

    run.guarded("R1", r1)

    f_col = F.fn("collect_and_deduplicate", adt="LogThread")

    def find_loop(body):
        loops = [n for n in T.walk(body) if n.get("k") == "Loop"]
        if len(loops) != 1:
            raise T.AnchorMissing("expected exactly one loop in collect_and_deduplicate, found %d" % len(loops))
        return loops[0]

    def r2():
        loop = find_loop(f_col["body"])
        site = F.loc(loop)
        recvs = [n for n in T.walk(loop) if T.is_call(n) and "crossbeam_channel" in n["f"] and n["n"] in ("recv", "try_recv", "recv_timeout", "recv_deadline", "try_iter", "iter", "into_iter")]
        run.check("R2", "blocking-recv", bool(recvs) and all(n["n"] in ("recv", "iter", "into_iter") for n in recvs),
                  "the collector must receive with the blocking recv(): try_recv/timeouts return before messages that were already sent become visible; found %s" % [n["n"] for n in recvs], site)
        # exits
        exits = T.paths_to(loop, lambda n: n.get("k") in ("Break", "Return"))
        sy = S.Sym(F)
        env = {}
        sy.term(f_col["body"], env)
        nbad = 0
        kinds = []
        for node, conds in exits:
            why = None
            for cd in conds:
                if cd[0] == "arm":
                    names = T.pat_variant_names(cd[2]["p"])
                    if names == {"Terminate"}:
                        why = "terminate"
                if cd[0] == "if":
                    ct = sy.ev(cd[1], env)
                    if ct[0] == "let" and is_call(ct[2], "recv") and ct[1].startswith("Ok") and cd[2] is False:
                        why = "disconnected"
                    if ct[0] == "let" and is_call(ct[2], "recv") and ct[1].startswith("Err") and cd[2] is True:
                        why = "disconnected"
            if cd and why is None:
                nbad += 1
            kinds.append(why)
        run.check("R2", "exits-only-on-terminate-or-disconnect", nbad == 0 and "terminate" in kinds, "the receive loop may only be left when Terminate arrives or the channel is disconnected; exit reasons found: %s" % kinds, site)
        conts = [n for n in T.walk(loop) if n.get("k") == "Continue"]
        run.check("R2", "no-message-skipped", not conts, "a `continue` in the receive loop drops the message just received", site)

    run.guarded("R2", r2)

    def r3():
        loop = find_loop(f_col["body"])
        ms = T.find_matches(loop, adt_suffix="LogThreadMsg")
        if not ms:
            raise T.AnchorMissing("no match over LogThreadMsg in collect_and_deduplicate")
        m = ms[0]
        adt = F.adt("utils::log::LogThreadMsg")
        sy = S.Sym(F)
        env = {}
        sy.term(f_col["body"], env)
        for v in F.variants(adt):
            arms = T.arms_for_variant(m, v)
            if not arms:
                run.violated("R3", "arm|%s" % v, "no arm for LogThreadMsg::%s" % v, F.loc(m))
        # Log arm
        arm = T.arms_for_variant(m, "Log")[0]
        ops = [(n, conds) for n, conds in T.paths_to(arm["b"], lambda n: T.is_call(n, ("push", "insert", "entry", "or_insert", "or_insert_with", "push_front", "extend", "try_insert")))]
        located, general = [], []
        for n, conds in ops:
            loc_pol = None
            for cd in conds:
                if cd[0] == "if":
                    ct = sy.ev(cd[1], env)
                    if ct[0] == "let" and any(isinstance(y, tuple) and y and y[0] == "field" and y[2] == "location" for y in S.subterms(ct[2])):
                        loc_pol = (cd[2] is True) == ct[1].startswith("Some")
                    if is_call(ct, ("is_some", "is_none")) and any(isinstance(y, tuple) and y and y[0] == "field" and y[2] == "location" for y in S.subterms(ct)):
                        loc_pol = (cd[2] is True) == (ct[1] == "is_some")
            (located if loc_pol else general).append(n)
        site = F.loc(arm["b"])
        run.check("R3", "log|general-pushed-in-order", len(general) == 1 and general[0]["n"] == "push" and "Vec" in general[0]["f"], "a log message without location must be appended to a Vec (send order); found %s" % [g["n"] for g in general], site)
        ok = len(located) == 1 and located[0]["n"] == "insert" and "BTreeMap" in located[0]["f"]
        keyt = sy.ev(located[0]["a"][1], env) if located else None
        key_ok = keyt is not None and any(isinstance(y, tuple) and y and y[0] == "field" and y[2] == "address" for y in S.subterms(keyt)) and any(isinstance(y, tuple) and y and y[0] == "field" and y[2] == "location" for y in S.subterms(keyt))
        run.check("R3", "log|located-last-wins-by-address", ok and key_ok, "a log message with location must be stored with BTreeMap::insert keyed by its address (the last one sent wins); found %s key %s" % ([g["n"] for g in located], fmt(keyt) if keyt else None), site)
        # Cwe arm
        arm = T.arms_for_variant(m, "Cwe")[0]
        ins = [n for n in T.walk(arm["b"]) if T.is_call(n, ("push", "insert", "entry", "or_insert", "or_insert_with", "try_insert"))]
        ok = len(ins) == 1 and ins[0]["n"] == "insert" and "BTreeMap" in ins[0]["f"]
        keyt = sy.ev(ins[0]["a"][1], env) if ins else None
        valt = sy.ev(ins[0]["a"][2], env) if ins and len(ins[0]["a"]) > 2 else None
        key_ok = keyt is not None and any(isinstance(y, tuple) and y and y[0] == "field" and y[2] == "addresses" for y in S.subterms(keyt))
        first = keyt is not None and (keyt[0] == "index" and keyt[2] == ("lit", 0) or is_call(keyt, "first") or any(is_call(y, "first") for y in S.subterms(keyt)))
        run.check("R3", "cwe|last-wins-by-first-address", ok and key_ok and first, "a warning must be stored with BTreeMap::insert keyed by its first address (last one sent wins); found %s key %s" % ([g["n"] for g in ins], fmt(keyt) if keyt else None), F.loc(arm["b"]))
        # the general log vector is not reordered, all containers reach the result
        t = sy.term(f_col["body"], {})
        names = {}
        for n in T.walk(f_col["body"]):
            if n.get("k") == "LetStmt" and "i" in n and T.pat_peel(n["p"]).get("k") == "Bind":
                it = T.peel(n["i"])
                if T.is_call(it, "new"):
                    names[T.pat_peel(n["p"])["id"]] = T.pat_peel(n["p"])["n"]
        vec_ids = [i for i, nme in names.items()]
        reorder = [n for n in T.walk(f_col["body"]) if T.is_call(n, ("sort", "sort_by", "sort_by_key", "sort_unstable", "dedup", "dedup_by", "dedup_by_key", "reverse", "retain", "truncate", "clear", "pop", "remove", "swap_remove", "drain")) and n["a"] and T.root_var_id(n["a"][0]) in vec_ids]
        run.check("R3", "containers-not-reordered-or-pruned", not reorder, "a collecting container is sorted/deduplicated/pruned before it is returned: %s" % [n["n"] + "(" + T.show(n["a"][0]) + ")" for n in reorder], F.loc(f_col["body"]))
        res = S.value(t)
        used = {x[2] for x in S.subterms(res) if isinstance(x, tuple) and x and x[0] == "var"}
        missing = [nme for i, nme in names.items() if i not in used]
        run.check("R3", "all-containers-returned", not missing and len(names) >= 3, "containers %s do not reach the returned value (messages stored there are lost)" % missing, F.loc(f_col["body"]))
        # general logs keep their order in the result: general_logs is chained/extended, not collected through a set/map
        run.floor("collecting containers", len(names), 3)

    run.guarded("R3", r3)

    def r4():
        fn = F.fn("check_cwe", mod="cwe_476")
        t = S.Sym(F).term(fn["body"])
        st = stmts_of(t)
        idx_comp = [i for i, s in enumerate(st) if any(is_call(x, ("compute_with_max_steps", "compute")) for x in S.subterms(s))]
        idx_drain = [i for i, s in enumerate(st) if any(is_call(x, ("try_iter", "try_recv", "recv", "iter")) and "crossbeam_channel" in x[3] for x in S.subterms(s))]
        site = F.loc(fn["body"])
        if not idx_comp or not idx_drain:
            run.undecided("R4", "cwe476|drain-after-computations", "computation loop or drain not found at the top level", site)
        else:
            run.check("R4", "cwe476|drain-after-computations", max(idx_comp) < min(idx_drain), "the warnings channel must be drained after all taint computations have run", site)
        ins = [x for x in S.subterms(t) if is_call(x, ("insert", "entry", "or_insert")) and "BTreeMap" in x[3]]
        run.check("R4", "cwe476|dedup-by-source-address-in-ordered-map", bool(ins) and all(x[1] == "insert" for x in ins), "warnings must be deduplicated with BTreeMap::insert keyed by the source address", site)

    run.guarded("R4", r4)
