"""C25 Log collection delivers every message sent before collection -- channel protocol.

Trusted: crossbeam_channel::unbounded is a linearizable FIFO queue. Then delivery follows
from the shape of the protocol:
 R1 sender side: collect() and drop() send Terminate before joining, on the channel whose
    sender get_msg_sender() clones; the channel is unbounded and its receiver is what the
    collector thread gets
 R2 receiver loop: blocking recv; left only on Terminate or disconnection
 R3 nothing dropped, order kept: address-less logs are pushed (send order), located logs
    and warnings are stored with insert (last wins) keyed by their address; the vector is
    not sorted/deduplicated; all three containers reach the result
 R4 CWE476's private channel is drained after all computations ran (same thread)
"""
from .lib import sym as S
from .lib import thir as T
from .lib.sym import fmt


def is_call(t, name=None):
    return isinstance(t, tuple) and t and t[0] == "call" and (name is None or t[1] == name or (isinstance(name, (set, tuple, frozenset)) and t[1] in name))


def stmts_of(t):
    return list(t[1]) + [t[2]] if t[0] == "seq" else [t]


def run(run):
    F = run.facts()
    run.explanation = (
        "Static protocol analysis of utils::log::LogThread: statement order (Terminate sent before join) on the normalised statement "
        "sequence of collect() and drop(); provenance of the channel ends in spawn(); the receiver loop's exits (Break/Return nodes) "
        "classified by the match arm / loop condition they sit in; the match table over LogThreadMsg with the container operation per "
        "arm (push vs insert vs entry), and the data flow of the three containers into the result. With a FIFO channel these clauses "
        "imply delivery of every message whose send completed before collect(); scheduling itself is not explored.")
    run.assumptions = ["crossbeam_channel::unbounded() is a linearizable multi-producer FIFO channel; send on it never blocks and only fails when disconnected",
                       "JoinHandle::join returns after the collector function returned"]
    run.rule("R1", "Terminate is sent before join on the channel handed out by get_msg_sender; unbounded channel; receiver goes to the collector")
    run.rule("R2", "collector loop uses blocking recv and exits only on Terminate or disconnection")
    run.rule("R3", "per-message-kind storage: push in send order / insert (last wins) by address; nothing sorted, dropped or deduplicated otherwise")
    run.rule("R4", "CWE476 drains its private channel only after all computations")

    def events(fn, depth=0, outer=()):
        """('send-terminate'|'send-other'|'join', node, conds) in execution (document) order; calls of crate-local
        functions are expanded in place (a helper that sends Terminate and hands back the join handle)"""
        out = []

        def interesting(n):
            if n.get("k") != "Call":
                return False
            if n.get("n") in ("send", "try_send", "send_timeout", "join"):
                return True
            g = F.by_path.get(n.get("r") or "") or F.by_path.get(n.get("f") or "")
            return g is not None and g.get("dk") in ("Fn", "AssocFn")
        def interesting2(n):
            return interesting(n) or n.get("k") == "Closure"
        for n, conds in T.paths_to(fn["body"], interesting2):
            cs = list(outer) + [c for c in conds]
            if n.get("k") == "Closure":
                c_ = F.by_path.get(n.get("d"))
                if c_ is not None and depth < 3:
                    # a closure handed to a combinator runs (if at all) at that point: its events are conditional
                    out.extend(events(c_, depth + 1, cs + [("closure", n, True)]))
                continue
            if n.get("n") in ("send", "try_send", "send_timeout"):
                term = any(x.get("k") == "Adt" and x.get("v") == "Terminate" for a in n["a"][1:] for x in T.walk(a))
                out.append(("send-terminate" if term and n["n"] == "send" else "send-other", n, cs))
            elif n.get("n") == "join" and "thread" in (n.get("f") or ""):
                out.append(("join", n, cs))
            elif depth < 2:
                g = F.by_path.get(n.get("r") or "") or F.by_path.get(n.get("f") or "")
                if g is not None and g is not fn:
                    out.extend(events(g, depth + 1, cs))
        return out

    def r1():
        for name, trait in (("collect", ""), ("drop", "Drop")):
            fn = F.fn(name, adt="LogThread", trait=trait)
            site = F.loc(fn["body"])
            ev = events(fn)
            joins = [i for i, e in enumerate(ev) if e[0] == "join"]
            terms = [i for i, e in enumerate(ev) if e[0] == "send-terminate"]
            if not joins:
                run.violated("R1", "%s|joins" % name, "%s() no longer joins the collector thread" % name, site)
                continue
            # unconditional: no branch decision on the way to the send (let-else / `?` would also make it conditional)
            uncond = bool(terms) and not ev[terms[0]][2]
            run.check("R1", "%s|terminate-before-join" % name, bool(terms) and terms[0] < joins[0] and uncond,
                      "%s() must send Terminate unconditionally before it joins the collector thread, otherwise join blocks forever or messages sent just before are lost" % name, site)
            sends = [e[1] for e in ev if e[0].startswith("send")]
            def own(c):
                r = T.peel(c["a"][0])
                return r.get("k") == "Field" and r.get("fn") == "msg_sender" and T.is_self(r["e"])
            run.check("R1", "%s|terminate-on-own-channel" % name, bool(sends) and all(own(c) for c in sends), "Terminate must be sent on self.msg_sender", site)
        fn = F.fn("get_msg_sender", adt="LogThread")
        t = S.value(S.Sym(F).term(fn["body"]))
        run.check("R1", "get_msg_sender|same-channel", t[0] == "field" and t[2] == "msg_sender", "get_msg_sender must hand out a clone of self.msg_sender; found %s" % fmt(t), F.loc(fn["body"]))
        fn = F.fn("spawn", adt="LogThread")
        sy = S.Sym(F)
        env = {}
        t = sy.term(fn["body"], env)
        site = F.loc(fn["body"])
        chans = [x for x in S.subterms(t) if is_call(x, ("unbounded", "bounded", "channel", "sync_channel"))]
        run.check("R1", "spawn|unbounded-channel", bool(chans) and all(c[1] == "unbounded" and "crossbeam_channel" in c[3] for c in chans), "the log channel must be crossbeam_channel::unbounded (a bounded channel blocks or drops senders)", site)
        res = S.value(t)
        ok = False
        if res[0] == "adt" and res[1].endswith("LogThread"):
            ms = dict(res[3]).get("msg_sender")
            ok = ms is not None and ms[0] == "field" and ms[2] == "0" and is_call(ms[1], "unbounded")
        run.check("R1", "spawn|sender-of-that-channel", ok, "LogThread.msg_sender must be the sender end of the channel created in spawn", site)
        # the closure passed to thread::spawn calls collector_func(receiver) with the receiver of the same channel
        ok = False
        for c in F.closures(fn):
            ct = S.Sym(F).scan(c["body"]).ev(c["body"], env)
            for x in S.subterms(ct):
                if isinstance(x, tuple) and x and x[0] == "call" and x[1] in ("call_once", "call", "call_mut") or (isinstance(x, tuple) and x and x[0] == "callind"):
                    args = x[2]
                    flat = [y for a in args for y in S.subterms(a)]
                    if any(y[0] == "field" and y[2] == "1" and is_call(y[1], "unbounded") for y in flat if isinstance(y, tuple) and y):
                        ok = True
        run.check("R1", "spawn|receiver-to-collector", ok, "the collector function must be called with the receiver end of the channel created in spawn", site)

    run.guarded("R1", r1)

    f_col = F.fn("collect_and_deduplicate", adt="LogThread")

    def find_loop(body):
        """the receive loop: the innermost loop that contains the match over LogThreadMsg"""
        ms = T.find_matches(body, adt_suffix="LogThreadMsg", deep=True)
        loops = [n for n in T.walk(body) if n.get("k") == "Loop" and ms and any(x is ms[0] for x in T.walk(n))]
        if not loops:
            return None
        return loops[-1]

    def r2():
        body = f_col["body"]
        loop = find_loop(body)
        if loop is None:
            run.undecided("R2", "receive-loop", "no loop around a dispatch over LogThreadMsg found in collect_and_deduplicate", F.loc(body))
            return
        site = F.loc(loop)
        recvs = [n for n in T.walk(body) if T.is_call(n) and "crossbeam_channel" in (n.get("f") or "") and n["n"] in ("recv", "try_recv", "recv_timeout", "recv_deadline", "try_iter", "iter", "into_iter")]
        run.check("R2", "blocking-recv", bool(recvs) and all(n["n"] in ("recv", "iter", "into_iter") for n in recvs),
                  "the collector must receive with the blocking recv(): try_recv/timeouts return before messages that were already sent become visible; found %s" % [n["n"] for n in recvs], site)
        # a `for m in receiver.iter()` loop ends exactly when the channel is disconnected; only exits written in its body count
        user = loop
        is_for = False
        takewhile_terminate = []
        for (fn_, pat, it, lb) in T.for_loops(body):
            if any(x is loop for x in T.walk(fn_)) and not any(x is fn_ for x in T.walk(loop)):
                from .lib import bindsrc as B0
                iters = [x for src, how in B0.sources(F, B0.bodies(F, f_col), it) for x in T.walk(src) if T.is_call(x) and "crossbeam_channel" in (x.get("f") or "")]
                if iters:
                    user, is_for = lb, True
                    # adaptors that end the iteration early
                    cut = [x for x in T.walk(it) if T.is_call(x, ("take", "take_while", "skip", "skip_while", "step_by", "filter", "map_while", "filter_map"))]
                    # `take_while(|m| !matches!(m, Terminate))` ends the iteration exactly at Terminate: an exit reason, not a cut
                    from .lib import bindsrc as B
                    from .lib import peval as PE
                    for src, how in B.sources(F, B.bodies(F, f_col), it):
                        for x in T.walk(src):
                            if T.is_call(x, "take_while") and len(x["a"]) == 2 and T.peel(x["a"][1]).get("k") == "Closure":
                                c = F.by_path.get(T.peel(x["a"][1])["d"])
                                ps = [p_["p"] for p_ in c["params"] if p_.get("p")] if c is not None else []
                                pid = None
                                for p_ in ps[-1:]:
                                    q = p_
                                    while q.get("k") == "Deref":
                                        q = q["p"]
                                    if q.get("k") == "Bind":
                                        pid = q["id"]
                                if pid is not None:
                                    vals = {}
                                    for vname in F.variants(F.adt("utils::log::LogThreadMsg")):
                                        r = PE.Spec(F, assume=lambda n, vname=vname: ("enum", vname) if n.get("k") in ("Var", "Upvar") and n.get("id") == pid else None).cev(c["body"], {})
                                        vals[vname] = r
                                    if vals.get("Terminate") == ("bool", False) and all(v == ("bool", True) for k_, v in vals.items() if k_ != "Terminate"):
                                        takewhile_terminate.append(x)
                    cut = [x for x in cut if not any(x is y for y in takewhile_terminate)] + [x for src, how in B.sources(F, B.bodies(F, f_col), it) if src is not it for x in T.walk(src) if T.is_call(x, ("take", "skip", "skip_while", "step_by", "filter", "map_while", "filter_map")) or (T.is_call(x, "take_while") and not any(x is y for y in takewhile_terminate))]
                    run.check("R2", "for-loop-over-all-messages", not cut, "the receive loop must see every message; the iterator is restricted by %s" % [x["n"] for x in cut], site)
        exits = T.paths_to(user, lambda n: n.get("k") in ("Break", "Return"))
        sy = S.Sym(F)
        env = {}
        sy.term(f_col["body"], env)
        nbad = 0
        kinds = (["disconnected"] if is_for else []) + (["terminate"] if takewhile_terminate else [])
        extra_kinds = kinds
        for node, conds in exits:
            why = None
            for cd in conds:
                if cd[0] == "arm":
                    names = T.pat_variant_names(cd[2]["p"])
                    if names == {"Terminate"}:
                        why = "terminate"
                    # nested forms over the Result of recv(): `Ok(Terminate) | Err(_) => break`
                    alts = T.pat_alternatives(cd[2]["p"])
                    if alts and T.is_call(T.peel(cd[1]["e"]), "recv"):
                        kinds_ = []
                        for q in alts:
                            qn = T.pat_variant_names(q)
                            if qn == {"Err"}:
                                kinds_.append("disconnected")
                            elif qn == {"Ok"} and T.pat_mentions_adt(q, "LogThreadMsg"):
                                inner = [s_["p"] for s_ in T.pat_peel(q).get("sub", [])]
                                kinds_.append("terminate" if inner and T.pat_variant_names(inner[0]) == {"Terminate"} else None)
                            else:
                                kinds_.append(None)
                        if kinds_ and None not in kinds_:
                            why = "terminate" if "terminate" in kinds_ else "disconnected"
                            if "terminate" in kinds_:
                                extra_kinds.append("terminate")
                    scr = T.peel(cd[1]["e"])
                    if T.is_call(scr, "recv") and names and names <= {"Err"}:
                        why = "disconnected"
                    if T.is_call(scr, "recv") and T.pat_peel(cd[2]["p"]).get("k") == "Wild" and any(T.pat_variant_names(a["p"]) == {"Ok"} for a in cd[1]["arms"]):
                        why = "disconnected"
                if cd[0] == "if":
                    ct = sy.ev(cd[1], env)
                    if ct[0] == "let" and is_call(ct[2], "recv") and ct[1].startswith("Ok") and cd[2] is False:
                        why = "disconnected"
                    if ct[0] == "let" and is_call(ct[2], "recv") and ct[1].startswith("Err") and cd[2] is True:
                        why = "disconnected"
                if cd[0] == "letelse" and cd[2] is False:
                    i_ = T.peel(cd[1].get("i", {}))
                    if T.is_call(i_, "recv") and T.pat_variant_names(cd[1]["p"]) == {"Ok"}:
                        why = "disconnected"
            if why is None:
                nbad += 1
            kinds.append(why)
        run.check("R2", "exits-only-on-terminate-or-disconnect", nbad == 0 and "terminate" in kinds, "the receive loop may only be left when Terminate arrives or the channel is disconnected; exit reasons found: %s" % kinds, site)
        conts = [n for n in T.walk(user) if n.get("k") == "Continue"]
        run.check("R2", "no-message-skipped", not conts, "a `continue` in the receive loop drops the message just received", site)

    run.guarded("R2", r2)

    def pat_binds(p):
        """[(bind id, how)] how = 'slice-first' for the first prefix element of a slice pattern, else 'plain'"""
        out = []

        def rec(q, how):
            k = q.get("k")
            if k == "Bind":
                out.append((q["id"], how))
                if "sub" in q:
                    rec(q["sub"], how)
            elif k in ("Deref", "Guard"):
                rec(q["p"], how)
            elif k == "Slice":
                for i, e in enumerate(q.get("pre", [])):
                    rec(e, "slice-first" if i == 0 else "slice-other")
                for e in q.get("suf", []):
                    rec(e, "slice-other")
                if "mid" in q:
                    rec(q["mid"], "slice-other")
            elif k == "Or":
                for e in q["ps"]:
                    rec(e, how)
            else:
                for s_ in q.get("sub", []) if isinstance(q.get("sub"), list) else []:
                    rec(s_["p"] if "p" in s_ else s_, how)
        rec(p, "plain")
        return out

    def binder(root, vid):
        """(source expression, how) of the construct in root that binds local vid"""
        for x in T.walk(root):
            k = x.get("k")
            if k == "LetStmt" and "i" in x:
                for i, how in pat_binds(x["p"]):
                    if i == vid:
                        return x["i"], how
            if k == "Let":
                for i, how in pat_binds(x["p"]):
                    if i == vid:
                        return x["e"], how
            if k == "Match":
                for a in x["arms"]:
                    for i, how in pat_binds(a["p"]):
                        if i == vid:
                            return x["e"], how
        return None, None

    def key_source(root, e, depth=0):
        """expressions the key `e` is made of, following local bindings and small helpers: list of (expr, how)"""
        from .lib import bindsrc as B
        lib = B.sources(F, [root], e, follow_calls=True)
        if len(lib) > 1:
            return lib
        out = [(e, "plain")]
        seen = set()
        work = [e]
        while work and len(out) < 12:
            cur = work.pop()
            for x in T.walk(cur):
                if x.get("k") in ("Var", "Upvar") and x["id"] not in seen:
                    seen.add(x["id"])
                    src, how = binder(root, x["id"])
                    if src is not None:
                        out.append((src, how))
                        work.append(src)
        return out

    def mentions_field(e, fname):
        if any(x.get("k") == "Field" and x.get("fn") == fname for x in T.walk(e)):
            return True
        # through a small helper: `match Self::origin_address_of_log(&log_message) { .. }`
        from .lib import bindsrc as B
        if any(x.get("k") == "Call" and (F.by_path.get(x.get("r") or "") or F.by_path.get(x.get("f") or "")) is not None for x in T.walk(e)):
            return any(y.get("k") == "Field" and y.get("fn") == fname for src, how in B.sources(F, [], e, follow_calls=True) for y in B.walk_with_closures(F, src))
        return False

    def r3():
        body = f_col["body"]
        loop = find_loop(body)
        ms = T.find_matches(loop, adt_suffix="LogThreadMsg") if loop is not None else []
        if not ms:
            run.undecided("R3", "storage", "the per-kind storage is not written as a match over LogThreadMsg inside the receive loop of collect_and_deduplicate (it may live in helper methods, which this rule does not follow)", F.loc(body))
            return
        m = ms[0]
        adt = F.adt("utils::log::LogThreadMsg")
        for v in F.variants(adt):
            arms = T.arms_for_variant(m, v)
            if not arms:
                run.violated("R3", "arm|%s" % v, "no arm for LogThreadMsg::%s" % v, F.loc(m))
        STORE = ("push", "insert", "entry", "or_insert", "or_insert_with", "push_front", "extend", "try_insert", "push_back", "append")
        # Log arm: every storing operation is classified by the decision on `location` under which it runs
        arm = T.arms_for_variant(m, "Log")[0]
        ops = T.paths_to(arm["b"], lambda n: T.is_call(n, STORE))
        located, general, unknown = [], [], []
        for n, conds in ops:
            pol = None
            for cd in conds:
                if cd[0] == "if":
                    c = T.peel(cd[1])
                    if c.get("k") == "Let" and mentions_field(c["e"], "location"):
                        names = T.pat_variant_names(c["p"])
                        if names in ({"Some"}, {"None"}):
                            pol = (cd[2] is True) == (names == {"Some"})
                    if T.is_call(c, ("is_some", "is_none")) and mentions_field(c, "location"):
                        pol = (cd[2] is True) == (c["n"] == "is_some")
                if cd[0] == "arm" and mentions_field(cd[1]["e"], "location"):
                    names = T.pat_variant_names(cd[2]["p"])
                    if names == {"Some"}:
                        pol = True
                    elif names == {"None"}:
                        pol = False
                    elif T.pat_peel(cd[2]["p"]).get("k") in ("Wild", "Bind"):
                        others = set()
                        for a in cd[1]["arms"]:
                            if a is not cd[2]:
                                others |= T.pat_variant_names(a["p"]) or set()
                        if others == {"Some"}:
                            pol = False
                        elif others == {"None"}:
                            pol = True
                if cd[0] == "letelse" and "i" in cd[1] and mentions_field(cd[1]["i"], "location"):
                    names = T.pat_variant_names(cd[1]["p"])
                    if names in ({"Some"}, {"None"}):
                        pol = (cd[2] is True) == (names == {"Some"})
            (located if pol is True else general if pol is False else unknown).append(n)
        site = F.loc(arm["b"])
        if unknown or not ops:
            run.undecided("R3", "log|storage", "storing operations in the Log arm that are not under a decision on `location`: %s" % [T.show(n, F)[:80] for n in unknown], site)
        else:
            run.check("R3", "log|general-pushed-in-order", len(general) == 1 and general[0]["n"] == "push" and "Vec" in general[0]["f"], "a log message without location must be appended to a Vec (send order); found %s" % [g["n"] for g in general], site)
            ok = len(located) == 1 and located[0]["n"] == "insert" and "BTreeMap" in located[0]["f"]
            key_ok = False
            if located and len(located[0]["a"]) > 1:
                srcs = key_source(arm["b"], located[0]["a"][1])
                key_ok = any(mentions_field(e, "address") for e, h in srcs) and any(mentions_field(e, "location") for e, h in srcs)
            run.check("R3", "log|located-last-wins-by-address", ok and key_ok, "a log message with location must be stored with BTreeMap::insert keyed by its address (the last one sent wins); found %s key %s" % ([g["n"] for g in located], T.show(located[0]["a"][1], F)[:80] if located and len(located[0]["a"]) > 1 else None), site)
        # Cwe arm
        arm = T.arms_for_variant(m, "Cwe")[0]
        ins = [n for n in T.walk(arm["b"]) if T.is_call(n, STORE)]
        ok = len(ins) == 1 and ins[0]["n"] == "insert" and "BTreeMap" in ins[0]["f"]
        key_ok = first = False
        if ins and len(ins[0]["a"]) > 1:
            srcs = key_source(arm["b"], ins[0]["a"][1])
            key_ok = any(mentions_field(e, "addresses") for e, h in srcs)
            for e, h in srcs:
                if h == "slice-first" and mentions_field(e, "addresses"):
                    first = True
                for x in T.walk(e):
                    if T.is_call(x, "first") and mentions_field(x, "addresses"):
                        first = True
                    if (x.get("k") == "Index" and mentions_field(x["l"], "addresses") and str(T.peel(x["r"]).get("v")) == "0") or (T.is_call(x, "index") and len(x["a"]) == 2 and mentions_field(x["a"][0], "addresses") and str(T.peel(x["a"][1]).get("v")) == "0"):
                        first = True
                    if T.is_call(x, "next") and mentions_field(x, "addresses") and not any(T.is_call(y, ("rev", "skip", "next_back", "last")) for y in T.walk(x)):
                        first = True
        run.check("R3", "cwe|last-wins-by-first-address", ok and key_ok and first, "a warning must be stored with BTreeMap::insert keyed by its first address (last one sent wins); found %s key %s" % ([g["n"] for g in ins], T.show(ins[0]["a"][1], F)[:80] if ins and len(ins[0]["a"]) > 1 else None), F.loc(arm["b"]))
        # the collecting containers: locals that receive a storing operation in the loop
        names = {}
        for n in T.walk(loop):
            if T.is_call(n, STORE) and n.get("a"):
                vid = T.root_var_id(n["a"][0])
                if vid is not None:
                    names[vid] = T.show(n["a"][0], F).lstrip("&mut ").strip()
        vec_ids = list(names)
        reorder = [n for n in T.walk(body) if T.is_call(n, ("sort", "sort_by", "sort_by_key", "sort_unstable", "dedup", "dedup_by", "dedup_by_key", "reverse", "retain", "truncate", "clear", "pop", "remove", "swap_remove", "drain")) and n["a"] and T.root_var_id(n["a"][0]) in vec_ids]
        run.check("R3", "containers-not-reordered-or-pruned", not reorder, "a collecting container is sorted/deduplicated/pruned before it is returned: %s" % [n["n"] + "(" + T.show(n["a"][0]) + ")" for n in reorder], F.loc(body))
        # every container flows into the returned value: forward closure of "is used to build" over the statements after the loop
        flows = {i: {i} for i in names}     # container -> locals that (transitively) hold its content
        after = []
        seen_loop = False
        top = T.peel(body)
        stmts = list(top.get("ss", [])) + ([top["e"]] if top.get("e") is not None else []) if top.get("k") == "Block" else [top]
        for s_ in stmts:
            if any(x is loop for x in T.walk(s_)):
                seen_loop = True
                continue
            if seen_loop:
                after.append(s_)
        tail = after[-1] if after else None
        for s_ in after:
            used = {x["id"] for x in T.walk(s_) if x.get("k") in ("Var", "Upvar")}
            targets = set()
            sp = T.peel(s_)
            if sp.get("k") == "LetStmt":
                targets |= {i for i, h in pat_binds(sp["p"])}
            for x in T.walk(s_):
                if T.is_call(x, ("extend", "append", "push", "insert", "extend_from_slice")) and x.get("a"):
                    r = T.root_var_id(x["a"][0])
                    if r is not None:
                        targets.add(r)
                if x.get("k") == "Assign":
                    r = T.root_var_id(x["l"])
                    if r is not None:
                        targets.add(r)
            for i in flows:
                if flows[i] & used:
                    flows[i] |= targets
        tail_used = {x["id"] for x in T.walk(tail) if x.get("k") in ("Var", "Upvar")} if tail is not None else set()
        missing = [nme for i, nme in names.items() if not (flows[i] & tail_used)]
        run.check("R3", "all-containers-returned", not missing and len(names) >= 3, "containers %s do not reach the returned value (messages stored there are lost)" % missing, F.loc(body))
        run.floor("collecting containers", len(names), 3)

    run.guarded("R3", r3)

    def r4():
        fn = F.fn("check_cwe", mod="cwe_476")
        t = S.Sym(F).term(fn["body"])
        st = stmts_of(t)
        idx_comp = [i for i, s in enumerate(st) if any(is_call(x, ("compute_with_max_steps", "compute")) for x in S.subterms(s))]
        idx_drain = [i for i, s in enumerate(st) if any(is_call(x, ("try_iter", "try_recv", "recv", "iter")) and "crossbeam_channel" in x[3] for x in S.subterms(s))]
        site = F.loc(fn["body"])
        if not idx_comp or not idx_drain:
            run.undecided("R4", "cwe476|drain-after-computations", "computation loop or drain not found at the top level", site)
        else:
            run.check("R4", "cwe476|drain-after-computations", max(idx_comp) < min(idx_drain), "the warnings channel must be drained after all taint computations have run", site)
        from .lib import sortprint as SP2
        v_, why_, site_ = SP2.dedup_ordered(F, fn)
        if v_ == "undecided":
            run.undecided("R4", "cwe476|dedup-by-source-address-in-ordered-map", why_, site)
        else:
            run.check("R4", "cwe476|dedup-by-source-address-in-ordered-map", v_ == "holds", "warnings must be deduplicated in a BTreeMap keyed by the source address: %s" % why_, site)

    run.guarded("R4", r4)
