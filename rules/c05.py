"""C05 Memory regions behave as a store of non-overlapping typed cells -- store discipline.

 R1 who may write: MemRegion.inner and Inner.values are private; every mutation site of the
    cell map is enumerated (all in abstract_domain/mem_region.rs)
 R2 no Top is stored: every insert is control-dependent on `!value.is_top()`, copies an
    existing cell, takes a value that a helper returns only when non-top, or is followed by
    clear_top_values()
 R3 no overlap is created: every insert is preceded by clear_interval(position, size of
    value), replaces the cell at a key just looked up / iterated, or fills a fresh map
    under the overlap guards (merge) / by a uniform shift
 R4 the escape hatch values_mut(): every caller crate-wide calls clear_top_values() on the
    same region afterwards
Does not decide: that reads return the last write, overlap arithmetic, merge contents.
"""
from .lib import sym as S
from .lib import thir as T
from .lib.sym import fmt

MUT = ("insert", "remove", "retain", "values_mut", "clear", "append", "extend", "entry", "get_mut", "iter_mut", "pop_first", "pop_last", "split_off", "first_entry", "last_entry", "range_mut")


def is_call(t, name=None):
    return isinstance(t, tuple) and t and t[0] == "call" and (name is None or t[1] == name or (isinstance(name, (set, tuple, frozenset)) and t[1] in name))


def stmts_of(t):
    return list(t[1]) + [t[2]] if t[0] == "seq" else [t]


def run(run):
    F = run.facts()
    run.explanation = (
        "Static store-discipline analysis of abstract_domain::mem_region: the cell map is private (compiler visibility data), its "
        "mutation sites are enumerated from the THIR by the resolved receiver (field `values` of Inner, or a local map that becomes "
        "that field), and each insert is classified by the guard/dominator that justifies it: a dominating clear_interval with the "
        "same position and the value's size, a same-key replacement after a lookup/iteration, the two overlap guards of merge_inner, "
        "a uniform shift; and for Top: a dominating !is_top test, a non-top-returning helper, a copy, or a following "
        "clear_top_values(). Callers of the mutable iterator are found crate-wide by resolved receiver type. Decides the discipline "
        "that keeps cells non-overlapping and non-top, not the arithmetic of the overlap tests.")
    run.rule("R1", "cell map is private; mutation sites enumerated")
    run.rule("R2", "no insert stores a Top value")
    run.rule("R3", "no insert creates an overlap")
    run.rule("R4", "every caller of MemRegion::values_mut clears Top values afterwards")

    memreg = F.adt("abstract_domain::mem_region::MemRegion")
    inner = F.adt("abstract_domain::mem_region::Inner")
    mod_fns = [f for f in F.fns if f["mod"].endswith("abstract_domain::mem_region") and "expn" not in f]

    def is_values_place(node):
        """node (peeled) is `<x>.values` with adt Inner"""
        n = T.peel(node)
        return n.get("k") == "Field" and n.get("fn") == "values" and n.get("adt", "").endswith("mem_region::Inner")

    def r1():
        for fld in memreg["variants"][0]["fields"]:
            run.check("R1", "private|MemRegion.%s" % fld["name"], fld["vis"] != "pub", "MemRegion.%s is public" % fld["name"])
        for fld in inner["variants"][0]["fields"]:
            run.check("R1", "private|Inner.%s" % fld["name"], fld["vis"] != "pub", "Inner.%s is public" % fld["name"])
        run.check("R1", "private|Inner", "Restricted" in inner["vis"] or inner["vis"] != "Public", "struct Inner is public")
        n = 0
        outside = []
        for f in F.fns:
            for nd in T.walk(f["body"]):
                hit = (T.is_call(nd, MUT) and nd["a"] and is_values_place(nd["a"][0])) or (nd.get("k") == "Assign" and is_values_place(nd["l"]))
                if hit:
                    n += 1
                    if not F.file_of(f).endswith("abstract_domain/mem_region.rs"):
                        outside.append(f["path"])
        run.floor("mutation sites of the cell map", n, 6)
        run.check("R1", "all-writers-in-mem_region.rs", not outside, "the cell map is mutated outside mem_region.rs: %s" % outside[:3])

    run.guarded("R1", r1)

    # helper summary: merge_or_merge_with_top returns Some(x) only under !x.is_top()
    def helper_nontop():
        """every result of merge_or_merge_with_top is None or a value known not to be Top: `Some(x)` under a `!x.is_top()`
        condition, `Some(x).filter(|m| !m.is_top())`, `(!x.is_top()).then_some(x)` ...; True / False / None (not recognised)"""
        from .lib import peval as PE
        f = F.fn("merge_or_merge_with_top", mod="abstract_domain::mem_region")
        sy = S.Sym(F)
        env = {}
        sy.term(f["body"], env)
        res, nodes = PE.Spec(F).results(f["body"], {})

        def nontop_test(cond, pol, payload_term):
            """the condition (with polarity) contains the conjunct `!is_top(payload)`"""
            ct = cond
            while ct[0] == "not":
                ct, pol = ct[1], not pol
            if ct[0] == "and" and pol:
                return nontop_test(ct[1], True, payload_term) or nontop_test(ct[2], True, payload_term)
            return is_call(ct, "is_top") and (payload_term is None or ct[2][0] == payload_term) and not pol

        verdict = True
        for r in res:
            rp = T.peel(r)
            kind = PE.option_kind(r)
            if kind == "None":
                continue
            if T.diverges(rp):
                continue
            if T.is_call(rp, "filter") and len(rp["a"]) == 2 and T.peel(rp["a"][1]).get("k") == "Closure":
                c = F.by_path.get(T.peel(rp["a"][1])["d"])
                ct = S.value(S.Sym(F).term(c["body"])) if c is not None else None
                if ct is not None and nontop_test(ct, True, None):
                    continue
                verdict = None if verdict else verdict
                continue
            if T.is_call(rp, ("then_some", "then")) and len(rp["a"]) == 2:
                ct = sy.ev(rp["a"][0], env)
                if nontop_test(ct, True, None):
                    continue
                verdict = None if verdict else verdict
                continue
            if isinstance(kind, tuple):
                # Some(x): needs a dominating !x.is_top()
                payload = sy.ev(rp["fs"]["0"], env) if rp.get("k") == "Adt" else None
                guarded = False
                for node, conds in T.paths_to(f["body"], lambda n: n is rp):
                    for cd in conds:
                        if cd[0] == "if" and nontop_test(sy.ev(cd[1], env), cd[2], payload):
                            guarded = True
                if not guarded:
                    verdict = False
                continue
            verdict = None if verdict else verdict
        if not res:
            verdict = None
        return verdict, f

    def insert_sites():
        """(fn, insert node, map kind) for inserts into the cell map or a local map that becomes it"""
        out = []
        for f in mod_fns:
            if f["dk"] == "Closure":
                continue
            # local maps that flow into `.values`
            becoming = set()
            for nd in T.walk(f["body"]):
                if nd.get("k") == "Assign" and is_values_place(nd["l"]):
                    i = T.var_id(nd["r"])
                    if i is not None:
                        becoming.add(i)
                if nd.get("k") == "Adt" and nd["adt"].endswith("mem_region::Inner") and "values" in nd["fs"]:
                    i = T.var_id(nd["fs"]["values"])
                    if i is not None:
                        becoming.add(i)
            for nd in T.walk(f["body"]):
                if T.is_call(nd, "insert") and nd["a"] and "BTreeMap" in nd["f"]:
                    if is_values_place(nd["a"][0]):
                        out.append((f, nd, "self"))
                    elif T.var_id(nd["a"][0]) in becoming:
                        out.append((f, nd, "fresh"))
        return out

    sites = None

    def has_call(t, names, depth=0):
        """term contains a call named in `names`, also inside closures it mentions"""
        for x in S.subterms(t):
            if is_call(x, names):
                return True
            if isinstance(x, tuple) and x and x[0] == "closure" and depth < 3:
                try:
                    c = F.closure_by_path(x[1])
                except T.AnchorMissing:
                    continue
                if has_call(S.Sym(F).term(c["body"]), names, depth + 1):
                    return True
        return False

    def elem_of_values(t):
        """t is derived from an element of an iteration over the cell map"""
        for x in S.subterms(t):
            if isinstance(x, tuple) and x and x[0] == "elem":
                if any(isinstance(y, tuple) and y and y[0] == "field" and y[2] == "values" for y in S.subterms(x[1])):
                    return True
        return False

    def conds_terms(f, node, sy, env):
        res = []
        for n2, conds in T.paths_to(f["body"], lambda y: y is node):
            for cd in conds:
                if cd[0] == "if":
                    res.append((sy.ev(cd[1], env), cd[2], cd[1]))
                elif cd[0] == "arm":
                    res.append((("arm", T.show_pat(cd[2]["p"]), sy.ev(cd[1]["e"], env)), True, cd[1]))
        return res

    def r2():
        nonlocal sites
        sites = insert_sites()
        run.floor("insert sites into the cell map", len(sites), 1)
        helper_ok, hf = helper_nontop()
        if helper_ok is None:
            run.undecided("R2", "merge_or_merge_with_top|returns-only-non-top", "a result of merge_or_merge_with_top is not in the vocabulary (None / guarded Some / filter / then_some)", F.loc(hf["body"]))
        else:
            run.check("R2", "merge_or_merge_with_top|returns-only-non-top", helper_ok, "merge_or_merge_with_top must return Some(x) only under !x.is_top()", F.loc(hf["body"]))
        counter = {}
        for f, nd, kind in sites:
            sy = S.Sym(F)
            env = {}
            sy.term(f["body"], env)
            val = sy.ev(nd["a"][2], env)
            idx = counter.get(f["name"], 0)
            counter[f["name"]] = idx + 1
            key = "%s|insert#%d" % (f["name"], idx)
            site = F.loc(nd)
            why = None
            for ct, pol, _ in conds_terms(f, nd, sy, env):
                c = ct
                p = pol
                while c[0] == "not":
                    c, p = c[1], not p
                if is_call(c, "is_top") and c[2][0] == val and not p:
                    why = "guarded by !is_top"
                if c[0] == "let" and is_call(c[2], "merge_or_merge_with_top") and c[1].startswith("Some") and p and helper_ok:
                    if val[0] == "field" and val[2] == "Some.0" and val[1] == c[2]:
                        why = "value of a helper that returns only non-top values"
            if why is None:
                # copy of an existing cell: value is (a clone of) the iteration element of values.iter()
                if elem_of_values(val) and val[0] == "field" and not has_call(val, ("merge", "top", "new_top")):
                    why = "copies an existing cell unchanged"
            if why:
                run.holds("R2", key, why, site)
            else:
                run.violated("R2", key, "a value is inserted into the cell map without a `!is_top()` guard (value: %s): the region would store the unknown value" % fmt(val)[:120], site)
        # values_mut inside the module: followed by clear_top_values
        for f in mod_fns:
            for nd in T.walk(f["body"]):
                if T.is_call(nd, ("values_mut", "iter_mut", "get_mut")) and nd["a"] and is_values_place(nd["a"][0]) and f["name"] != "values_mut":
                    t = S.Sym(F).term(f["body"])
                    st = stmts_of(t)
                    im = [i for i, s in enumerate(st) if any(is_call(x, nd["n"]) for x in S.subterms(s))]
                    ic = [i for i, s in enumerate(st) if s[0] == "call" and s[1] == "clear_top_values"]
                    run.check("R2", "%s|%s-then-clear_top_values" % (f["name"], nd["n"]), bool(im) and bool(ic) and ic[-1] > im[-1], "%s mutates cells in place and must call clear_top_values() afterwards on every path" % f["name"], F.loc(nd))

    run.guarded("R2", r2)

    def r3():
        counter = {}
        for f, nd, kind in (sites or insert_sites()):
            sy = S.Sym(F)
            env = {}
            t = sy.term(f["body"], env)
            keyt = sy.ev(nd["a"][1], env)
            val = sy.ev(nd["a"][2], env)
            idx = counter.get(f["name"], 0)
            counter[f["name"]] = idx + 1
            key = "%s|insert#%d" % (f["name"], idx)
            site = F.loc(nd)
            conds = conds_terms(f, nd, sy, env)
            why = None
            if kind == "self":
                # (a) dominated by clear_interval(self, key, size-of-value)
                st = stmts_of(t)
                for s in st:
                    if any(x is not None and is_call(x, "insert") and x[2][1] == keyt for x in S.subterms(s)):
                        break
                    if s[0] == "call" and s[1] == "clear_interval" and len(s[2]) == 3 and s[2][1] == keyt:
                        size = s[2][2]
                        if any(is_call(x, "bytesize") and x[2][0] == val for x in S.subterms(size)):
                            why = "dominated by clear_interval(position, size of the inserted value)"
                        else:
                            run.violated("R3", key, "clear_interval before the insert uses size %s, which is not the size of the inserted value" % fmt(size), site)
                            why = "reported"
                # (b) same-key replacement: key was looked up / iterated from the map itself and the value is the merge of that cell
                if why is None:
                    from_lookup = False
                    for ct, pol, _ in conds:
                        if ct[0] == "let" and pol and is_call(ct[2], "get") and len(ct[2][2]) == 2 and ct[2][2][1] == keyt:
                            from_lookup = True
                    key_from_range = elem_of_values(keyt) or any(is_call(x, ("range", "iter", "keys")) and any(isinstance(y, tuple) and y and y[0] == "field" and y[2] == "values" for y in S.subterms(x)) for x in S.subterms(keyt))
                    val_is_merge_of_cell = has_call(val, ("merge",))
                    if (from_lookup or key_from_range) and val_is_merge_of_cell:
                        # the merged value must be built from the cell stored at that key (size preserved by merge)
                        why = "replaces the cell at a key that was just looked up / iterated with a merge of that cell"
            else:
                # fresh map
                if is_call(val, None) is False and val[0] == "field" and val[2] == "Some.0" and is_call(val[1], "merge_or_merge_with_top"):
                    # merge_inner: needs both overlap guards
                    g_prev = g_next = False
                    opaque = []

                    def literals_of(ct, pol):
                        """(op, lhs, rhs) comparisons implied by the condition, negations pushed inwards, conjunctions split"""
                        ct = S.value(ct)
                        if ct[0] == "not":
                            return literals_of(ct[1], not pol)
                        if (ct[0] == "and" and pol) or (ct[0] == "or" and not pol):
                            return literals_of(ct[1], pol) + literals_of(ct[2], pol)
                        if ct[0] == "bin" and ct[1] in ("Ge", "Gt", "Le", "Lt"):
                            op = ct[1] if pol else {"Ge": "Lt", "Lt": "Ge", "Gt": "Le", "Le": "Gt"}[ct[1]]
                            return [(op, ct[2], ct[3])]
                        if ct[0] == "lit" and isinstance(ct[1], bool):
                            return []
                        if (ct[0] == "or" and pol) or (ct[0] == "and" and not pol):
                            # a disjunction guarantees neither side; it is only opaque if a side is outside the vocabulary
                            parts = literals_of(ct[1], pol) + literals_of(ct[2], pol)
                            return [x for x in parts if x[0] == "?"]
                        return [("?", ct, pol)]

                    def closure_terms(ct, depth=0):
                        """terms of closures invoked in / passed along the condition (named conditions, map_or predicates)"""
                        out = []
                        for x in S.subterms(ct):
                            if isinstance(x, tuple) and x and x[0] == "closure" and depth < 3:
                                try:
                                    cb = S.Sym(F).term(F.closure_by_path(x[1])["body"])
                                except T.AnchorMissing:
                                    continue
                                out.append(cb)
                                out.extend(closure_terms(cb, depth + 1))
                        return out
                    mre = lambda z: any(isinstance(x, tuple) and x and x[0] == "var" and x[1] == "merged_range_end" for x in S.subterms(z))
                    cre = lambda z: any(is_call(x, "compute_range_end") or (isinstance(x, tuple) and x and x[0] == "var" and x[1] == "elem_range_end") for x in S.subterms(z))
                    for ct, pol, _ in conds:
                        if ct[0] == "let" and (not pol) and any(is_call(x, "range") for x in S.subterms(ct[2])):
                            g_next = True  # there is no subsequent element
                            continue
                        if ct[0] in ("let", "arm"):
                            continue
                        for lit in literals_of(ct, pol):
                            if lit[0] == "?":
                                # a named condition / closure call: look at what it compares
                                inner = closure_terms(lit[1])
                                hit = False
                                for cb in inner:
                                    if cre(cb) and any(is_call(x, ("range", "next")) for y in [cb] + [lit[1]] + inner for x in S.subterms(y)):
                                        hit = True
                                if hit:
                                    g_next = True
                                else:
                                    opaque.append(fmt(lit[1])[:60])
                                continue
                            op, l, r = lit
                            if (op == "Ge" and mre(r)) or (op == "Le" and mre(l)):
                                g_prev = True
                            elif (op == "Ge" and cre(r)) or (op == "Le" and cre(l)):
                                g_next = True
                            elif (op in ("Lt", "Gt")) and (mre(l) or mre(r) or cre(l) or cre(r)):
                                pass  # the overlapping case of a guard: contributes nothing
                    if g_prev and g_next:
                        why = "inside the not-overlapping-previous and not-overlapping-subsequent guards"
                    elif opaque:
                        run.undecided("R3", key, "merge_inner inserts a merged cell under conditions that are not recognised as the overlap guards: %s" % opaque[:2], site)
                        why = "reported"
                    else:
                        run.violated("R3", key, "merge_inner inserts a merged cell without %s" % ("the guard against overlapping a previous cell" if not g_prev else "the guard against overlapping a subsequent cell"), site)
                        why = "reported"
                elif keyt[0] == "bin" and keyt[1] in ("Add", "Sub") and elem_of_values(keyt[2]) and keyt[3][0] == "var":
                    if val[0] == "field" and elem_of_values(val) and not has_call(val, ("merge", "top", "new_top")):
                        why = "uniform shift of all keys with unchanged cells"
            if why is None:
                run.violated("R3", key, "an insert at key %s is neither preceded by clear_interval(key, size of the value) nor a same-key replacement nor guarded against overlaps" % fmt(keyt)[:80], site)
            elif why != "reported":
                run.holds("R3", key, why, site)
        # merged_range_end is advanced for every element (also the skipped ones)
        f = F.fn("merge_inner", mod="abstract_domain::mem_region")
        ok = False
        for (node, pat, it, body) in T.for_loops(f["body"]):
            b = T.peel(body)
            if b.get("k") == "Block":
                for s in b["ss"] + ([b["e"]] if "e" in b else []):
                    s = T.peel(s)
                    if s.get("k") == "Assign" and T.show(s["l"]) == "merged_range_end" and any(T.is_call(x, "max") for x in T.walk(s["r"])):
                        ok = True
        run.check("R3", "merge_inner|range-end-advanced-for-every-element", ok, "merged_range_end must be advanced (max) for every element of the zipped map, also for skipped ones", F.loc(f["body"]))
        # both inputs are visited
        # both inputs are visited: the zipped map is fed from an iteration over self's cells AND one over other's cells
        feeders = set()
        for n in T.walk_fn(F, f):
            src = None
            if n.get("k") == "Match" and T.for_loop(n):
                pat, it, body = T.for_loop(n)
                if any(T.is_call(x, ("insert", "entry", "push")) and "zipped" in T.show(x["a"][0]) for x in T.walk(body)):
                    src = it
            elif n.get("k") == "LetStmt" and "i" in n and any(b[1] == "zipped" for b in T.pat_bindings(n["p"])):
                src = n["i"]
            if src is not None:
                for y in T.walk(src):
                    if y.get("k") == "Field" and y.get("fn") == "values":
                        b = y
                        for _ in range(8):
                            b = T.peel(b)
                            if b.get("k") == "Field":
                                b = b["e"]
                            elif b.get("k") == "Call" and b.get("n") in ("deref", "deref_mut", "as_ref", "borrow") and b.get("a"):
                                b = b["a"][0]
                            else:
                                break
                        if b.get("k") in ("Var", "Upvar") and b.get("n") in ("self", "other"):
                            feeders.add(b["n"])
        if feeders == {"self", "other"}:
            run.holds("R3", "merge_inner|both-inputs-visited", "", F.loc(f["body"]))
        elif len(feeders) == 1:
            run.violated("R3", "merge_inner|both-inputs-visited", "only the cells of `%s` are entered into the overlap computation: cells present only in the other input must still take part" % list(feeders)[0], F.loc(f["body"]))
        else:
            run.undecided("R3", "merge_inner|both-inputs-visited", "construction of the zipped map not recognised", F.loc(f["body"]))

    run.guarded("R3", r3)

    def r3_range_end():
        """compute_range_end(index, left, right) must cover the larger of the two cells when both are present"""
        f = F.fn("compute_range_end", mod="abstract_domain::mem_region")
        t = S.Sym(F).term(f["body"])

        class Unknown(Exception):
            pass

        def which(x):
            x = S.value(x)
            if x[0] == "var" and x[1] in ("left", "right"):
                return x[1]
            if x[0] == "field" and x[2] == "Some.0":
                return which(x[1])
            return None

        def sel(x, pres):
            """the element(s) an Option/element-valued term denotes under the presence assignment"""
            x = S.value(x)
            w = which(x)
            if w:
                return {w} if pres[w] else set()
            if is_call(x, ("or", "or_else", "xor")) and len(x[2]) == 2:
                a = sel(x[2][0], pres)
                return a if a else sel(x[2][1], pres)
            if is_call(x, ("and",)) and len(x[2]) == 2:
                return sel(x[2][1], pres) if sel(x[2][0], pres) else set()
            if is_call(x, ("unwrap", "expect", "unwrap_or_default", "cloned", "copied", "as_ref", "unwrap_unchecked")):
                return sel(x[2][0], pres)
            raise Unknown(fmt(x))

        def sizes(x, pres):
            x = S.value(x)
            h = x[0]
            if h == "lit":
                return set()
            if h == "var":
                if x[1] == "index":
                    return set()
                raise Unknown(fmt(x))
            if h == "bin":
                return sizes(x[2], pres) | sizes(x[3], pres)
            if h == "cast":
                return sizes(x[1], pres)
            if is_call(x, ("from", "into", "max", "min", "add", "saturating_add")):
                out = set()
                for a in x[2]:
                    out |= sizes(a, pres)
                return out
            if is_call(x, "bytesize"):
                return sel(x[2][0], pres)
            if h == "match" and x[1][0] == "tuple" and len(x[1][1]) == 2:
                for pat, g, b in x[2]:
                    alts = []
                    for alt in pat.split(" | "):
                        alt = alt.strip()
                        if not (alt.startswith("(") and alt.endswith(")")):
                            continue
                        depth, cut = 0, None
                        for i, ch in enumerate(alt[1:-1]):
                            if ch in "({[":
                                depth += 1
                            elif ch in ")}]":
                                depth -= 1
                            elif ch == "," and depth == 0:
                                cut = i
                                break
                        if cut is None:
                            continue
                        alts.append((alt[1:-1][:cut].strip(), alt[1:-1][cut + 1:].strip()))
                    for k, (l, r) in enumerate(alts):
                        ok_l = l.startswith("_") or (l.startswith("Some") and pres["left"]) or (l.startswith("None") and not pres["left"])
                        ok_r = r.startswith("_") or (r.startswith("Some") and pres["right"]) or (r.startswith("None") and not pres["right"])
                        if ok_l and ok_r and g is None:
                            if k == 0:
                                return sizes(b, pres)
                            # the arm body was normalised with the bindings of the first alternative: an or-pattern binds the
                            # same names in every alternative, here at the mirrored position
                            l0, r0 = alts[0]
                            mirrored = l0.startswith("Some") != l.startswith("Some") or r0.startswith("Some") != r.startswith("Some")
                            if mirrored:
                                sw = sizes(b, {"left": pres["right"], "right": pres["left"]})
                                return {"left" if w == "right" else "right" for w in sw}
                            return sizes(b, pres)
                raise Unknown("no arm for presence %s" % pres)
            if h == "ite":
                raise Unknown(fmt(x))
            raise Unknown(fmt(x))

        want = {(True, True): {"left", "right"}, (True, False): {"left"}, (False, True): {"right"}}
        try:
            bad = []
            for (pl, pr), w in want.items():
                got = sizes(t, {"left": pl, "right": pr})
                if got != w:
                    bad.append("left %s, right %s: end computed from the size of %s, must cover %s" % ("present" if pl else "absent", "present" if pr else "absent", sorted(got) or "nothing", sorted(w)))
            run.check("R3", "compute_range_end|covers-both-cells", not bad, "the occupied range of a zipped entry must extend over the larger of the two cells; " + "; ".join(bad), F.loc(f["body"]))
        except Unknown as e:
            run.undecided("R3", "compute_range_end|covers-both-cells", "outside vocabulary: %s" % e, F.loc(f["body"]))

    run.guarded("R3", r3_range_end)

    def r4():
        n = 0
        for f in F.fns:
            if f["dk"] == "Closure":
                continue
            for nd in T.walk_fn(F, f):
                if T.is_call(nd, "values_mut") and "mem_region::MemRegion" in (nd.get("is", "") + nd["f"]):
                    n += 1
                    recv = T.show(nd["a"][0]).replace("&mut ", "").replace("&", "")
                    t = S.Sym(F).term(f["body"])
                    st = stmts_of(t)
                    im = [i for i, s in enumerate(st) if any(is_call(x, "values_mut") and "MemRegion" in x[3] for x in S.subterms(s))]
                    ic = [i for i, s in enumerate(st) if s[0] == "call" and s[1] == "clear_top_values"]
                    same = False
                    if im and ic:
                        a = [x for x in S.subterms(st[im[-1]]) if is_call(x, "values_mut")][0][2][0]
                        same = any(st[i][2][0] == a for i in ic if i > im[-1])
                    run.check("R4", "%s|values_mut-then-clear" % (f.get("root") or f["path"]), same, "%s mutates the cells of %s through values_mut() without calling clear_top_values() on the same region afterwards" % (f["name"], recv), F.loc(nd))
        run.floor("callers of MemRegion::values_mut", n, 2)

    run.guarded("R4", r4)
