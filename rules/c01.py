"""C01 Constant folding agrees with P-Code semantics -- table / structure clauses.

Decides (from the THIR of /repo's current source, nothing is executed):
 R1 result-width tables of Expression::bytesize, RegisterDomain::bin_op_bytesize and the
    widths constructed by BitvectorExtended::bin_op agree with each other and with the
    P-Code width classes
 R2 unsupported operations reach Err (floats, >64 bit mul/div guarded, division errors
    propagated, never unwrapped)
 R3 BitvectorDomain maps Err / non-values to Top of the right width, never to a value
 R4 carry / signed-carry / signed-borrow conditions as truth tables over sign atoms
 R5 operation -> apint primitive and operand order; shifts saturate: amount < width guards the primitive and
    an over-shift yields 0 (sign fill for INT_SRIGHT); clamping the amount to width-1 is accepted for the
    arithmetic right shift only
 R6 operator traits delegate to the matching operation
Does not decide: that apint's primitives compute what their names say.
How the arm tables are read: the whole function is evaluated once per operator with the dispatched-on parameter bound to
that constant (lib/sym fold + inline_local + flow_norm), so shared arms, private helpers per operator family, guard clauses,
function-pointer tables and a common tail after the match give the same per-operator term as one arm per operator.
"""
from .lib import sym as S
from .lib import thir as T
from .lib.sym import fmt

BIN_ONE = {"IntEqual", "IntNotEqual", "IntLess", "IntLessEqual", "IntSLess", "IntSLessEqual", "IntCarry", "IntSCarry",
           "IntSBorrow", "BoolAnd", "BoolOr", "BoolXOr", "FloatEqual", "FloatNotEqual", "FloatLess", "FloatLessEqual"}
BIN_SUM = {"Piece"}


def ref_class(v):
    return "one" if v in BIN_ONE else "sum" if v in BIN_SUM else "lhs"


def variant_arm_table(match, variants):
    tab = {}
    for v in variants:
        arms = T.arms_for_variant(match, v)
        tab[v] = arms[0] if arms else None
    return tab


def is_call(t, name=None):
    return isinstance(t, tuple) and t and t[0] == "call" and (name is None or t[1] == name or (isinstance(name, (set, tuple, frozenset)) and t[1] in name))


def is_var(t, name):
    return isinstance(t, tuple) and t[0] == "var" and t[1] == name


def strip(t):
    """Remove result/option plumbing and representation changes that keep the value."""
    while True:
        if is_call(t, ("unwrap", "expect", "must_use")) and t[2]:
            t = t[2][0]
        elif t[0] == "try":
            t = t[1]
        elif t[0] == "seq":
            t = t[2]
        else:
            return t


def size_class(t, lhs, rhs):
    """Classify a ByteSize-valued term: 'one' | 'lhs' | 'sum' | None."""
    t = strip(t)
    if is_call(t, "new") and "ByteSize" in t[3] and t[2] and t[2][0] == ("lit", 1):
        return "one"
    if is_call(t, "bytesize") and len(t[2]) == 1:
        a = t[2][0]
        if a == lhs:
            return "lhs"
        if a == rhs:
            return "rhs"
    if is_call(t, "add") and len(t[2]) == 2:
        cs = {size_class(t[2][0], lhs, rhs), size_class(t[2][1], lhs, rhs)}
        if cs == {"lhs", "rhs"}:
            return "sum"
    return None


def leaves(t, conds=()):
    """(path condition terms, leaf term) for if/else trees."""
    t = S.value(t)
    if t[0] == "ite":
        yield from leaves(t[2], conds + ((t[1], True),))
        yield from leaves(t[3], conds + ((t[1], False),))
    else:
        yield conds, t


def ok_payload(t):
    t = S.value(t)
    if t[0] == "adt" and t[1].endswith("result::Result") and t[2] == "Ok":
        return dict(t[3])["0"]
    return None


def is_err(t):
    t = S.value(t)
    return t[0] == "adt" and t[1].endswith("result::Result") and t[2] == "Err"


SELF = None


def bv_width(t):
    """Symbolic bit width of an apint-valued term over self/rhs: 'S','R','S+R','8' or None"""
    t = strip(t)
    if is_var(t, "self"):
        return "S"
    if is_var(t, "rhs"):
        return "R"
    if t[0] == "neg":
        return bv_width(t[1])
    if is_call(t):
        n, a = t[1], t[2]
        if n in ("from_u8",) or (n == "from" and a and a[0][0] == "cast" and a[0][2] == "u8"):
            return "8"
        if n in ("add", "sub", "mul", "bitand", "bitor", "bitxor") and len(a) == 2:
            wa, wb = bv_width(a[0]), bv_width(a[1])
            if wa == wb:
                return wa
            # apint's binary operations require operands of equal width (they fail otherwise)
            if {wa, wb} == {"S", "R"}:
                return "S"
            return None
        if n.startswith("into_checked_") or n.startswith("checked_") or n in ("into_bitnot",):
            return bv_width(a[0]) if a else None
        if n in ("into_zero_extend", "into_sign_extend", "into_truncate") and len(a) == 2:
            return width_expr(a[1])
        if n in ("zero", "one", "all_set", "signed_min_value", "signed_max_value") and a:
            return width_expr(a[0])
    return None


def width_expr(t):
    """A BitWidth/usize-valued term: width(self) -> 'S', width(self)+width(rhs) -> 'S+R'"""
    t = strip(t)
    if is_call(t, ("to_usize", "into", "from")) and len(t[2]) == 1:
        return width_expr(t[2][0])
    if is_call(t, "width") and len(t[2]) == 1:
        return bv_width(t[2][0])
    if t[0] == "bin" and t[1] == "Add":
        ws = sorted([str(width_expr(t[2])), str(width_expr(t[3]))])
        if ws == ["R", "S"]:
            return "S+R"
    return None


# ---- comparison primitives: canonical (op, a, b) with op in ult/ule/slt/sle/eq/ne
CMP = {
    "checked_ult": ("ult", False), "checked_ule": ("ule", False), "checked_ugt": ("ult", True), "checked_uge": ("ule", True),
    "checked_slt": ("slt", False), "checked_sle": ("sle", False), "checked_sgt": ("slt", True), "checked_sge": ("sle", True),
    "eq": ("eq", False), "ne": ("ne", False),
}
NEG = {"ult": ("ule", True), "ule": ("ult", True), "slt": ("sle", True), "sle": ("slt", True), "eq": ("ne", False), "ne": ("eq", False)}


def canon_cmp(t):
    """-> (op, a, b) or None. Sees through unwrap, `as u8`, Bitvector::from, negation."""
    t = strip(t)
    if t[0] == "cast":
        return canon_cmp(t[1])
    if is_call(t, ("from", "from_u8")) and len(t[2]) == 1:
        return canon_cmp(t[2][0])
    if t[0] == "not":
        c = canon_cmp(t[1])
        if c is None:
            return None
        op, sw = NEG[c[0]]
        return (op, c[2], c[1]) if sw else (op, c[1], c[2])
    if is_call(t) and t[1] in CMP and len(t[2]) == 2:
        op, sw = CMP[t[1]]
        a, b = strip(t[2][0]), strip(t[2][1])
        if sw:
            a, b = b, a
        if op in ("eq", "ne") and repr(a) > repr(b):
            a, b = b, a
        return (op, a, b)
    if t[0] == "bin" and t[1] in ("Eq", "Ne"):
        a, b = sorted([strip(t[2]), strip(t[3])], key=repr)
        return (t[1].lower(), a, b)
    return None


COMMUTATIVE = {"add", "mul", "bitand", "bitor", "bitxor"}
ARITH = {"add": "add", "sub": "sub", "mul": "mul", "bitand": "and", "bitor": "or", "bitxor": "xor",
         "into_checked_udiv": "udiv", "into_checked_sdiv": "sdiv", "into_checked_urem": "urem", "into_checked_srem": "srem",
         "into_checked_add": "add", "into_checked_sub": "sub", "into_checked_mul": "mul",
         "into_wrapping_add": "add", "into_wrapping_sub": "sub", "into_wrapping_mul": "mul",
         "into_wrapping_udiv": "udiv", "into_wrapping_sdiv": "sdiv", "into_wrapping_urem": "urem", "into_wrapping_srem": "srem",
         "into_bitand": "and", "into_bitor": "or", "into_bitxor": "xor"}


def canon_arith(t):
    """single primitive on two leaves -> (op, a, b) with commutative operands sorted"""
    t = strip(t)
    if is_call(t) and t[1] in ARITH and len(t[2]) == 2:
        op = ARITH[t[1]]
        a, b = strip(t[2][0]), strip(t[2][1])
        if op in ("add", "mul", "and", "or", "xor") and repr(a) > repr(b):
            a, b = b, a
        return (op, a, b)
    return None


def run(run):
    F = run.facts()
    run.explanation = (
        "Static table/structure analysis of the constant folder: the match arms of BitvectorExtended::{bin_op,un_op,cast,subpiece}, "
        "BitvectorDomain::{bin_op,un_op,cast,subpiece}, Expression::bytesize and RegisterDomain::bin_op_bytesize are extracted from the "
        "compiler's THIR of /repo's current source, let-inlined into terms over (self, rhs) and compared with the P-Code definition of "
        "each mnemonic (width class, primitive, operand order, sign-rule truth tables, error discipline). Decides these structural "
        "clauses, not the numeric behaviour of the apint primitives.")
    run.assumptions = [
        "rustc's THIR for the non-test configuration of cwe_checker_lib is the analysed program",
        "apint primitives compute what their names say; apint::Int::is_positive == !is_negative (sign bit unset; read from apint 0.2 source)",
        "P-Code reference: INT_SCARRY = sign(a)==sign(b) && sign(a+b)!=sign(a); INT_SBORROW = sign(a)!=sign(b) && sign(a-b)!=sign(a); INT_CARRY = a+b <u a",
    ]
    run.rule("R1", "result-width class per BinOpType/UnOpType variant agrees across tables and with P-Code")
    run.rule("R2", "unsupported operations are Err: floats, >64-bit mul/div behind a dominating width guard, div errors propagated")
    run.rule("R3", "BitvectorDomain maps Err/non-values to Top of the table width and never to a Value")
    run.rule("R4", "carry/scarry/sborrow conditions equal the P-Code truth tables over sign atoms")
    run.rule("R5", "each operation maps to the apint primitive of that mnemonic with P-Code operand order")
    run.rule("R6", "Add/Sub/Neg operator impls delegate to IntAdd/IntSub/Int2Comp")

    binop = F.adt("intermediate_representation::expression::BinOpType")
    unop = F.adt("intermediate_representation::expression::UnOpType")
    castop = F.adt("intermediate_representation::expression::CastOpType")
    BV = F.variants(binop)
    UV = F.variants(unop)
    CV = F.variants(castop)
    run.floor("BinOpType variants", len(BV), 34)

    f_bv = F.fn("bin_op", trait="BitvectorExtended", self_contains="ApInt")
    f_un = F.fn("un_op", trait="BitvectorExtended", self_contains="ApInt")
    f_cast = F.fn("cast", trait="BitvectorExtended", self_contains="ApInt")
    f_sub = F.fn("subpiece", trait="BitvectorExtended", self_contains="ApInt")
    f_bs = F.fn("bytesize", adt="Expression", trait="")
    f_bbs = F.fn("bin_op_bytesize", trait="RegisterDomain")

    def sym_arms(fn, adt_suffix, variants):
        ms = T.find_matches(fn["body"], adt_suffix=adt_suffix)
        if not ms:
            raise T.AnchorMissing("no match over %s in %s" % (adt_suffix, fn["path"]))
        # the match with most arms over this adt (bytesize has nested matches)
        m = max(ms, key=lambda m: len(m["arms"]))
        # each arm is evaluated FOR its variant: the dispatched-on variable is bound to the constant, so tests on it inside a
        # shared arm or inside a private helper the arm delegates to (inlined) are folded away; guard clauses and early
        # returns are normalised into an if/else tree of values
        sy = S.Sym(F, fold=True, inline_local=2).scan(fn["body"])
        scr = T.peel(m["e"])
        scr_id = scr["id"] if scr.get("k") in ("Var", "Upvar") else None
        param_ids = {b[0] for p_ in fn["params"] if p_.get("p") for b in T.pat_bindings(p_["p"])}
        scr_adt = (F.ty(scr) or "").replace("&", "").strip()
        env = {}
        tab = {}
        armtab = variant_arm_table(m, variants)
        for v, arm in armtab.items():
            if arm is None:
                tab[v] = None
                continue
            e2 = dict(env)
            if scr_id is not None:
                e2[scr_id] = ("adt", scr_adt, v, ())
            if scr_id in param_ids:
                # the dispatched-on variable is a parameter: the WHOLE body is evaluated for this variant, so code shared by
                # the arms before or after the match (guards, a common tail) is part of the arm's term
                whole = S.flow_norm(sy.ev(fn["body"], e2))
                tab[v] = (S._unret_tree(whole), arm)
            else:
                tab[v] = (S._unret_tree(S.flow_norm(sy.ev(arm["b"], e2))), arm)
        return tab, m

    # ------------------------------------------------------------------ R1
    def r1():
        tabs = {}
        # Expression::bytesize: inner match over op
        t_bs, m_bs = sym_arms(f_bs, "BinOpType", BV)
        # operands are bound by the outer pattern BinOp{op,lhs,rhs}
        lhs = rhs = None
        cls = {}
        for v in BV:
            ent = t_bs.get(v)
            if ent is None:
                cls[v] = None
                continue
            term = ent[0]
            c = None
            tt = strip(term)
            if is_call(tt, "new") and tt[2] and tt[2][0] == ("lit", 1):
                c = "one"
            elif is_call(tt, "bytesize") and len(tt[2]) == 1:
                a = tt[2][0]
                c = "lhs" if _mentions(a, "lhs") and not _mentions(a, "rhs") else "rhs?" if _mentions(a, "rhs") else None
            elif is_call(tt, "add") and len(tt[2]) == 2:
                parts = []
                for x in tt[2]:
                    x = strip(x)
                    if is_call(x, "bytesize") and len(x[2]) == 1:
                        parts.append("lhs" if _mentions(x[2][0], "lhs") else "rhs" if _mentions(x[2][0], "rhs") else "?")
                if sorted(parts) == ["lhs", "rhs"]:
                    c = "sum"
            cls[v] = c
        tabs["Expression::bytesize"] = (cls, t_bs)
        # RegisterDomain::bin_op_bytesize
        t_bbs, _ = sym_arms(f_bbs, "BinOpType", BV)
        cls2 = {}
        for v in BV:
            ent = t_bbs.get(v)
            cls2[v] = size_class(ent[0], ("var", "self", _vid(f_bbs, "self")), ("var", "rhs", _vid(f_bbs, "rhs"))) if ent else None
        tabs["RegisterDomain::bin_op_bytesize"] = (cls2, t_bbs)
        # BitvectorExtended::bin_op constructed widths
        t_bv, _ = sym_arms(f_bv, "BinOpType", BV)
        cls3 = {}
        for v in BV:
            ent = t_bv.get(v)
            if ent is None:
                cls3[v] = None
                continue
            ws = set()
            for _c, leaf in leaves(ent[0]):
                p = ok_payload(leaf)
                if p is None:
                    if is_err(leaf):
                        continue
                    ws.add("?")
                    continue
                w = bv_width(p)
                ws.add({"S": "lhs", "8": "one", "S+R": "sum"}.get(w, "?" if w is None else "other:" + str(w)))
            cls3[v] = "err" if not ws else (ws.pop() if len(ws) == 1 else "mixed:" + ",".join(sorted(ws)))
        tabs["BitvectorExtended::bin_op"] = (cls3, t_bv)

        for v in BV:
            want = ref_class(v)
            for tname, (cls_t, symtab) in tabs.items():
                got = cls_t.get(v)
                site = F.loc(symtab[v][1]["b"]) if symtab.get(v) else None
                key = "%s|%s" % (tname, v)
                if got is None or got == "?":
                    run.undecided("R1", key, "width class of arm not in the vocabulary: %s" % (fmt(symtab[v][0]) if symtab.get(v) else "no arm"), site)
                elif got == "err":
                    run.holds("R1", key, "arm yields Err only (no width constructed)", site)
                elif got == want or (v in ("BoolAnd", "BoolOr", "BoolXOr") and got == "lhs"):
                    # P-Code booleans are 1-byte values: "size of lhs" and "1 byte" coincide for BOOL_* operands
                    run.holds("R1", key, "class %s" % got, site)
                else:
                    others = {n: c[0].get(v) for n, c in tabs.items() if n != tname}
                    run.violated("R1", key, "result width of %s is classed '%s' here, P-Code and sibling tables say '%s' (siblings: %s)" % (v, got, want, others), site)

        # unary: Expression::bytesize says FloatNaN -> 1 else size of arg; BitvectorDomain::un_op Top widths
        ms = [m for m in T.find_matches(f_bs["body"], adt_suffix="UnOpType")]
        if not ms:
            raise T.AnchorMissing("Expression::bytesize has no match over UnOpType")
        sy = S.Sym(F).scan(f_bs["body"])
        for v in UV:
            arms = T.arms_for_variant(ms[0], v)
            term = strip(sy.ev(arms[0]["b"], {})) if arms else None
            c = None
            if term and is_call(term, "new") and term[2] and term[2][0] == ("lit", 1):
                c = "one"
            elif term and is_call(term, "bytesize"):
                c = "arg"
            want = "one" if v == "FloatNaN" else "arg"
            key = "Expression::bytesize|UnOp|%s" % v
            site = F.loc(arms[0]["b"]) if arms else None
            if c is None:
                run.undecided("R1", key, "unrecognised size term %s" % (fmt(term) if term else None), site)
            else:
                run.check("R1", key, c == want, "unary %s result width class '%s', P-Code says '%s'" % (v, c, want), site)

    def _vid(fn, name):
        for p in fn["params"]:
            if "p" in p:
                for (i, n, _) in T.pat_bindings(p["p"]):
                    if n == name:
                        return i
        return None

    def _mentions(t, name):
        return any(isinstance(x, tuple) and x and x[0] in ("var",) and x[1] == name for x in S.subterms(t)) or \
            any(isinstance(x, tuple) and x and x[0] == "field" and isinstance(x[2], str) and x[2].endswith("." + name) for x in S.subterms(t))

    run.guarded("R1", r1)

    # ------------------------------------------------------------------ R2
    def r2():
        t_bv, _ = sym_arms(f_bv, "BinOpType", BV)
        t_un, _ = sym_arms(f_un, "UnOpType", UV)
        t_ca, _ = sym_arms(f_cast, "CastOpType", CV)
        nfloat = 0
        for fam, tab, variants in (("BinOp", t_bv, BV), ("UnOp", t_un, UV), ("Cast", t_ca, CV)):
            for v in variants:
                unsupported = v.startswith("Float") or (fam == "Cast" and v in ("Int2Float", "Float2Float", "Trunc"))
                if not unsupported:
                    continue
                nfloat += 1
                ent = tab.get(v)
                key = "unsupported-is-Err|%s|%s" % (fam, v)
                if ent is None:
                    run.violated("R2", key, "no arm for %s" % v)
                    continue
                ls = [l for _c, l in leaves(ent[0])]
                bad = [l for l in ls if not is_err(l)]
                run.check("R2", key, not bad, "unsupported operation %s must yield Err on every path; found value leaf %s" % (v, fmt(bad[0]) if bad else ""), F.loc(ent[1]["b"]))
        run.floor("unsupported operations", nfloat, 8 + 7 + 3)
        for v in ("IntMult", "IntDiv", "IntSDiv", "IntRem", "IntSRem"):
            ent = t_bv.get(v)
            key = "wide-guard|%s" % v
            if ent is None:
                run.violated("R2", key, "no arm")
                continue
            term = ent[0]
            site = F.loc(ent[1]["b"])
            # every Ok leaf must sit under a path condition that bounds width(self) by 64
            ok = True
            why = ""
            found_leaf = False
            for conds, leaf in leaves(term):
                if is_err(leaf):
                    continue
                found_leaf = True
                guarded = False
                for c, pol in conds:
                    g = width_guard(c)
                    if g is None:
                        continue
                    # g = True means "cond is true iff width > 64"
                    if (g is True and pol is False) or (g is False and pol is True):
                        guarded = True
                if not guarded:
                    ok = False
                    why = "value leaf %s is not under a `width(self) > 64 => Err` guard" % fmt(leaf)
            if not found_leaf:
                run.undecided("R2", key, "no value leaf found: %s" % fmt(term), site)
            else:
                run.check("R2", key, ok, why or "guarded", site)
        for v in ("IntDiv", "IntSDiv", "IntRem", "IntSRem"):
            ent = t_bv.get(v)
            if ent is None:
                continue
            key = "div-error-propagated|%s" % v
            site = F.loc(ent[1]["b"])
            bad = None
            seen = False
            for x in S.subterms(ent[0]):
                if is_call(x, ("unwrap", "expect", "unwrap_or", "unwrap_or_default", "unwrap_or_else", "unwrap_unchecked", "ok")) and x[2]:
                    inner = x[2][0]
                    if is_call(inner) and ("div" in inner[1] or "rem" in inner[1]):
                        bad = x
                if is_call(x) and ("div" in x[1] or "rem" in x[1]):
                    seen = True
            if not seen:
                run.undecided("R2", key, "no division primitive found in arm: %s" % fmt(ent[0]), site)
            else:
                run.check("R2", key, bad is None, "the result of a checked division is unwrapped/discarded (%s): division by zero would panic or yield a value" % (fmt(bad) if bad else ""), site)

    def width_guard(c):
        """True if cond <=> width(self) > 64 ; False if cond <=> width(self) <= 64; None otherwise"""
        if c[0] == "not":
            g = width_guard(c[1])
            return None if g is None else (not g)
        if c[0] != "bin":
            return None
        op, l, r = c[1], c[2], c[3]
        wl, wr = width_expr(l), width_expr(r)
        if wl == "S" and r[0] == "lit":
            n = r[1]
        elif wr == "S" and l[0] == "lit":
            n = l[1]
            op = {"Gt": "Lt", "Lt": "Gt", "Ge": "Le", "Le": "Ge"}.get(op, op)
        else:
            return None
        if (op, n) in (("Gt", 64), ("Ge", 65)):
            return True
        if (op, n) in (("Le", 64), ("Lt", 65)):
            return False
        return None

    run.guarded("R2", r2)

    # ------------------------------------------------------------------ R3
    def r3():
        for name, argn, wrule in (("bin_op", 3, "bin"), ("un_op", 2, "un"), ("cast", 3, "cast"), ("subpiece", 3, "subpiece")):
            fn = F.fn(name, adt="BitvectorDomain", trait="RegisterDomain")
            sy = S.Sym(F, fold=True)
            term = S._unret_tree(S.flow_norm(sy.term(fn["body"])))
            site = F.loc(fn["body"])
            n_top = n_val = 0
            unknown = []

            def visit(t, in_err, opnames=None):
                nonlocal n_top, n_val
                t = S.value(t)
                if t[0] == "ite":
                    visit(t[2], in_err, opnames)
                    visit(t[3], in_err, opnames)
                    return
                if t[0] == "match":
                    seen = set()
                    for pat, g, b in t[2]:
                        on = opnames
                        if is_var(t[1], "op"):
                            names = set(x.strip() for x in pat.split("|"))
                            if names == {"_"}:
                                names = set(UV) - seen
                            seen |= names
                            on = names
                        visit(b, in_err or pat.startswith("Err"), on)
                    return
                key = "%s|leaf" % name
                if t[0] == "adt" and t[1].endswith("BitvectorDomain") and t[2] == "Value":
                    n_val += 1
                    payload = dict(t[3])["0"]
                    if in_err:
                        run.violated("R3", "%s|err-arm-yields-value" % name, "an Err arm of BitvectorDomain::%s builds a Value: %s" % (name, fmt(t)), site)
                        return
                    # payload must be the Ok value of the concrete operation or the concrete op itself (subpiece)
                    src = strip(payload)
                    okish = (src[0] == "field" and src[2].startswith("Ok.")) or is_call(src, name)
                    if not okish:
                        run.undecided("R3", "%s|value-source" % name, "Value payload is not the concrete result: %s" % fmt(payload), site)
                    return
                if is_call(t, "new_top") or (t[0] == "adt" and t[1].endswith("BitvectorDomain") and t[2] == "Top"):
                    n_top += 1
                    w = t[2][0] if t[0] == "call" else dict(t[3])["0"]
                    okw, why = top_width_ok(wrule, w, fn, opnames)
                    if okw is None:
                        run.undecided("R3", "%s|top-width" % name, why, site)
                    elif not okw:
                        run.violated("R3", "%s|top-width" % name, why, site)
                    return
                if t == ("tuple", ()):
                    return
                unknown.append(t)
                run.undecided("R3", "%s|leaf-shape" % name, "unrecognised result leaf %s" % fmt(t), site)

            visit(term, False)
            if unknown and not (n_top >= 1 and n_val >= 1):
                run.undecided("R3", "%s|has-top-and-value" % name, "result leaves not recognised (top=%d value=%d)" % (n_top, n_val), site)
            else:
                run.check("R3", "%s|has-top-and-value" % name, n_top >= 1 and n_val >= 1, "expected both Top and Value results (top=%d value=%d)" % (n_top, n_val), site)
            # the concrete call: operand order
            cs = [x for x in S.subterms(term) if is_call(x, name) and "BitvectorExtended" in x[3]]
            if not cs:
                run.violated("R3", "%s|delegates" % name, "BitvectorDomain::%s does not call BitvectorExtended::%s" % (name, name), site)
            for c in cs:
                a = c[2]
                good = a and a[0][0] == "field" and _root_is(a[0], "self")
                if name == "bin_op":
                    good = good and len(a) == 3 and is_var(a[1], "op") and a[2][0] == "field" and _root_is(a[2], "rhs")
                elif name == "un_op":
                    good = good and is_var(a[1], "op")
                elif name == "cast":
                    good = good and is_var(a[1], "kind") and is_var(a[2], "width")
                elif name == "subpiece":
                    good = good and is_var(a[1], "low_byte") and is_var(a[2], "size")
                run.check("R3", "%s|operand-order" % name, bool(good), "concrete call %s must take (value of self, parameters in declaration order, value of rhs)" % fmt(c), site)

    def _root_is(t, name):
        while t[0] == "field":
            t = t[1]
        return is_var(t, name)

    def top_width_ok(rule, w, fn, opnames=None):
        w = strip(w)
        if rule == "bin":
            if is_call(w, "bin_op_bytesize") and len(w[2]) == 3 and is_var(w[2][0], "self") and is_var(w[2][1], "op") and is_var(w[2][2], "rhs"):
                return True, ""
            return False, "Top width of bin_op must be bin_op_bytesize(self, op, rhs); found %s" % fmt(w)
        if rule == "cast":
            return (True, "") if is_var(w, "width") else (False, "Top width of cast must be the `width` parameter; found %s" % fmt(w))
        if rule == "subpiece":
            return (True, "") if is_var(w, "size") else (False, "Top width of subpiece must be the `size` parameter; found %s" % fmt(w))
        if rule == "un" and opnames is not None:
            if is_call(w, "new") and w[2] and w[2][0] == ("lit", 1):
                if opnames <= {"BoolNegate", "FloatNaN"}:
                    return True, ""
                return False, "un_op Top is 1 byte for %s; only FloatNaN (and BoolNegate, whose argument is 1 byte) have 1-byte results" % sorted(opnames)
            if is_call(w, "bytesize") and is_var(w[2][0], "self"):
                if "FloatNaN" in opnames:
                    return False, "un_op Top for FloatNaN must be 1 byte, found self.bytesize()"
                return True, ""
            return None, "unrecognised un_op Top width %s" % fmt(w)
        if rule == "un":
            # match op { BoolNegate | FloatNaN => 1, _ => self.bytesize() }
            if w[0] == "match" and is_var(w[1], "op"):
                for pat, g, b in w[2]:
                    names = set(x.strip() for x in pat.split("|"))
                    b = strip(b)
                    if is_call(b, "new") and b[2] and b[2][0] == ("lit", 1):
                        if not names <= {"BoolNegate", "FloatNaN"}:
                            return False, "un_op Top is 1 byte for %s; only FloatNaN (and BoolNegate, whose argument is 1 byte) are 1-byte results" % sorted(names)
                    elif is_call(b, "bytesize") and is_var(b[2][0], "self"):
                        if "FloatNaN" in names:
                            return False, "un_op Top for FloatNaN must be 1 byte"
                    else:
                        return None, "unrecognised un_op width arm %s" % fmt(b)
                # FloatNaN must be in a 1-byte arm
                ones = [pat for pat, g, b in w[2] if is_call(strip(b), "new")]
                if not any("FloatNaN" in p for p in ones):
                    return False, "un_op Top for FloatNaN must be 1 byte"
                return True, ""
            if is_call(w, "bytesize") and is_var(w[2][0], "self"):
                return False, "un_op Top width ignores that FloatNaN yields 1 byte"
            return None, "unrecognised un_op Top width %s" % fmt(w)
        return None, "?"

    run.guarded("R3", r3)

    # ------------------------------------------------------------------ R4
    def r4():
        t_bv, _ = sym_arms(f_bv, "BinOpType", BV)
        selfv = lambda t: is_var(strip_conv(t), "self")
        rhsv = lambda t: is_var(strip_conv(t), "rhs")

        def strip_conv(t):
            t = strip(t)
            while is_call(t, ("from", "into")) and len(t[2]) == 1:
                t = strip(t[2][0])
            return t

        def flag_formula(term):
            """-> (cond, polarity) where the arm yields 1 iff cond == polarity"""
            if term[0] != "ite":
                # Bitvector::from(cond as u8)
                p = ok_payload(term)
                if p is not None:
                    q = strip(p)
                    if is_call(q, ("from", "from_u8")) and q[2] and q[2][0][0] == "cast":
                        return q[2][0][1], True
                return None
            lt, le = ok_payload(term[2]), ok_payload(term[3])
            if lt is None or le is None:
                return None
            def const(p):
                p = strip(p)
                if is_call(p, ("from_u8", "from", "from_u64")) and p[2] and p[2][0][0] == "lit":
                    return p[2][0][1]
                if is_call(p, "zero"):
                    return 0
                if is_call(p, "one"):
                    return 1
                return None
            a, b = const(lt), const(le)
            if (a, b) == (1, 0):
                return term[1], True
            if (a, b) == (0, 1):
                return term[1], False
            return None

        def sign_table(cond, res_is):
            """Evaluate cond over atoms neg(res), neg(a), neg(b). Returns dict or None."""
            import itertools
            def ev(t, asg):
                if t[0] == "and":
                    x, y = ev(t[1], asg), ev(t[2], asg)
                    return None if x is None or y is None else (x and y)
                if t[0] == "or":
                    x, y = ev(t[1], asg), ev(t[2], asg)
                    return None if x is None or y is None else (x or y)
                if t[0] == "not":
                    x = ev(t[1], asg)
                    return None if x is None else (not x)
                if t[0] == "bin" and t[1] in ("Eq", "Ne"):
                    x, y = ev(t[2], asg), ev(t[3], asg)
                    if x is None or y is None:
                        return None
                    return (x == y) if t[1] == "Eq" else (x != y)
                if is_call(t, ("is_negative", "is_positive")) or (is_call(t, "to_bool") and is_call(strip(t[2][0]), "sign_bit")):
                    if is_call(t, "to_bool"):
                        who = strip_conv(strip(t[2][0])[2][0])
                        neg = True
                    else:
                        who = strip_conv(t[2][0])
                        neg = t[1] == "is_negative"
                    if is_var(who, "self"):
                        v = asg["a"]
                    elif is_var(who, "rhs"):
                        v = asg["b"]
                    elif res_is(who):
                        v = asg["r"]
                    else:
                        return None
                    return v if neg else (not v)
                return None
            tab = {}
            for r, a, b in itertools.product((False, True), repeat=3):
                x = ev(cond, {"r": r, "a": a, "b": b})
                if x is None:
                    return None
                tab[(r, a, b)] = x
            return tab

        def is_sum(t):
            c = canon_arith(t)
            return c is not None and c[0] == "add" and {fmt(c[1]), fmt(c[2])} == {"self", "rhs"}

        def is_diff(t):
            c = canon_arith(t)
            return c is not None and c[0] == "sub" and is_var(c[1], "self") and is_var(c[2], "rhs")

        for v, res_is, ref, refname in (
            ("IntSCarry", is_sum, lambda r, a, b: (a == b) and (r != a), "sign(a)==sign(b) && sign(a+b)!=sign(a)"),
            ("IntSBorrow", is_diff, lambda r, a, b: (a != b) and (r != a), "sign(a)!=sign(b) && sign(a-b)!=sign(a)"),
        ):
            ent = t_bv.get(v)
            key = "%s|sign-truth-table" % v
            if ent is None:
                run.violated("R4", key, "no arm")
                continue
            site = F.loc(ent[1]["b"])
            # delegation to the sibling flag with a negated operand: sborrow(a, b) := scarry(a, -b) (or vice versa).
            # sign(-b) is the opposite of sign(b) EXCEPT for b == 0 (stays non-negative) and b == MIN (stays negative),
            # so the table is evaluated over the three operand classes {other, zero, MIN}; a + (-b) and a - b are the same
            # bit-vector, so the callee's result atom is the caller's.
            dele = strip(ent[0])
            if is_call(dele, "bin_op") and len(dele[2]) == 3 and dele[2][1][0] == "adt" and dele[2][1][2] in ("IntSCarry", "IntSBorrow") and dele[2][1][2] != v:
                w = dele[2][1][2]
                a0, b0 = strip_conv(dele[2][0]), strip_conv(dele[2][2])
                negated = (b0[0] == "neg" and is_var(strip_conv(b0[1]), "rhs")) or (is_call(b0, ("neg", "into_negate")) and b0[2] and is_var(strip_conv(b0[2][0]), "rhs"))
                entw = t_bv.get(w)
                ffw = flag_formula(entw[0]) if entw else None
                w_res = is_sum if w == "IntSCarry" else is_diff
                tabw = sign_table(ffw[0], w_res) if ffw else None
                if is_var(a0, "self") and negated and tabw is not None:
                    wrong = []
                    for cls in ("other", "zero", "MIN"):
                        for r in (False, True):
                            for a in (False, True):
                                for b in (False, True):
                                    if cls == "zero" and (b or r != a):
                                        continue
                                    if cls == "MIN" and (not b or r == a):
                                        continue
                                    nb = (not b) if cls == "other" else b
                                    got = tabw[(r, a, nb)] == ffw[1]
                                    if got != ref(r, a, b):
                                        wrong.append((cls, r, a, b))
                    if wrong:
                        cls, r, a, b = wrong[0]
                        run.violated("R4", key, "%s is computed as %s(self, -rhs); -rhs has the opposite sign of rhs except for rhs == 0 and rhs == MIN, and for rhs %s with sign(self)=%s the delegated flag differs from P-Code (%s) (%d operand classes wrong)" % (
                            v, w, "== " + cls if cls != "other" else "in the generic class", "neg" if a else "nonneg", refname, len(wrong)), site)
                    else:
                        run.holds("R4", key, "delegates to %s with a negated operand; equal on all operand classes" % w, site)
                    continue
            ff = flag_formula(ent[0])
            if ff is None:
                run.undecided("R4", key, "arm is not `if cond {1} else {0}`: %s" % fmt(ent[0]), site)
                continue
            cond, pol = ff
            tab = sign_table(cond, res_is)
            if tab is None:
                run.undecided("R4", key, "condition leaves the sign-atom vocabulary: %s" % fmt(cond), site)
                continue
            wrong = [(r, a, b) for (r, a, b), x in sorted(tab.items()) if (x == pol) != ref(r, a, b)]
            if wrong:
                ex = wrong[0]
                run.violated("R4", key, "%s flag differs from P-Code (%s) for sign(result)=%s sign(self)=%s sign(rhs)=%s (%d of 8 sign combinations wrong); condition: %s" % (
                    v, refname, *("neg" if x else "nonneg" for x in ex), len(wrong), fmt(cond)), site)
            else:
                run.holds("R4", key, "truth table over (sign result, sign self, sign rhs) equals %s" % refname, site)

        # IntCarry
        ent = t_bv.get("IntCarry")
        key = "IntCarry|condition"
        if ent is None:
            run.violated("R4", key, "no arm")
        else:
            site = F.loc(ent[1]["b"])
            ff = flag_formula(ent[0])
            if ff is None:
                run.undecided("R4", key, "arm is not a 0/1 flag: %s" % fmt(ent[0]), site)
            else:
                cond, pol = ff
                disj = []
                def flat(t):
                    if t[0] == "or":
                        flat(t[1]); flat(t[2])
                    else:
                        disj.append(t)
                flat(cond)
                cs = [canon_cmp(d) for d in disj]
                if any(c is None for c in cs) or not pol:
                    run.undecided("R4", key, "carry condition outside the vocabulary: %s" % fmt(cond), site)
                else:
                    good = all(c[0] == "ult" and is_sum(c[1]) and (is_var(c[2], "self") or is_var(c[2], "rhs")) for c in cs)
                    run.check("R4", key, good, "INT_CARRY must be (self+rhs) <u self (or <u rhs); found %s" % fmt(cond), site)

    run.guarded("R4", r4)

    # ------------------------------------------------------------------ R5
    def r5():
        t_bv, _ = sym_arms(f_bv, "BinOpType", BV)
        REF_ARITH = {"IntAdd": "add", "IntSub": "sub", "IntMult": "mul", "IntDiv": "udiv", "IntSDiv": "sdiv", "IntRem": "urem", "IntSRem": "srem",
                     "IntAnd": "and", "BoolAnd": "and", "IntOr": "or", "BoolOr": "or", "IntXOr": "xor", "BoolXOr": "xor"}
        REF_CMP = {"IntEqual": "eq", "IntNotEqual": "ne", "IntLess": "ult", "IntLessEqual": "ule", "IntSLess": "slt", "IntSLessEqual": "sle"}
        REF_SHIFT = {"IntLeft": "into_checked_shl", "IntRight": "into_checked_lshr", "IntSRight": "into_checked_ashr"}
        SHIFT_NAMES = {"into_checked_shl": "shl", "into_checked_lshr": "lshr", "into_checked_ashr": "ashr",
                       "into_wrapping_shl": "shl", "into_wrapping_lshr": "lshr", "into_wrapping_ashr": "ashr"}
        n = 0
        for v in BV:
            ent = t_bv.get(v)
            if ent is None:
                run.violated("R5", "%s|has-arm" % v, "BinOpType::%s has no arm in BitvectorExtended::bin_op" % v)
                continue
            term, arm = ent
            site = F.loc(arm["b"])
            key = "%s|primitive" % v
            if v in REF_ARITH:
                n += 1
                vals = [ok_payload(l) for _c, l in leaves(term) if not is_err(l)]
                if len(vals) != 1 or vals[0] is None:
                    run.undecided("R5", key, "not a single value leaf: %s" % fmt(term), site)
                    continue
                c = canon_arith(vals[0])
                if c is None or not ({fmt(c[1]), fmt(c[2])} <= {"self", "rhs"}):
                    run.undecided("R5", key, "not a single primitive on (self, rhs): %s" % fmt(vals[0]), site)
                    continue
                want = REF_ARITH[v]
                if want in ("add", "mul", "and", "or", "xor"):
                    good = c[0] == want and {fmt(c[1]), fmt(c[2])} == {"self", "rhs"}
                else:
                    good = c[0] == want and is_var(c[1], "self") and is_var(c[2], "rhs")
                run.check("R5", key, good, "%s must compute %s(self, rhs); found %s(%s, %s)" % (v, want, c[0], fmt(c[1]), fmt(c[2])), site)
            elif v in REF_CMP:
                n += 1
                vals = [ok_payload(l) for _c, l in leaves(term) if not is_err(l)]
                if len(vals) != 1 or vals[0] is None:
                    run.undecided("R5", key, "not a single value leaf: %s" % fmt(term), site)
                    continue
                c = canon_cmp(vals[0])
                if c is None or not ({fmt(c[1]), fmt(c[2])} <= {"self", "rhs"}):
                    run.undecided("R5", key, "not a single comparison on (self, rhs): %s" % fmt(vals[0]), site)
                    continue
                want = REF_CMP[v]
                if want in ("eq", "ne"):
                    good = c[0] == want and {fmt(c[1]), fmt(c[2])} == {"self", "rhs"}
                else:
                    good = c[0] == want and is_var(c[1], "self") and is_var(c[2], "rhs")
                run.check("R5", key, good, "%s must compute %s(self, rhs); found %s(%s, %s)" % (v, want, c[0], fmt(c[1]), fmt(c[2])), site)
            elif v in REF_SHIFT:
                n += 1
                # arms shared between shift operations: `if op == IntRight {..} else {..}` is specialised for this variant
                for _ in range(4):
                    if term[0] == "ite" and is_call(term[1], ("eq", "ne")) and len(term[1][2]) == 2:
                        a, b = S.value(term[1][2][0]), S.value(term[1][2][1])
                        if b[0] == "var" and a[0] == "adt":
                            a, b = b, a
                        if a[0] == "var" and a[1] == "op" and b[0] == "adt" and b[1].endswith("BinOpType"):
                            same = (b[2] == v) == (term[1][1] == "eq")
                            term = S.value(term[2] if same else term[3])
                            continue
                    break
                # clamped form: shift(self, min(amount, width(self) - 1)) -- correct for the arithmetic shift only
                p0 = ok_payload(term)
                sh0 = strip(p0) if p0 else None
                if sh0 and is_call(sh0) and sh0[1] in SHIFT_NAMES and len(sh0[2]) == 2:
                    amt = strip(sh0[2][1])
                    if is_call(amt, "min") and len(amt[2]) == 2:
                        parts = [strip(x) for x in amt[2]]
                        lim = [x for x in parts if x[0] == "bin" and x[1] == "Sub" and width_expr(x[2]) == "S" and fmt(x[3]) in ("1", "'1'")]
                        raw = [x for x in parts if _mentions(x, "rhs") and not _mentions(x, "self")]
                        if len(lim) == 1 and len(raw) == 1 and is_var(strip(sh0[2][0]), "self"):
                            prim_ok = SHIFT_NAMES[sh0[1]] == SHIFT_NAMES[REF_SHIFT[v]]
                            run.check("R5", key, prim_ok, "%s must compute %s(self, amount from rhs); found %s" % (v, SHIFT_NAMES[REF_SHIFT[v]], fmt(sh0)), site)
                            run.check("R5", "%s|saturation-fill" % v, v == "IntSRight", "%s clamps the shift amount to width-1 instead of testing amount < width: shifting by width-1 keeps one bit of self, but an over-shift must yield zero (only the arithmetic right shift may saturate this way); found %s" % (v, fmt(sh0)), site)
                            continue
                if term[0] != "ite":
                    run.undecided("R5", key, "shift arm is not guarded by a saturation test: %s" % fmt(term), site)
                    continue
                cond = term[1]
                pol = None
                if cond[0] == "bin" and cond[1] in ("Lt", "Ge", "Gt", "Le"):
                    l, r = cond[2], cond[3]
                    op = cond[1]
                    if width_expr(l) == "S":
                        l, r = r, l
                        op = {"Lt": "Gt", "Gt": "Lt", "Le": "Ge", "Ge": "Le"}[op]
                    if width_expr(r) == "S" and _mentions(l, "rhs") and not _mentions(l, "self"):
                        pol = {"Lt": True, "Ge": False}.get(op)
                if pol is None:
                    run.undecided("R5", key, "saturation guard outside the vocabulary: %s" % fmt(cond), site)
                    continue
                inb, outb = (term[2], term[3]) if pol else (term[3], term[2])
                p = ok_payload(inb)
                sh = strip(p) if p else None
                if not (sh and is_call(sh) and sh[1] in SHIFT_NAMES and len(sh[2]) == 2):
                    run.undecided("R5", key, "in-range branch is not a single shift primitive: %s" % fmt(inb), site)
                    continue
                good = SHIFT_NAMES[sh[1]] == SHIFT_NAMES[REF_SHIFT[v]] and is_var(strip(sh[2][0]), "self") and _mentions(sh[2][1], "rhs")
                run.check("R5", key, good, "%s must compute %s(self, amount from rhs); found %s" % (v, SHIFT_NAMES[REF_SHIFT[v]], fmt(sh)), site)
                # fill
                fkey = "%s|saturation-fill" % v
                if v != "IntSRight":
                    p = ok_payload(outb)
                    q = strip(p) if p else None
                    if q and is_call(q, "zero") and width_expr(q[2][0]) == "S":
                        run.holds("R5", fkey, "zero(width(self))", site)
                    elif q and is_call(q, ("zero", "one", "all_set")):
                        run.violated("R5", fkey, "out-of-range %s must yield zero of self's width; found %s" % (v, fmt(q)), site)
                    else:
                        run.undecided("R5", fkey, "fill outside vocabulary: %s" % fmt(outb), site)
                else:
                    if outb[0] == "ite" and (is_call(outb[1], ("is_negative", "is_positive")) or outb[1][0] == "not"):
                        c = outb[1]
                        neg = True
                        while c[0] == "not":
                            neg = not neg
                            c = c[1]
                        if is_call(c, ("is_negative", "is_positive")):
                            who = strip(c[2][0])
                            while is_call(who, ("from", "into")):
                                who = strip(who[2][0])
                            if c[1] == "is_positive":
                                neg = not neg
                            nb, pb = (outb[2], outb[3]) if neg else (outb[3], outb[2])
                            pz = strip(ok_payload(pb) or ("opaque",))
                            nm = strip(ok_payload(nb) or ("opaque",))
                            minus_one = (is_call(nm, "sub") and is_call(strip(nm[2][0]), "zero") and is_call(strip(nm[2][1]), "one")) or \
                                is_call(nm, "all_set") or (nm[0] == "neg" and is_call(strip(nm[1]), "one"))
                            good = is_var(who, "self") and is_call(pz, "zero") and minus_one
                            run.check("R5", fkey, bool(good), "out-of-range INT_SRIGHT must yield -1 if self is negative else 0; found %s" % fmt(outb), site)
                        else:
                            run.undecided("R5", fkey, "sign test outside vocabulary: %s" % fmt(outb[1]), site)
                    else:
                        run.undecided("R5", fkey, "sign-fill outside vocabulary: %s" % fmt(outb), site)
            elif v == "Piece":
                n += 1
                p = ok_payload(term)
                q = strip(p) if p else None
                ok = None
                if q and is_call(q, ("bitor", "add", "bitxor")) and len(q[2]) == 2:
                    parts = [strip(x) for x in q[2]]
                    hi = [x for x in parts if is_call(x, ("into_checked_shl", "into_wrapping_shl"))]
                    lo = [x for x in parts if is_call(x, "into_zero_extend")]
                    if len(hi) == 1 and len(lo) == 1:
                        hz = strip(hi[0][2][0])
                        ok = (is_call(hz, "into_zero_extend") and is_var(strip(hz[2][0]), "self") and width_expr(hz[2][1]) == "S+R"
                              and width_expr(hi[0][2][1]) == "R" and is_var(strip(lo[0][2][0]), "rhs") and width_expr(lo[0][2][1]) == "S+R")
                if ok is None:
                    run.undecided("R5", key, "piece construction outside vocabulary: %s" % fmt(term), site)
                else:
                    run.check("R5", key, ok, "PIECE must be zext(self, wS+wR) << wR | zext(rhs, wS+wR) (self is the most significant part); found %s" % fmt(q), site)
        run.floor("R5 operations with a reference primitive", n, 23)

        # unary / cast / subpiece
        t_un, _ = sym_arms(f_un, "UnOpType", UV)
        for v, want in (("Int2Comp", "neg"), ("IntNegate", "bitnot")):
            ent = t_un.get(v)
            key = "UnOp|%s|primitive" % v
            if not ent:
                run.violated("R5", key, "no arm")
                continue
            p = ok_payload(ent[0])
            q = strip(p) if p else None
            got = None
            if q is not None:
                if q[0] == "neg" or is_call(q, ("neg", "into_negate")):
                    got = "neg"
                    arg = q[1] if q[0] == "neg" else q[2][0]
                elif is_call(q, ("into_bitnot", "not")) or q[0] == "not":
                    got = "bitnot"
                    arg = q[1] if q[0] == "not" else q[2][0]
            if got is None or not is_var(strip(arg), "self"):
                run.undecided("R5", key, "outside vocabulary: %s" % fmt(ent[0]), F.loc(ent[1]["b"]))
            else:
                run.check("R5", key, got == want, "%s must be %s(self); found %s" % (v, want, got), F.loc(ent[1]["b"]))
        ent = t_un.get("BoolNegate")
        if ent:
            term = ent[0]
            key = "UnOp|BoolNegate|primitive"
            site = F.loc(ent[1]["b"])
            if term[0] == "ite" and (is_call(term[1], "is_zero") or term[1][0] == "not"):
                c, pol = term[1], True
                while c[0] == "not":
                    c, pol = c[1], not pol
                def const(p):
                    p = strip(ok_payload(p) or ("opaque",))
                    return p[2][0][1] if is_call(p, ("from_u8", "from")) and p[2] and p[2][0][0] == "lit" else None
                a, b = const(term[2]), const(term[3])
                if is_call(c, "is_zero") and is_var(strip(c[2][0]), "self") and None not in (a, b):
                    run.check("R5", key, (a, b) == ((1, 0) if pol else (0, 1)), "BOOL_NEGATE must map 0 -> 1 and 1 -> 0; found zero->%s nonzero->%s" % ((a, b) if pol else (b, a)), site)
                else:
                    run.undecided("R5", key, "outside vocabulary: %s" % fmt(term), site)
            else:
                run.undecided("R5", key, "outside vocabulary: %s" % fmt(term), site)
        t_ca, _ = sym_arms(f_cast, "CastOpType", CV)
        REFC = {"IntZExt": ("into_zero_extend", None), "IntSExt": ("into_sign_extend", None), "PopCount": ("into_resize_unsigned", "count_ones"), "LzCount": ("into_resize_unsigned", "leading_zeros")}
        for v, (outer, inner) in REFC.items():
            ent = t_ca.get(v)
            key = "Cast|%s|primitive" % v
            if not ent:
                run.violated("R5", key, "no arm")
                continue
            site = F.loc(ent[1]["b"])
            p = ok_payload(ent[0])
            q = strip(p) if p else None
            if not (q and is_call(q) and len(q[2]) == 2 and q[1] in ("into_zero_extend", "into_sign_extend", "into_resize_unsigned", "into_resize_signed", "into_truncate")):
                run.undecided("R5", key, "outside vocabulary: %s" % fmt(ent[0]), site)
                continue
            good = q[1] == outer and is_var(strip(q[2][1]), "width")
            src = strip(q[2][0])
            if inner is None:
                good = good and is_var(src, "self")
            else:
                while is_call(src, ("from_u64", "from_u32", "from", "from_u128")) or src[0] == "cast":
                    src = strip(src[2][0] if src[0] == "call" else src[1])
                if not is_call(src):
                    run.undecided("R5", key, "outside vocabulary: %s" % fmt(ent[0]), site)
                    continue
                good = good and src[1] == inner and is_var(strip(src[2][0]), "self")
            run.check("R5", key, bool(good), "%s must be %s(%s, width); found %s" % (v, outer, inner + "(self)" if inner else "self", fmt(q)), site)
        # subpiece
        sy = S.Sym(F)
        term = strip(sy.term(f_sub["body"]))
        key = "subpiece|primitive"
        site = F.loc(f_sub["body"])
        if is_call(term, "into_truncate") and len(term[2]) == 2:
            inner = strip(term[2][0])
            def bits_of(t, pname):
                t = strip(t)
                return is_call(t, "as_bit_length") and is_var(strip(t[2][0]), pname)
            if is_call(inner, ("into_checked_lshr", "into_wrapping_lshr")):
                good = is_var(strip(inner[2][0]), "self") and bits_of(inner[2][1], "low_byte") and bits_of(term[2][1], "size")
                run.check("R5", key, bool(good), "SUBPIECE must be truncate(self >>u 8*low_byte, 8*size); found %s" % fmt(term), site)
            elif is_call(inner, ("into_checked_ashr", "into_checked_shl")):
                run.violated("R5", key, "SUBPIECE must shift right logically; found %s" % fmt(term), site)
            else:
                run.undecided("R5", key, "outside vocabulary: %s" % fmt(term), site)
        else:
            run.undecided("R5", key, "outside vocabulary: %s" % fmt(term), site)

    run.guarded("R5", r5)

    # ------------------------------------------------------------------ R6
    def r6():
        n = 0
        for adt in ("BitvectorDomain", "IntervalDomain", "DataDomain"):
            for tr, meth, call, opv in (("::Add", "add", "bin_op", "IntAdd"), ("::Sub", "sub", "bin_op", "IntSub"), ("::Neg", "neg", "un_op", "Int2Comp")):
                fns = F.find_fns(name=meth, adt=adt, trait=tr)
                for fn in fns:
                    n += 1
                    sy = S.Sym(F)
                    term = strip(sy.term(fn["body"]))
                    key = "%s|%s" % (adt, meth)
                    site = F.loc(fn["body"])
                    cs = [x for x in S.subterms(term) if is_call(x, call)]
                    if len(cs) != 1:
                        run.undecided("R6", key, "does not delegate to a single %s call: %s" % (call, fmt(term)), site)
                        continue
                    c = cs[0]
                    ops = [a for a in c[2] if a[0] == "adt" and a[1].endswith("OpType")]
                    good = len(ops) == 1 and ops[0][2] == opv and is_var(strip(c[2][0]), "self")
                    if call == "bin_op":
                        good = good and len(c[2]) == 3 and is_var(strip(c[2][2]), "rhs")
                    run.check("R6", key, bool(good), "impl %s for %s must call self.%s(%s%s); found %s" % (tr.split("::")[-1], adt, call, opv, ", rhs" if call == "bin_op" else "", fmt(c)), site)
        run.floor("operator impls", n, 6)

    run.guarded("R6", r6)
